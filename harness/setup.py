"""setup: translator self-test, regenerate Gen/*.v from /repo, full clean .vo build of the Coq development."""
import os, sys, time
sys.path.insert(0, os.path.dirname(os.path.abspath(__file__)))
import lib

def main():
    t0 = time.time()
    rc, out, _ = lib.sh([lib.PY, os.path.join(lib.ROOT, "tools", "py2v.py"), "--selftest"], timeout=120)
    print(out)
    if rc != 0:
        return 1
    with lib.Lock():
        g = lib.regen(lib.all_gen_targets())
        for t, r in g.items():
            print("gen", t, r["status"])
        lib.sh("rm -f Makefile Makefile.conf .Makefile.d; find theories cases -name '*.vo' -o -name '*.vok' -o -name '*.vos' -o -name '*.glob' -o -name '.*.aux' | xargs rm -f", cwd=lib.COQ)
        ok, log = lib.make(timeout=3000)
        print(log[-3000:])
        if not ok:
            print("BUILD FAILED (checks will report the broken obligations)")
    print(f"setup done in {time.time()-t0:.0f}s")
    return 0

if __name__ == "__main__":
    sys.exit(main())
