"""Shared machinery for the checks: regenerate Gen/*.v, build Coq, audit, run case files,
write evidence, classify violations against known_findings.json."""
import fcntl, hashlib, json, os, re, subprocess, sys, time, random, shutil

ROOT = os.path.dirname(os.path.dirname(os.path.abspath(__file__)))
COQ = os.path.join(ROOT, "coq")
REPO = os.environ.get("VERIF_REPO", "/repo")
PY = "/venv/bin/python"
NPROC = 16

ENV = dict(os.environ)
ENV.update({"PYTHONPATH": REPO, "PYTHONHASHSEED": "0", "PIP_NO_INDEX": "1", "PYTHONDONTWRITEBYTECODE": "1"})

FORBIDDEN = re.compile(r"\b(Admitted|admit|Axiom|Axioms|Parameter|Parameters|Conjecture|Conjectures|Hypothesis|Hypotheses|Variable|Variables)\b|Unset Guard|bypass_check|type-in-type|impredicative-set|Admit Obligations")

# axioms from the standard library that a proof may depend on (named in DESIGN section 6)
ALLOWED_AXIOMS = set()


def sh(cmd, timeout=600, cwd=None, env=None, input=None):
    t0 = time.time()
    try:
        p = subprocess.run(cmd, shell=isinstance(cmd, str), cwd=cwd, env=env or ENV, timeout=timeout,
                           stdout=subprocess.PIPE, stderr=subprocess.STDOUT, input=input, text=True)
        out = "\n".join(l for l in p.stdout.splitlines() if "conda" not in l)
        return p.returncode, out, time.time() - t0
    except subprocess.TimeoutExpired as e:
        out = e.stdout or ""
        if isinstance(out, bytes):
            out = out.decode("utf-8", "replace")
        return 124, out + "\nTIMEOUT", time.time() - t0


class Lock:
    def __init__(self, name="build"):
        self.path = os.path.join(COQ, f".{name}.lock")

    def __enter__(self):
        self.f = open(self.path, "w")
        fcntl.flock(self.f, fcntl.LOCK_EX)
        return self

    def __exit__(self, *a):
        fcntl.flock(self.f, fcntl.LOCK_UN)
        self.f.close()


# ---------------------------------------------------------------------------- generation

def regen(targets):
    """Regenerate Gen/<t>.v from /repo's working tree.  Returns {t: {"sha":…, "status":…}}"""
    sys.path.insert(0, os.path.join(ROOT, "tools"))
    import py2v
    res = {}
    os.makedirs(os.path.join(COQ, "theories", "Gen"), exist_ok=True)      # generated files are not committed
    for t in targets:
        out = os.path.join(COQ, "theories", "Gen", t + ".v")
        try:
            text, sha, notes = py2v.generate(t, REPO)
            old = open(out).read() if os.path.exists(out) else None
            if old != text:
                with open(out, "w") as f:
                    f.write(text)
            res[t] = {"status": "ok", "source_sha256": sha, "generated_sha256": hashlib.sha256(text.encode()).hexdigest(),
                      "notes": notes, "source": py2v.TARGETS[t]["file"]}
        except py2v.Unsupported as u:
            res[t] = {"status": f"UNSUPPORTED {py2v.TARGETS[t]['file']}:{u.line} {u.what}", "source": py2v.TARGETS[t]["file"]}
        except (SyntaxError, OSError) as e:
            res[t] = {"status": f"UNSUPPORTED {py2v.TARGETS[t]['file']}:0 {type(e).__name__}: {e}", "source": py2v.TARGETS[t]["file"]}
    return res


def all_gen_targets():
    sys.path.insert(0, os.path.join(ROOT, "tools"))
    import py2v
    return sorted(py2v.TARGETS)


# ---------------------------------------------------------------------------- build

def coq_files():
    fs = []
    for d, _, names in os.walk(os.path.join(COQ, "theories")):
        for n in sorted(names):
            if n.endswith(".v"):
                fs.append(os.path.relpath(os.path.join(d, n), COQ))
    return sorted(fs)


def write_coqproject():
    txt = "-Q theories DA\n" + "\n".join(coq_files()) + "\n"
    p = os.path.join(COQ, "_CoqProject")
    if not os.path.exists(p) or open(p).read() != txt:
        open(p, "w").write(txt)
        return True
    return False


def make(targets=None, timeout=1500, jobs=NPROC):
    """full .vo build (never -vos) of the given targets (relative .vo paths) or everything"""
    changed = write_coqproject()
    if changed or not os.path.exists(os.path.join(COQ, "Makefile")):
        rc, out, _ = sh("coq_makefile -f _CoqProject -o Makefile", cwd=COQ, timeout=120)
        if rc != 0:
            return False, out
    tg = " ".join(targets) if targets else "all"
    rc, out, dt = sh(f"make -j{jobs} {tg}", cwd=COQ, timeout=timeout)
    return rc == 0, out


def audit_sources(files=None):
    """forbidden constructs in the development (comments stripped)"""
    bad = []
    for f in (files or coq_files()):
        txt = open(os.path.join(COQ, f)).read()
        txt = strip_comments(txt)
        in_section = 0
        for i, line in enumerate(txt.splitlines(), 1):
            if re.match(r"\s*Section\b", line):
                in_section += 1
            if re.match(r"\s*End\b", line) and in_section:
                in_section -= 1
            for m in FORBIDDEN.finditer(line):
                w = m.group(0)
                if w in ("Variable", "Variables", "Hypothesis", "Hypotheses") and in_section:
                    continue
                bad.append(f"{f}:{i}: {w}")
    return bad


def closure_files(prop, extra=()):
    """.v files (relative to coq/) that Props/<prop>.v transitively requires inside the DA library"""
    seen, todo = [], [f"theories/Props/{prop}.v"] + [e[:-1] if e.endswith(".vo") else e for e in extra]
    while todo:
        f = todo.pop()
        if f in seen or not os.path.exists(os.path.join(COQ, f)):
            continue
        seen.append(f)
        txt = strip_comments(open(os.path.join(COQ, f)).read())
        for m in re.finditer(r"Require\s+(?:Import\s+|Export\s+)?(.*?)\.(?=\s|$)", txt, re.S):
            for name in m.group(1).split():
                if name.startswith("DA."):
                    name = name[3:]
                parts = name.split(".")
                if len(parts) == 2 and parts[0] in ("Base", "Gen", "Model", "Proofs", "Props"):
                    todo.append(f"theories/{parts[0]}/{parts[1]}.v")
    return sorted(seen)


def strip_comments(txt):
    out, depth, i = [], 0, 0
    instr = False
    while i < len(txt):
        c2 = txt[i:i + 2]
        if not instr and c2 == "(*":
            depth += 1; i += 2; continue
        if not instr and depth and c2 == "*)":
            depth -= 1; i += 2; continue
        if depth == 0:
            if txt[i] == '"':
                instr = not instr
            out.append(txt[i])
        elif txt[i] == "\n":
            out.append("\n")
        i += 1
    return "".join(out)


def check_props_file(prop):
    """(Re)compile Props/<prop>.v alone and parse theorem names and Print Assumptions output.
    Returns (ok, theorems:[name], assumptions:{name: 'closed'|[axioms]}, log)"""
    rel = f"theories/Props/{prop}.v"
    path = os.path.join(COQ, rel)
    if not os.path.exists(path):
        return False, [], {}, f"{rel} missing"
    txt = strip_comments(open(path).read())
    thms = re.findall(r"^\s*(?:Theorem|Corollary)\s+(\w+)", txt, re.M)
    printed = re.findall(r"^\s*Print Assumptions\s+(\w+)", txt, re.M)
    # every statement in a Props file must be closed by `exact`
    rc, out, _ = sh(f"coqc -Q theories DA {rel}", cwd=COQ, timeout=600)
    if rc != 0:
        return False, thms, {}, out
    # parse: blocks in order of the Print Assumptions commands
    blocks = re.split(r"(?=Closed under the global context|Axioms:)", out)
    blocks = [b for b in blocks if b.startswith("Closed") or b.startswith("Axioms:")]
    ass = {}
    for name, b in zip(printed, blocks):
        if b.startswith("Closed"):
            ass[name] = "closed"
        else:
            ass[name] = re.findall(r"^(\S+)\s*:", b[len("Axioms:"):], re.M)
    missing = [t for t in thms if t not in ass]
    if missing or len(blocks) != len(printed):
        return False, thms, ass, out + f"\nPrint Assumptions missing for {missing}"
    return True, thms, ass, out


# ---------------------------------------------------------------------------- Coq literals

def cstr(s):
    """Coq string literal for an arbitrary Python str (byte list when not plain ASCII)"""
    if all(32 <= ord(c) < 127 and c != '"' for c in s):
        return '"%s"' % s
    return "(bs [%s])" % ";".join(str(b) + "%N" for b in s.encode("utf-8", "surrogatepass"))


def clist(items):
    return "[" + "; ".join(items) + "]"


def cz(n):
    return f"({n})%Z"


def cbool(b):
    return "true" if b else "false"


def copt(x):
    return "None" if x is None else f"(Some {x})"


def run_case_files(name, preamble, case_terms, checker, per_file=300, timeout=900):
    """Write cases/<name>_<k>.v, each holding ≤ per_file cases, compile them in parallel, and return the list
    of failing global indices.  `checker` is the Coq function name applied to `cases : list _`, which must
    return the list of failing local indices (list nat).  Output parsed: a line `FAIL <k> [i; j]`."""
    cdir = os.path.join(COQ, "cases")
    os.makedirs(cdir, exist_ok=True)
    files = []
    for k in range(0, max(1, (len(case_terms) + per_file - 1) // per_file)):
        chunk = case_terms[k * per_file:(k + 1) * per_file]
        fn = os.path.join(cdir, f"{name}_p{os.getpid()}_{k}.v")        # per-process names: two runs never share a case file
        with open(fn, "w") as f:
            f.write(preamble + "\n")
            f.write("Definition cases := [\n" + ";\n".join(chunk) + "\n].\n")
            f.write(f"Definition failing := {checker} cases.\n")
            f.write("Eval vm_compute in failing.\nEval vm_compute in List.length cases.\n")
        files.append(fn)
    t0 = time.time()
    procs = []
    results = [None] * len(files)
    active = []

    def launch(i):
        p = subprocess.Popen(["coqc", "-Q", "theories", "DA", "-Q", "cases", "DAcases", os.path.relpath(files[i], COQ)],
                             cwd=COQ, stdout=subprocess.PIPE, stderr=subprocess.STDOUT, text=True, env=ENV)
        return p
    pending = list(range(len(files)))
    running = {}
    while pending or running:
        while pending and len(running) < NPROC:
            i = pending.pop(0)
            running[i] = launch(i)
        for i, p in list(running.items()):
            try:
                out, _ = p.communicate(timeout=0.2)
                results[i] = (p.returncode, out)
                del running[i]
            except subprocess.TimeoutExpired:
                if time.time() - t0 > timeout:
                    p.kill()
                    results[i] = (124, "TIMEOUT")
                    del running[i]
    failing, errors, n_checked = [], [], 0
    for k, (rc, out) in enumerate(results):
        out = "\n".join(l for l in out.splitlines() if "conda" not in l)
        if rc != 0:
            errors.append(f"{os.path.basename(files[k])}: rc={rc}\n{out[-2000:]}")
            continue
        flat = " ".join(out.split())
        m = re.search(r"= (\[[^\]]*\]|nil)\s*: list nat", flat)
        m2 = re.search(r"= (\d+)(?:%nat)?\s*: nat", flat)
        if not m or not m2:
            errors.append(f"{os.path.basename(files[k])}: unparsable output\n{out[-2000:]}")
            continue
        n_checked += int(m2.group(1))
        idx = re.findall(r"\d+", m.group(1))
        failing += [k * per_file + int(i) for i in idx]
    for fn in files:
        for ext in (".v", ".vo", ".vok", ".vos", ".glob"):
            try:
                os.remove(fn[:-2] + ext)
            except OSError:
                pass
        try:
            os.remove(os.path.join(os.path.dirname(fn), "." + os.path.basename(fn)[:-2] + ".aux"))
        except OSError:
            pass
    return failing, errors, n_checked


# ---------------------------------------------------------------------------- known findings, evidence, reporting

def load_known():
    p = os.path.join(ROOT, "known_findings.json")
    k = json.load(open(p)) if os.path.exists(p) else {"findings": [], "fixed": []}
    d = os.path.join(ROOT, "known_findings.d")          # per-property fragments (committed, read-only at run time)
    if os.path.isdir(d):
        for n in sorted(os.listdir(d)):
            if n.endswith(".json"):
                frag = json.load(open(os.path.join(d, n)))
                k["findings"] += frag.get("findings", [])
                k["fixed"] += frag.get("fixed", [])
    return k


class Check:
    """One run of one property's check."""

    def __init__(self, prop, tier, seed):
        self.prop, self.tier, self.seed = prop, tier, seed
        self.t0 = time.time()
        self.rng = random.Random(seed)
        self.violations = []        # (what, replay dict, found_input: bool)
        self.known_hits = {}        # finding id -> what
        self.cov = {"evaluations": 0, "distinct_nontrivial": 0, "rule": "", "samples": [], "obligations": 0,
                    "discharged": 0, "checker_cmd": "", "trusted_base": [], "axioms": {}, "generated_files": {},
                    "distribution": {}, "correspondence": {}, "oracle": {}, "known_findings_replayed": []}
        self.assumptions = []
        self.known = [f for f in load_known()["findings"] if f["property"] == prop]
        self.distinct = set()
        import glob
        for old in glob.glob(os.path.join(ROOT, "replays", f"{prop}-*.json")):
            try:
                os.remove(old)
            except OSError:
                pass

    # --- proof side
    def prove(self, gen_targets=(), extra_vo=()):
        """regenerate, build closure of Props/<prop>.vo, audit.  Returns True when every obligation is discharged."""
        ok_all = True
        with Lock():
            if gen_targets:
                g = regen(gen_targets)
                self.cov["generated_files"] = g
                for t, r in g.items():
                    if r["status"] != "ok":
                        ok_all = False
                        self.proof_break(f"translator: {r['status']}", r["status"])
            if ok_all:
                ok, log = make([f"theories/Props/{self.prop}.vo"] + list(extra_vo))
                if not ok:
                    ok_all = False
                    err = extract_error(log)
                    self.proof_break(f"Coq build of the closure of Props/{self.prop}.v failed: {err[:300]}", err)
            bad = audit_sources(closure_files(self.prop, extra_vo))       # the files this property's theorems depend on
            if bad:
                ok_all = False
                self.proof_break("forbidden construct in development: " + "; ".join(bad[:5]), "\n".join(bad))
            if ok_all:
                ok, thms, ass, log = check_props_file(self.prop)
                self.cov["obligations"] = len(thms)
                self.cov["theorems"] = thms
                if not ok:
                    ok_all = False
                    self.proof_break(f"Props/{self.prop}.v does not check: {extract_error(log)[:300]}", log[-3000:])
                else:
                    n = 0
                    for t in thms:
                        a = ass.get(t)
                        self.cov["axioms"][t] = a
                        if a == "closed" or (isinstance(a, list) and all(x in ALLOWED_AXIOMS for x in a)):
                            n += 1
                        else:
                            ok_all = False
                            self.proof_break(f"theorem {t} depends on unlisted axioms {a}", str(a))
                    self.cov["discharged"] = n
                if ok_all and self.tier == "thorough":
                    self.coqchk()
            else:
                # count obligations from the source text even when the build broke
                p = os.path.join(COQ, f"theories/Props/{self.prop}.v")
                if os.path.exists(p):
                    thms = re.findall(r"^\s*(?:Theorem|Corollary)\s+(\w+)", strip_comments(open(p).read()), re.M)
                    self.cov["obligations"] = len(thms)
                    self.cov["theorems"] = thms
        self.cov["checker_cmd"] = (f"cd /verif/coq && coq_makefile -f _CoqProject -o Makefile && make theories/Props/{self.prop}.vo "
                                   f"&& coqc -Q theories DA theories/Props/{self.prop}.v   (Coq 8.16.1 kernel; Print Assumptions parsed)")
        self.proof_ok = ok_all
        return ok_all

    def coqchk(self):
        """thorough tier: re-check the compiled closure of Props/<prop>.vo with Coq's independent checker and record the axioms,
        type-in-type / unsafe-fixpoint / assumed-positivity lists it prints (all must be <none>).  A checker that does not finish
        (time, memory) is recorded as such and is not a break: the kernel has already accepted the files."""
        try:
            r = subprocess.run(["timeout", "1500", "coqchk", "-silent", "-o", "-Q", "theories", "DA", f"DA.Props.{self.prop}"],
                               cwd=COQ, capture_output=True, text=True)
        except Exception as e:          # noqa
            self.cov["coqchk"] = {"status": f"not run: {e}"}
            return
        out = r.stdout + r.stderr
        summ = {}
        for key, lab in (("axioms", "Axioms"), ("type_in_type", "Constants/Inductives relying on type-in-type"),
                         ("unsafe_fixpoints", "Constants/Inductives relying on unsafe (co)fixpoints"), ("assumed_positivity", "Inductives whose positivity is assumed")):
            m = re.search(r"\* " + re.escape(lab) + r":(.*?)(?=\n\s*\n\* |\Z)", out, re.S)
            summ[key] = " ".join(m.group(1).split()) if m else None
        self.cov["coqchk"] = {"cmd": f"coqchk -silent -o -Q theories DA DA.Props.{self.prop}", "exit": r.returncode, **summ}
        if r.returncode in (124, 137) or (r.returncode != 0 and "CONTEXT SUMMARY" not in out and re.search(r"memory|Stack overflow|Killed", out)):
            self.cov["coqchk"]["status"] = "did not finish (time/memory); not a break"
            return
        if r.returncode != 0:
            self.proof_break(f"coqchk rejects the compiled closure of Props/{self.prop}.vo", out[-2000:])
        elif any(v not in ("<none>",) for v in summ.values()):
            self.proof_break(f"coqchk reports assumptions for Props/{self.prop}.vo: {summ}", out[-2000:])

    def proof_break(self, what, detail):
        self.pending_breaks = getattr(self, "pending_breaks", [])
        self.pending_breaks.append({"kind": "proof-break", "what": what, "detail": detail})

    def corr_break(self, what, detail):
        self.pending_breaks = getattr(self, "pending_breaks", [])
        self.pending_breaks.append({"kind": "model-disagreement", "what": what, "detail": detail})

    # --- counting
    def count(self, key, nontrivial=True):
        self.cov["evaluations"] += 1
        if nontrivial:
            h = hashlib.md5(repr(key).encode()).hexdigest()
            self.distinct.add(h)

    def sample(self, s, maxn=6):
        if len(self.cov["samples"]) < maxn:
            self.cov["samples"].append(s)

    def dist(self, key, n=1):
        d = self.cov["distribution"]
        d[key] = d.get(key, 0) + n

    # --- violations
    def impl_violation(self, what, replay, sig=None):
        """A concrete input on which the implementation fails the property.  `sig` is a dict describing the case
        for matching against known findings."""
        for f in self.known:
            if match_sig(f.get("signature", {}), sig or {}):
                self.known_hits.setdefault(f["id"], f["what"])
                return False
        self.violations.append((what, replay, True))
        return True

    def finish(self):
        """resolve breaks without a failing input, write evidence, print lines, return exit code"""
        breaks = getattr(self, "pending_breaks", [])
        if breaks and not any(v[2] for v in self.violations):
            b = breaks[0]
            self.violations.append((b["what"], {"kind": b["kind"], "theorem_or_correspondence": b["what"], "detail": b["detail"],
                                                "all_breaks": [x["what"] for x in breaks]}, False))
        self.cov["distinct_nontrivial"] = len(self.distinct)
        self.cov["breaks"] = [{"kind": b["kind"], "what": b["what"], "detail": str(b["detail"])[:1500]} for b in breaks[:5]]
        os.makedirs(os.path.join(ROOT, "replays"), exist_ok=True)
        lines = []
        for fid, what in sorted(self.known_hits.items()):
            lines.append(f"KNOWN-FINDING: property={self.prop} {fid}: {what}")
        seen = set()
        nviol = 0
        for what, replay, found in self.violations:
            body = dict(replay)
            body.update({"property": self.prop, "what": what, "seed": self.seed, "tier": self.tier})
            h = hashlib.md5(json.dumps(body, sort_keys=True, default=str).encode()).hexdigest()[:10]
            if h in seen:
                continue
            seen.add(h)
            nviol += 1
            if nviol > 5:
                continue
            path = os.path.join(ROOT, "replays", f"{self.prop}-{h}.json")
            json.dump(body, open(path, "w"), indent=1, default=str)
            lines.append(f"VIOLATION property={self.prop} replay={path}" + ("" if found else " no-failing-input-found"))
        self.cov["known_findings_replayed"] = sorted(self.known_hits)
        ev = {"property_id": self.prop, "tier": self.tier, "seed": self.seed, "level": "proof", "coverage": self.cov,
              "assumptions": self.assumptions, "wall_s": round(time.time() - self.t0, 2), "violations": nviol}
        evdir = os.environ.get("VERIF_EVIDENCE_DIR") or os.path.join(ROOT, "evidence")     # (runs against a scratch tree keep their evidence apart)
        if not re.match(r"^C\d\d$", self.prop):        # an auxiliary engine run on its own (development only): not a property's evidence
            evdir = os.path.join(evdir, "aux")
        os.makedirs(evdir, exist_ok=True)
        json.dump(ev, open(os.path.join(evdir, f"{self.prop}.json"), "w"), indent=1, default=str)
        for l in lines:
            print(l)
        print(f"[{self.prop}] tier={self.tier} seed={self.seed} obligations={self.cov['obligations']} discharged={self.cov['discharged']} "
              f"evaluations={self.cov['evaluations']} distinct={self.cov['distinct_nontrivial']} violations={nviol} "
              f"known={len(self.known_hits)} wall={ev['wall_s']}s")
        return 1 if nviol else 0


def match_sig(sig, case):
    """every key of the finding's signature must be matched by the case description"""
    if not sig:
        return False
    for k, v in sig.items():
        cv = case.get(k)
        if isinstance(v, list):
            if cv not in v:
                return False
        elif cv != v:
            return False
    return True


def extract_error(log):
    m = re.search(r'(File "[^"]+", line \d+, characters [\d-]+:\s*\n(?:.*\n?){1,12})', log)
    return m.group(1).strip() if m else log[-1500:]


def shrink_list(items, fails, max_steps=400):
    """greedy delta debugging: smallest sub-list (by removing chunks/elements) on which `fails` still holds"""
    items = list(items)
    n = 2
    steps = 0
    while len(items) >= 1 and steps < max_steps:
        chunk = max(1, len(items) // n)
        reduced = False
        for i in range(0, len(items), chunk):
            cand = items[:i] + items[i + chunk:]
            steps += 1
            try:
                if fails(cand):
                    items = cand
                    n = max(n - 1, 2)
                    reduced = True
                    break
            except Exception:
                pass
        if not reduced:
            if chunk == 1:
                break
            n = min(n * 2, len(items))
    return items
