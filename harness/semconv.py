"""Convert real data_algebra operator DAGs, tables and results into Coq terms of Model/Sem.v, and run the
Sem-vs-executor correspondence."""
import math
from fractions import Fraction
import numpy as np
import pandas as pd
import lib
from lib import clist, cstr, cbool

SUPPORTED_SCALAR = {"+", "-", "*", "abs", "==", "!=", "<", "<=", ">", ">=", "and", "or", "is_null", "is_bad", "coalesce", "if_else",
                    "maximum", "minimum", "fmax", "fmin"}
SUPPORTED_AGG = {"sum", "mean", "min", "max", "count", "size", "_size"}
SUPPORTED_WIN = {"cumsum", "cummax", "cummin", "_row_number", "shift",
                 # added for C27 (Model/Sem.v win_fn): Pandas conventions; see harness/props/C27.py for which backend is compared on which
                 "cumprod", "cumcount", "_count", "rank", "first", "last", "ffill", "bfill", "median", "nunique", "var"} | SUPPORTED_AGG


class Unsupported(Exception):
    pass


def cval(v):
    if v is None or v is pd.NA or v is pd.NaT:
        return "VNull"
    if isinstance(v, (bool, np.bool_)):
        return "(VBool %s)" % cbool(bool(v))
    if isinstance(v, (int, np.integer)):
        return "(Q2 (%d) 1)" % int(v)
    if isinstance(v, (float, np.floating)):
        if math.isnan(v):
            return "VNull"
        if math.isinf(v):
            raise Unsupported("infinite value")
        f = Fraction(float(v))
        return "(Q2 (%d) %d)" % (f.numerator, f.denominator)
    if isinstance(v, str):
        return "(S %s)" % cstr(v)
    raise Unsupported("value of type %s" % type(v).__name__)


def cexpr(t, kind="scalar"):
    import data_algebra.expr_rep as er
    if isinstance(t, er.ColumnReference):
        return "(ECol %s)" % cstr(t.column_name)
    if isinstance(t, er.Value):
        return "(EConst %s)" % cval(t.value)
    if isinstance(t, er.Expression):
        if kind == "scalar" and t.op not in SUPPORTED_SCALAR:
            raise Unsupported("scalar op " + t.op)
        if kind == "agg" and t.op not in SUPPORTED_AGG:
            raise Unsupported("aggregate " + t.op)
        if kind == "win" and t.op not in SUPPORTED_WIN:
            raise Unsupported("window fn " + t.op)
        args = [cexpr(a, "scalar") for a in t.args]
        if t.op in ("+", "*") and len(args) > 2:          # the parser folds `a + b + c` into ONE n-ary node: same value as the left fold
            acc = args[0]
            for a in args[1:]:
                acc = "(EOp %s %s)" % (cstr(t.op), clist([acc, a]))
            return acc
        return "(EOp %s %s)" % (cstr(t.op), clist(args))
    raise Unsupported("term " + type(t).__name__)


def sl(xs):
    return clist([cstr(x) for x in xs])


def cop(node, memo=None):
    """real operator DAG -> Coq `op` term"""
    name = node.node_name
    if name == "TableDescription":
        return "(OTable %s %s)" % (cstr(node.table_name), sl(node.column_names))
    src = [cop(s) for s in node.sources]
    if name == "ExtendNode":
        wd = bool(node.windowed_situation)
        ops = clist(["(%s, %s)" % (cstr(k), cexpr(v, "win" if wd else "scalar")) for k, v in node.ops.items()])
        part = node.partition_by if isinstance(node.partition_by, list) else []
        return "(OExtend %s %s %s (mkwin %s %s %s))" % (src[0], ops, cbool(wd), sl(part), sl(node.order_by), sl(node.reverse))
    if name == "ProjectNode":
        ops = clist(["(%s, %s)" % (cstr(k), cexpr(v, "agg")) for k, v in node.ops.items()])
        return "(OProject %s %s %s)" % (src[0], ops, sl(node.group_by))
    if name == "SelectRowsNode":
        return "(OSelectRows %s %s)" % (src[0], cexpr(node.expr))
    if name == "SelectColumnsNode":
        return "(OSelectCols %s %s)" % (src[0], sl(node.column_selection))
    if name == "DropColumnsNode":
        return "(ODropCols %s %s)" % (src[0], sl(node.column_deletions))
    if name == "RenameColumnsNode":
        return "(ORename %s %s)" % (src[0], clist(["(%s, %s)" % (cstr(n), cstr(o)) for n, o in node.column_remapping.items()]))
    if name == "MapColumnsNode":
        return "(OMapCols %s %s %s)" % (src[0], clist(["(%s, %s)" % (cstr(n), cstr(o)) for o, n in node.column_remapping.items()]), sl(node.column_deletions or []))
    if name == "OrderRowsNode":
        lim = "None" if node.limit is None else "(Some %d%%nat)" % node.limit
        return "(OOrder %s %s %s %s)" % (src[0], sl(node.order_columns), sl(node.reverse), lim)
    if name == "NaturalJoinNode":
        jt = {"INNER": "JInner", "LEFT": "JLeft", "RIGHT": "JRight", "FULL": "JFull", "OUTER": "JFull", "CROSS": "JInner"}.get(node.jointype)
        if jt is None or (node.jointype == "CROSS" and node.on_a):
            raise Unsupported("join type " + node.jointype)
        return "(OJoin %s %s %s %s %s)" % (src[0], src[1], sl(node.on_a), sl(node.on_b), jt)
    if name == "ConcatRowsNode":
        idc = "None" if node.id_column is None else "(Some %s)" % cstr(node.id_column)
        return "(OConcat %s %s %s %s %s)" % (src[0], src[1], idc, cstr(node.a_name), cstr(node.b_name))
    raise Unsupported("node " + name)


def ctable(df):
    cols = list(df.columns)
    vals = df.to_numpy(dtype=object) if len(cols) else []
    rows = [clist([cval(x) for x in r]) for r in vals]
    return "(mktable %s %s)" % (sl(cols), clist(rows))


def cenv(frames):
    return clist(["(%s, %s)" % (cstr(k), ctable(v)) for k, v in frames.items()])


def case_term(ops, frames, result, *, ordered=False, colorder=False, flavor="fl_pandas"):
    """flavor: fl_pandas | fl_sqlite | fl_postgres | fl_polars | fl_spec  (conventions the model is evaluated under)"""
    obs = "None" if result is None else "(Some %s)" % ctable(result)
    return "mkcase %s %s %s %s %s %s" % (cop(ops), cenv(frames), obs, cbool(ordered), cbool(colorder), flavor)


PREAMBLE = ("From Coq Require Import List Bool ZArith QArith String.\nImport ListNotations.\nOpen Scope string_scope.\n"
            "From DA Require Import Base.PyRT Base.Cases Base.Val Model.Sem Model.SemCases.\nOpen Scope list_scope.\n")


def run_sem_cases(name, terms, per_file=60):
    return lib.run_case_files(name, PREAMBLE, terms, "check_cases", per_file=per_file, timeout=1500)
