"""Shared pipeline generator / evaluator for the executor- and builder-level properties.

A pipeline is a JSON-able *script*: a nested dict
   {"op": "table", "name": "d1"}
   {"op": "extend", "src": <script>, "ops": {"x": "a + 1"}, "partition_by": [...], "order_by": [...], "reverse": [...]}
   {"op": "project", "src": .., "ops": {...}, "group_by": [...]}
   {"op": "select_rows", "src": .., "expr": "a > 1"}
   {"op": "select_columns"|"drop_columns", "src": .., "columns": [...]}
   {"op": "rename_columns"|"map_columns", "src": .., "map": {...}}
   {"op": "order_rows", "src": .., "columns": [...], "reverse": [...], "limit": n|None}
   {"op": "natural_join", "src": .., "b": <script>, "on": [...]|[[a,b],..], "jointype": "LEFT"}
   {"op": "concat_rows", "src": .., "b": <script>, "id_column": str|None, "a_name": .., "b_name": ..}
built through the public builder API only.  Every random choice comes from the rng handed in."""
import math, json
import numpy as np
import pandas as pd

import data_algebra
from data_algebra.data_ops import TableDescription, descr
import data_algebra.SQLite

# ------------------------------------------------------------------------------------------- tables

TYPES = ("int", "float", "str", "bool")


def gen_value(rng, ty, null_rate):
    if rng.random() < null_rate:
        return None
    if ty == "int":
        return rng.randint(-3, 6)
    if ty == "float":
        return rng.randint(-12, 20) / 4.0       # dyadic: exact in binary floating point
    if ty == "str":
        return rng.choice(["a", "b", "c", "dd", "e f"])
    return rng.random() < 0.5


def make_frame(colspec, rows):
    """colspec: [(name, type)], rows: list of lists -> DataFrame with stable dtypes"""
    data = {}
    for j, (c, ty) in enumerate(colspec):
        vals = [r[j] for r in rows]
        if ty == "int":
            if any(v is None for v in vals):
                data[c] = pd.array(vals, dtype="float64") if False else pd.Series([np.nan if v is None else float(v) for v in vals], dtype="float64")
            else:
                data[c] = pd.Series(vals, dtype="int64")
        elif ty == "float":
            data[c] = pd.Series([np.nan if v is None else float(v) for v in vals], dtype="float64")
        elif ty == "str":
            data[c] = pd.Series(vals, dtype=object)
        else:
            if any(v is None for v in vals):
                data[c] = pd.Series(vals, dtype=object)
            else:
                data[c] = pd.Series(vals, dtype=bool)
    return pd.DataFrame(data, columns=[c for c, _ in colspec])


def gen_table(rng, name, *, ncols=None, nrows=None, null_rate=0.15, types=("int", "float", "str"), colnames=None, unique_col=None):
    ncols = ncols or rng.randint(2, 5)
    nrows = rng.choice([0, 1, 2, 3, 4, 5, 6, 8]) if nrows is None else nrows
    names = colnames or ["a", "b", "c", "d", "e", "g", "h"]
    spec = []
    for j in range(ncols):
        ty = rng.choice(types)
        spec.append((names[j], ty))
    rows = []
    for i in range(nrows):
        if rows and rng.random() < 0.25:
            rows.append(list(rng.choice(rows)))          # duplicate rows
        else:
            rows.append([gen_value(rng, ty, null_rate) for _, ty in spec])
    if unique_col:
        spec.append((unique_col, "int"))
        perm = list(range(nrows))
        rng.shuffle(perm)
        for i, r in enumerate(rows):
            r.append(perm[i])
    return {"name": name, "spec": spec, "rows": rows}


def table_frame(t):
    return make_frame(t["spec"], t["rows"])


# ------------------------------------------------------------------------------------------- expressions

def cols_of(colty, ty):
    return [c for c, t in colty.items() if t == ty or (ty == "num" and t in ("int", "float"))]


def has_col(text, colty):
    import re
    return any(t in colty for t in re.findall(r"[A-Za-z_][A-Za-z_0-9]*", text))


def gen_num_expr(rng, colty, depth=2, *, vocab="both"):
    nums = cols_of(colty, "num")
    if depth <= 0 or rng.random() < 0.3 or not nums:
        if nums and rng.random() < 0.8:
            return rng.choice(nums)
        return str(rng.choice([0, 1, 2, 3, 0.5, 2.5]))
    r = rng.random()
    a = gen_num_expr(rng, colty, depth - 1, vocab=vocab)
    if r < 0.5:
        b = gen_num_expr(rng, colty, depth - 1, vocab=vocab)
        op = rng.choice(["+", "-", "*"])
        return f"({a} {op} {b})"
    if not has_col(a, colty):          # methods need a column-valued receiver on Pandas
        a = rng.choice(nums)
    if r < 0.6:
        return f"(-{a})" if not a.lstrip("(").startswith("-") else a
    if r < 0.7:
        return f"({a}).abs()"
    if r < 0.8:
        b = gen_num_expr(rng, colty, depth - 1, vocab=vocab)
        c = gen_bool_expr(rng, colty, depth - 1)
        return f"({c}).if_else({a}, {b})"
    if r < 0.9:
        return f"({a}).coalesce({rng.choice([0, 1, -1])})"
    b = gen_num_expr(rng, colty, depth - 1, vocab=vocab)
    return f"({a}).{rng.choice(['maximum', 'minimum'])}({b})"


def gen_bool_expr(rng, colty, depth=1):
    nums = cols_of(colty, "num")
    strs = cols_of(colty, "str")
    r = rng.random()
    if depth > 0 and r < 0.25:
        a, b = gen_bool_expr(rng, colty, depth - 1), gen_bool_expr(rng, colty, depth - 1)
        return f"({a}) {rng.choice(['and', 'or'])} ({b})"
    if strs and (r < 0.45 or not nums):
        return f"{rng.choice(strs)} {rng.choice(['==', '!='])} '{rng.choice(['a', 'b', 'c'])}'"
    if not nums:
        return f"{rng.choice(sorted(colty))}.is_null()"
    a = rng.choice(nums)
    if r < 0.6:
        return f"{a}.is_null()"
    b = rng.choice(nums) if rng.random() < 0.4 else str(rng.choice([0, 1, 2, 2.5]))
    return f"{a} {rng.choice(['<', '<=', '>', '>=', '==', '!='])} {b}"


AGGS = ["sum", "mean", "min", "max", "count", "size"]
WINDOW_ORDERED = ["cumsum", "cummax", "cummin", "shift", "_row_number"]
WINDOW_UNORDERED = ["sum", "mean", "min", "max", "count", "size"]


# ------------------------------------------------------------------------------------------- script generation

class Gen:
    """random pipeline scripts over given tables"""

    def __init__(self, rng, tables, *, features=None, null_keys=True, total_orders=True):
        self.rng = rng
        self.tables = {t["name"]: t for t in tables}
        self.features = set(features or ["extend", "wextend", "project", "select_rows", "select_columns", "drop_columns", "rename_columns",
                                         "map_columns", "order_rows", "natural_join", "concat_rows"])
        self.total_orders = total_orders
        self.fresh = 0

    def newcol(self, colty):
        while True:
            self.fresh += 1
            c = self.rng.choice(["x", "y", "z", "w", "v", "u"]) + (str(self.fresh) if self.rng.random() < 0.5 else "")
            if c not in colty:
                return c

    def unique_cols(self, script):
        """columns of the script's result that are known to hold pairwise distinct, non-null values (so that an order
        containing one of them is total).  None = nothing is known about the source (no data attached: no constraint)."""
        memo = self.__dict__.setdefault("_uniq", {})
        key = id(script)
        if key in memo:
            return memo[key][1]
        op = script["op"]
        if op == "table":
            t = self.tables.get(script["name"])
            if t is None:
                u = None
            else:
                u = set()
                for j, (c, _) in enumerate(t["spec"]):
                    vals = [r[j] for r in t["rows"]]
                    if all(v is not None for v in vals) and len(set(vals)) == len(vals):
                        u.add(c)
        else:
            u = self.unique_cols(script["src"])
            if u is not None:
                if op == "extend":
                    u = u - set(script["ops"])
                elif op == "project":
                    gb = script.get("group_by") or []
                    u = {gb[0]} if len(gb) == 1 and gb[0] in u else set()
                elif op == "select_columns":
                    u = u & set(script["columns"])
                elif op == "drop_columns":
                    u = u - set(script["columns"])
                elif op == "rename_columns":          # map: new -> old
                    olds = set(script["map"].values())
                    u = {c for c in u if c not in olds} | {n for n, o in script["map"].items() if o in u}
                elif op == "map_columns":             # map: old -> new
                    u = {script["map"].get(c, c) for c in u}
                elif op in ("select_rows", "order_rows"):
                    u = set(u)
                else:                                  # natural_join, concat_rows: rows are multiplied / repeated
                    u = set()
        memo[key] = (script, u)                        # keep the script alive so that id() stays unambiguous
        return u

    def totalise(self, script, order, keys, part=()):
        """extend the sort keys by a unique column when they (with the partition columns) do not contain one;
        returns False when no such column exists"""
        u = self.unique_cols(script)
        if u is None or (set(keys) | set(part)) & u:
            return True
        cand = [c for c in order if c in u and c not in part and c not in keys]
        if not cand:
            return False
        keys.append(cand[0])
        return True

    def table(self, name=None):
        name = name or self.rng.choice(sorted(self.tables))
        t = self.tables[name]
        return {"op": "table", "name": name}, dict(t["spec"]), [c for c, _ in t["spec"]]

    def step(self, script, colty, order):
        """one random step on top of script; returns (script', colty', order') or None if the draw does not apply"""
        rng = self.rng
        kind = rng.choice(sorted(self.features))
        nums, strs = cols_of(colty, "num"), cols_of(colty, "str")
        if kind == "extend":
            ops = {}
            n = rng.randint(1, 3)
            produced, used = set(), set()
            for _ in range(n):
                k = rng.choice(order) if rng.random() < 0.3 else self.newcol({**colty, **{p: 1 for p in produced}})
                if k in produced:
                    continue
                if rng.random() < 0.75:
                    e = gen_num_expr(rng, colty, 2)
                    ty = "float"
                elif strs and rng.random() < 0.5:
                    e = rng.choice(strs)
                    ty = "str"
                else:
                    e = "(" + gen_bool_expr(rng, colty, 1) + ").if_else(1, 0)"
                    ty = "int"
                ops[k] = (e, ty)
                produced.add(k)
            # rule: a column may not be both produced and used (by another expression) in one extend
            import re
            for k, (e, ty) in list(ops.items()):
                toks = set(re.findall(r"[A-Za-z_][A-Za-z_0-9]*", e))
                for k2 in ops:
                    if k2 != k and k2 in toks:
                        del ops[k]
                        break
            if not ops:
                return None
            colty2, order2 = dict(colty), list(order)
            for k, (e, ty) in ops.items():
                colty2[k] = ty
                if k not in order2:
                    order2.append(k)
            return {"op": "extend", "src": script, "ops": {k: e for k, (e, _) in ops.items()}}, colty2, order2
        if kind == "wextend":
            if not nums:
                return None
            part = rng.sample(order, rng.randint(0, min(2, len(order))))
            ordered = rng.random() < 0.6
            rest = [c for c in order if c not in part]
            if ordered:
                if not rest:
                    return None
                ob = rng.sample(rest, rng.randint(1, min(2, len(rest))))
                if self.total_orders and not self.totalise(script, order, ob, part):
                    return None                     # ties: an order-sensitive window function would be under-determined
                rev = [c for c in ob if rng.random() < 0.3]
                fns = WINDOW_ORDERED
            else:
                ob, rev, fns = [], [], WINDOW_UNORDERED
            avail = [c for c in nums if c not in part and c not in ob] or nums
            ops = {}
            for _ in range(rng.randint(1, 2)):
                fn = rng.choice(fns)
                k = self.newcol({**colty, **ops})
                if fn == "_row_number":
                    ops[k] = "_row_number()"
                elif fn == "size":
                    ops[k] = "_size()"
                elif fn == "shift":
                    ops[k] = f"{rng.choice(avail)}.shift({rng.choice(['', '1', '2', '-1'])})"
                else:
                    ops[k] = f"{rng.choice(avail)}.{fn}()"
            colty2, order2 = dict(colty), list(order)
            for k in ops:
                colty2[k] = "float"
                order2.append(k)
            st = {"op": "extend", "src": script, "ops": ops, "partition_by": part, "order_by": ob, "reverse": rev}
            if not part and not ob and any(e.endswith("_size()") for e in ops.values()):
                st["partition_by"] = 1          # `_size()` alone does not imply a window: ask for the whole-table window explicitly
            return st, colty2, order2
        if kind == "project":
            gb = rng.sample(order, rng.randint(0, min(2, len(order))))
            ops = {}
            vals = [c for c in nums if c not in gb]
            for _ in range(rng.randint(0 if gb else 1, 2)):
                fn = rng.choice(AGGS)
                k = self.newcol({**colty, **ops})
                if fn == "size" or not vals:
                    ops[k] = "_size()"
                else:
                    ops[k] = f"{rng.choice(vals)}.{fn}()"
            if not ops and not gb:
                return None
            colty2 = {c: colty[c] for c in gb}
            for k in ops:
                colty2[k] = "float"
            return {"op": "project", "src": script, "ops": ops, "group_by": gb}, colty2, gb + list(ops)
        if kind == "select_rows":
            return {"op": "select_rows", "src": script, "expr": gen_bool_expr(rng, colty, 1)}, colty, order
        if kind == "select_columns":
            cs = rng.sample(order, rng.randint(1, len(order)))
            return {"op": "select_columns", "src": script, "columns": cs}, {c: colty[c] for c in cs}, cs
        if kind == "drop_columns":
            if len(order) < 2:
                return None
            cs = rng.sample(order, rng.randint(1, len(order) - 1))
            keep = [c for c in order if c not in cs]
            return {"op": "drop_columns", "src": script, "columns": cs}, {c: colty[c] for c in keep}, keep
        if kind in ("rename_columns", "map_columns"):
            olds = rng.sample(order, rng.randint(1, min(2, len(order))))
            m = {}
            taken = set(order)
            for o in olds:
                n = self.newcol({c: 1 for c in taken})
                taken.add(n)
                m[o] = n
            if rng.random() < 0.2 and len(olds) == 2:      # swap
                m = {olds[0]: olds[1], olds[1]: olds[0]}
            order2 = [m.get(c, c) for c in order]
            colty2 = {m.get(c, c): colty[c] for c in order}
            if kind == "map_columns":
                return {"op": "map_columns", "src": script, "map": m}, colty2, order2
            return {"op": "rename_columns", "src": script, "map": {v: k for k, v in m.items()}}, colty2, order2
        if kind == "order_rows":
            cs = rng.sample(order, rng.randint(1, min(3, len(order))))
            total = (not self.total_orders) or self.totalise(script, order, cs)
            rev = [c for c in cs if rng.random() < 0.3]
            lim = rng.choice([None, None, 1, 2, 3, 5])
            if not total:
                lim = None                          # ties: which rows a limit keeps would be under-determined
            return {"op": "order_rows", "src": script, "columns": cs, "reverse": rev, "limit": lim}, colty, order
        if kind == "natural_join":
            b, bty, border = self.pipeline(rng.randint(0, 1))
            common = [c for c in order if c in bty and colty[c] == bty[c]]
            if not common:
                return None
            on = rng.sample(common, rng.randint(1, min(2, len(common))))
            # non-key common columns are allowed (coalesced), but must have equal types
            for c in order:
                if c in bty and colty[c] != bty[c]:
                    return None
            jt = rng.choice(["INNER", "LEFT", "RIGHT", "FULL"])
            colty2, order2 = dict(colty), list(order)
            for c in border:
                if c not in colty2:
                    colty2[c] = bty[c]
                    order2.append(c)
            return {"op": "natural_join", "src": script, "b": b, "on": on, "jointype": jt}, colty2, order2
        if kind == "concat_rows":
            # second operand must have the same columns: derive it from the same prefix by a row filter or reuse (DAG sharing)
            if rng.random() < 0.5:
                b = script
            else:
                b = {"op": "select_rows", "src": script, "expr": gen_bool_expr(rng, colty, 0)}
            idc = rng.choice([None, "src_name"])
            if idc in colty:
                idc = None
            colty2, order2 = dict(colty), list(order)
            if idc:
                colty2[idc] = "str"
                order2.append(idc)
            return {"op": "concat_rows", "src": script, "b": b, "id_column": idc, "a_name": "a", "b_name": "b"}, colty2, order2
        return None

    def pipeline(self, depth):
        s, colty, order = self.table()
        n = 0
        tries = 0
        while n < depth and tries < depth * 6:
            tries += 1
            r = self.step(s, colty, order)
            if r is None:
                continue
            s, colty, order = r
            n += 1
        return s, colty, order


# ------------------------------------------------------------------------------------------- building

def td_for(tables, name):
    t = tables[name] if isinstance(tables, dict) else {x["name"]: x for x in tables}[name]
    return TableDescription(table_name=name, column_names=[c for c, _ in t["spec"]])


def apply_step(src, s, build_sub):
    op = s["op"]
    if op == "extend":
        return src.extend(s["ops"], partition_by=s.get("partition_by") or None, order_by=s.get("order_by") or None, reverse=s.get("reverse") or None)
    if op == "project":
        return src.project(s["ops"], group_by=s.get("group_by") or None)
    if op == "select_rows":
        return src.select_rows(s["expr"])
    if op == "select_columns":
        return src.select_columns(s["columns"])
    if op == "drop_columns":
        return src.drop_columns(s["columns"])
    if op == "rename_columns":
        return src.rename_columns(s["map"])
    if op == "map_columns":
        return src.map_columns(s["map"])
    if op == "order_rows":
        return src.order_rows(s["columns"], reverse=s.get("reverse") or None, limit=s.get("limit"))
    if op == "natural_join":
        on = [tuple(x) if isinstance(x, list) else x for x in s["on"]]
        kw = {}
        if s.get("check"):
            kw["check_all_common_keys_in_equi_spec"] = True
        return src.natural_join(build_sub(s["b"]), on=on, jointype=s["jointype"], **kw)
    if op == "concat_rows":
        return src.concat_rows(build_sub(s["b"]), id_column=s["id_column"], a_name=s["a_name"], b_name=s["b_name"])
    raise ValueError(op)


def build(script, tables, memo=None):
    """build the operator DAG through the public API (chained); shared sub-scripts (same object) become shared nodes"""
    memo = {} if memo is None else memo
    key = id(script)
    if key in memo:
        return memo[key]
    if script["op"] == "table":
        r = td_for(tables, script["name"])
    else:
        src = build(script["src"], tables, memo)
        r = apply_step(src, script, lambda b: build(b, tables, memo))
    memo[key] = r
    return r


class StepBuildError(Exception):
    """the builder rejected a step in the step-by-step run"""


class StepEvalError(Exception):
    """an executor failed while evaluating a sub-branch in the step-by-step run (not a builder rejection)"""


def eval_stepwise(script, tables, frames, memo=None):
    """materialise after every step: each step is applied to a description of the previous step's actual result"""
    memo = {} if memo is None else memo
    key = id(script)
    if key in memo:
        return memo[key]
    if script["op"] == "table":
        r = frames[script["name"]].copy()
    else:
        cur = eval_stepwise(script["src"], tables, frames, memo)
        names = {"cur": cur}

        def build_sub(b):
            # the other branch of a join / concat is itself run step by step; an executor error while
            # EVALUATING that branch is not a rejection by the builder and must not be reported as one
            try:
                fb = eval_stepwise(b, tables, frames, memo)
            except (StepBuildError, StepEvalError):
                raise
            except Exception as e:
                raise StepEvalError(f"{type(e).__name__}: {e}") from e
            names["other"] = fb
            return TableDescription(table_name="other", column_names=list(fb.columns))
        try:
            ops = apply_step(TableDescription(table_name="cur", column_names=list(cur.columns)), script, build_sub)
        except (StepBuildError, StepEvalError):
            raise
        except Exception as e:
            raise StepBuildError(f"{type(e).__name__}: {e}") from e
        r = ops.eval(names)
    memo[key] = r
    return r


def script_depth(s):
    if s["op"] == "table":
        return 0
    d = 1 + script_depth(s["src"])
    if "b" in s:
        d = max(d, 1 + script_depth(s["b"]))
    return d


def script_ops(s, acc=None):
    acc = [] if acc is None else acc
    if s["op"] != "table":
        script_ops(s["src"], acc)
        if "b" in s:
            script_ops(s["b"], acc)
        k = s["op"]
        if k == "extend" and (s.get("partition_by") or s.get("order_by")):
            k = "wextend"
        acc.append(k)
    return acc


def script_tables(s, acc=None):
    acc = set() if acc is None else acc
    if s["op"] == "table":
        acc.add(s["name"])
    else:
        script_tables(s["src"], acc)
        if "b" in s:
            script_tables(s["b"], acc)
    return acc


def to_json(s):
    """scripts may share sub-objects; JSON flattens them (fine for replays)"""
    return json.loads(json.dumps(s))


# ------------------------------------------------------------------------------------------- evaluation backends

def eval_pandas(ops, frames):
    return ops.eval({k: v.copy() for k, v in frames.items()})


def eval_sqlite(ops, frames, *, sql=None, model=None):
    h = data_algebra.SQLite.example_handle()
    try:
        for k, v in frames.items():
            h.insert_table(v, table_name=k, allow_overwrite=True)
        if sql is None:
            return h.read_query(ops)
        return h.read_query(sql)
    finally:
        h.close()


# ------------------------------------------------------------------------------------------- canonical comparison

def norm_cell(v):
    if v is None:
        return None
    if isinstance(v, (bool, np.bool_)):
        return float(bool(v))
    if isinstance(v, (int, np.integer)):
        return float(v)
    if isinstance(v, (float, np.floating)):
        if math.isnan(v):
            return None
        return float(v)
    if v is pd.NA or v is pd.NaT:
        return None
    return str(v)


def canon(df, *, keep_col_order=False):
    """(columns, rows) with normalised cells; columns sorted unless keep_col_order"""
    cols = list(df.columns)
    order = cols if keep_col_order else sorted(cols)
    idx = [cols.index(c) for c in order]
    rows = []
    vals = df.to_numpy(dtype=object) if len(cols) else np.empty((len(df), 0), dtype=object)
    for r in vals:
        rows.append(tuple(norm_cell(r[i]) for i in idx))
    return order, rows


def sort_key(row):
    out = []
    for v in row:
        if v is None:
            out.append((0, 0.0, ""))
        elif isinstance(v, float):
            out.append((1, round(v, 6), ""))
        else:
            out.append((2, 0.0, v))
    return tuple(out)


def cells_close(a, b, tol=1e-8):
    if a is None or b is None:
        return a is None and b is None
    if isinstance(a, float) and isinstance(b, float):
        if math.isinf(a) or math.isinf(b):
            return a == b
        return abs(a - b) / max(abs(a), abs(b), 1.0) <= tol
    return a == b


def frames_equiv(a, b, *, check_col_order=False, check_row_order=False):
    """None if equivalent, else a short reason"""
    ca, ra = canon(a, keep_col_order=check_col_order)
    cb, rb = canon(b, keep_col_order=check_col_order)
    if ca != cb:
        return f"columns differ: {ca} vs {cb}"
    if len(ra) != len(rb):
        return f"row counts differ: {len(ra)} vs {len(rb)}"
    if not check_row_order:
        ra, rb = sorted(ra, key=sort_key), sorted(rb, key=sort_key)
    for i, (x, y) in enumerate(zip(ra, rb)):
        for j, (u, v) in enumerate(zip(x, y)):
            if not cells_close(u, v):
                return f"row {i} column {ca[j]}: {u!r} vs {v!r}"
    return None


def frame_to_json(df):
    c, r = canon(df, keep_col_order=True)
    return {"columns": c, "rows": [list(x) for x in r]}
