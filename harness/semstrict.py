"""Shared by C01 and C02: classification of generated pipelines by Model/SemStrict.v (inside Coq), the Pandas-vs-SQL oracle,
the decision rule (insensitive / accepted convention / listed finding / violation), generators of the property's own shapes.

Classification codes (Model/SemStrictCases.v):  1..10 causes of the strict walk, 21..30 causes of the multiset walk (+20),
100 models differ as multisets, 101 models differ in row order (ordered cases), 102 PostgreSQL model differs from Pandas,
201..209 the single conventions of SQLite that change the Pandas model's result."""
import json, os, re, subprocess, time, copy
import lib, pipes, semconv, execcorr as X

CAUSE = {1: "null_operand_of_comparison", 2: "not_equal_null_in_row_filter", 3: "null_operand_of_and_or", 4: "null_operand_of_maximum_minimum",
         5: "null_operand_of_fmax_fmin", 6: "aggregate_over_no_values", 7: "running_window_at_null", 8: "null_sort_key", 9: "sort_ties",
         10: "null_join_keys_both_sides"}
FIELD = {1: "cmp3", 2: "logic3", 3: "minmax_ignore_null", 4: "fminmax_propagate", 5: "empty_agg_null", 6: "running_carry",
         7: "nulls_first_asc", 8: "nulls_first_desc", 9: "join_null_match"}
# which causes can make which convention matter (used when no single convention explains a difference)
CAUSE_FIELD = {1: "cmp3", 2: "cmp3", 3: "logic3", 4: "minmax_ignore_null", 5: "fminmax_propagate", 6: "empty_agg_null", 7: "running_carry",
               8: "nulls_first_asc", 10: "join_null_match"}
ACCEPTED = {"empty_agg_null"}          # the property's own accepted destination convention (sum / count over no values)

PREAMBLE = ("From Coq Require Import List Bool ZArith QArith String.\nImport ListNotations.\nOpen Scope string_scope.\n"
            "From DA Require Import Base.PyRT Base.Cases Base.Val Model.Sem Model.SemStrict Model.SemStrictCases.\nOpen Scope list_scope.\n")


def case_term(case, ordered):
    return "mkccase %s %s %s" % (semconv.cop(case.ops), semconv.cenv(case.frames), lib.cbool(ordered))


def classify(name, entries, per_file=40, timeout=1500):
    """entries: [(case, ordered)] -> (codes: list (set of int | None when the case is outside Model/Sem.v), errors, sanity_failures)"""
    terms, index = [], []
    out = [None] * len(entries)
    unsupported = {}
    for i, (case, ordered) in enumerate(entries):
        try:
            terms.append(case_term(case, ordered))
            index.append(i)
        except semconv.Unsupported as u:
            k = str(u).split()[0]
            unsupported[k] = unsupported.get(k, 0) + 1
    if not terms:
        return out, [], [], unsupported
    cdir = os.path.join(lib.COQ, "cases")
    os.makedirs(cdir, exist_ok=True)
    files = []
    for k in range(0, (len(terms) + per_file - 1) // per_file):
        chunk = terms[k * per_file:(k + 1) * per_file]
        fn = os.path.join(cdir, f"{name}_cls_p{os.getpid()}_{k}.v")
        with open(fn, "w") as f:
            f.write(PREAMBLE + "\nDefinition cases := [\n" + ";\n".join(chunk) + "\n].\n")
            f.write("Eval vm_compute in classify_all cases.\nEval vm_compute in check_cases cases.\n")
        files.append(fn)
    t0 = time.time()
    results = [None] * len(files)
    pending, running = list(range(len(files))), {}
    while pending or running:
        while pending and len(running) < lib.NPROC:
            i = pending.pop(0)
            running[i] = subprocess.Popen(["coqc", "-Q", "theories", "DA", "-Q", "cases", "DAcases", os.path.relpath(files[i], lib.COQ)],
                                          cwd=lib.COQ, stdout=subprocess.PIPE, stderr=subprocess.STDOUT, text=True, env=lib.ENV)
        for i, p in list(running.items()):
            try:
                o, _ = p.communicate(timeout=0.2)
                results[i] = (p.returncode, o)
                del running[i]
            except subprocess.TimeoutExpired:
                if time.time() - t0 > timeout:
                    p.kill()
                    results[i] = (124, "TIMEOUT")
                    del running[i]
    errors, sanity = [], []
    for k, (rc, o) in enumerate(results):
        o = "\n".join(l for l in o.splitlines() if "conda" not in l)
        if rc != 0:
            errors.append(f"{os.path.basename(files[k])}: rc={rc}\n{o[-1500:]}")
            continue
        flat = " ".join(o.split())
        m = re.search(r"= (\[.*\]|nil) : list \(list nat\)", flat)
        m2 = re.search(r"= (\[[^\]]*\]|nil)\s*: list nat", flat)
        if not m or not m2:
            errors.append(f"{os.path.basename(files[k])}: unparsable output\n{o[-1500:]}")
            continue
        txt = m.group(1)
        lists = [] if txt == "nil" else json.loads(txt.replace("%nat", "").replace(";", ","))
        n = min(per_file, len(terms) - k * per_file)
        if len(lists) != n:
            errors.append(f"{os.path.basename(files[k])}: {len(lists)} classifications for {n} cases")
            continue
        for j, codes in enumerate(lists):
            out[index[k * per_file + j]] = set(codes)
        sanity += [index[k * per_file + int(x)] for x in re.findall(r"\d+", m2.group(1).replace("%nat", ""))]
    for fn in files:
        for ext in (".v", ".vo", ".vok", ".vos", ".glob"):
            try:
                os.remove(fn[:-2] + ext)
            except OSError:
                pass
        try:
            os.remove(os.path.join(os.path.dirname(fn), "." + os.path.basename(fn)[:-2] + ".aux"))
        except OSError:
            pass
    return out, errors, sanity, unsupported


# ------------------------------------------------------------------------------------------------ reading a classification

def strict_causes(codes):
    return sorted(c for c in codes if 1 <= c <= 10)


def bag_causes(codes):
    return sorted(c - 20 for c in codes if 21 <= c <= 30)


def fields(codes):
    return [FIELD[c - 200] for c in sorted(codes) if 201 <= c <= 209]


def differing_fields():
    """the conventions in which a SQL flavour of Model/Sem.v (fl_sqlite, fl_postgres) really differs from fl_pandas, read from the
    model's source: only those can account for a Pandas-vs-SQL difference (several were repaired in /repo and are equal now)"""
    txt = open(os.path.join(lib.COQ, "theories", "Model", "Sem.v")).read()
    fl = {}
    for name, bits in re.findall(r"Definition\s+(fl_\w+)\s*:=\s*mkfl((?:\s+(?:true|false))+)\s*\.", txt):
        fl[name] = [b == "true" for b in bits.split()]
    base = fl.get("fl_pandas")
    out = set()
    for other in ("fl_sqlite", "fl_postgres"):
        if base and other in fl and len(fl[other]) == len(base) == len(FIELD):
            out |= {FIELD[i + 1] for i, (x, y) in enumerate(zip(base, fl[other])) if x != y}
    return out or set(FIELD.values())


def relevant_causes(codes, ordered):
    """the causes that matter for the comparison the oracle makes: the strict walk when the row order is compared,
    the multiset walk otherwise"""
    return strict_causes(codes) if ordered else bag_causes(codes)


# ------------------------------------------------------------------------------------------------ oracle on the real code

def oracle(case, ra, rb):
    """Pandas result vs SQL result with the suite's rule: same column set (same order after select_columns), same multiset of rows,
    same row order after a final order_rows whose keys are distinct and non-null; floats 1e-8 relative; null = NaN.
    Returns (difference text | None, ordered?)"""
    ordered = X.order_is_total(case.script, ra)
    return pipes.frames_equiv(ra, rb, check_col_order=X.defines_column_order(case.script), check_row_order=ordered), ordered


# ------------------------------------------------------------------------------------------------ generators of own shapes

def _cols(t):
    return [c for c, _ in t["spec"]]


def _numcols(t, uid=True):
    return [c for c, ty in t["spec"] if ty in ("int", "float") and (uid or c != "uid")]


def shaped_families(rng, tabs):
    """pipelines exercising the translation mechanisms named by the property, by family:
    merge   SQL-level extend merging: chains the generator may merge, chains it must keep apart
    prune   column pruning through `using`: columns / aggregates / window order and partition columns nobody uses downstream
    share   a sub-pipeline shared by both sides of a join / concat (WITH / CTE sequencing)
    wkey    the order / partition column of a window is (re)defined by the extend directly below it
    ccol    concat_rows of two pipelines whose SQL steps list the columns in different orders (grouped project, rename, map, join, order_rows)
    join    joins of sub-pipelines, all four types, unmatched rows on both sides, coalesced common columns
    order   order_rows with limit under further steps; ties
    near    sibling sub-queries differing in one place (CTE cache keys)"""
    t1, t2 = tabs[0], tabs[1]
    T1, T2 = {"op": "table", "name": t1["name"]}, {"op": "table", "name": t2["name"]}
    n1 = _numcols(t1, uid=False) or ["uid"]
    a = rng.choice(n1)
    b = rng.choice(n1)
    k0 = _cols(t1)[0]
    k = rng.choice([0, 1, 2, 0.5])
    F = {"merge": [], "prune": [], "share": [], "join": [], "order": []}
    e1 = {"op": "extend", "src": T1, "ops": {"x": f"{a} + {k}"}}
    m = F["merge"]
    m.append({"op": "extend", "src": e1, "ops": {"y": f"{b} * 2"}})                                   # independent: mergeable
    m.append({"op": "extend", "src": e1, "ops": {"y": "x * 2"}})                                      # reads x: not mergeable
    m.append({"op": "extend", "src": {"op": "extend", "src": e1, "ops": {"x": "x + 1"}}, "ops": {"z": "x - uid"}})   # overwrite chain
    m.append({"op": "extend", "src": {"op": "extend", "src": e1, "ops": {a: "x"}}, "ops": {"x": f"{a} + 1", "w": "uid"}})
    m.append({"op": "extend", "src": {"op": "extend", "src": e1, "ops": {"r": "_row_number()"}, "partition_by": [], "order_by": ["uid"], "reverse": []},
              "ops": {"s": "x.cumsum()"}, "partition_by": [], "order_by": ["uid"], "reverse": ["uid"]})
    m.append({"op": "extend", "src": {"op": "select_rows", "src": e1, "expr": "uid >= 1"}, "ops": {"y": "x + uid"}})
    p = {"op": "project", "src": e1, "ops": {"s": "x.sum()", "m": f"{b}.max()", "n": "_size()"}, "group_by": [k0]}
    pr = F["prune"]
    pr.append({"op": "select_columns", "src": p, "columns": ["n"]})
    pr.append({"op": "select_columns", "src": p, "columns": [k0]})
    pt = {"op": "project", "src": rng.choice([T1, {"op": "select_rows", "src": T1, "expr": "uid >= 1"}]), "ops": {"s": f"{a}.sum()", "n": "_size()"}, "group_by": [k0]}
    pr.append({"op": "select_columns", "src": pt, "columns": ["s"]})                                  # the group key itself is not used downstream
    pr.append({"op": "drop_columns", "src": pt, "columns": [k0]})
    pr.append({"op": "project", "src": pt, "ops": {"tot": "n.sum()", "groups": "_size()"}, "group_by": []})
    pr.append({"op": "drop_columns", "src": {"op": "extend", "src": p, "ops": {"q": "n + 1"}}, "columns": ["s", "m", "n"]})
    pr.append({"op": "select_columns", "src": {"op": "extend", "src": e1, "ops": {"y": "x + 1", "z": f"{b} - 1"}}, "columns": ["z", "uid"]})
    pr.append({"op": "project", "src": {"op": "extend", "src": T1, "ops": {"one": "1"}}, "ops": {"n": "one.sum()"}, "group_by": []})
    w = {"op": "extend", "src": T1, "ops": {"x": f"{a}.{rng.choice(['cumsum', 'cummax', 'cummin'])}()"}, "partition_by": [k0], "order_by": ["uid"], "reverse": rng.choice([[], ["uid"]])}
    w2 = {"op": "extend", "src": T1, "ops": {"r": "_row_number()", "sh": f"{a}.shift()"}, "partition_by": [], "order_by": ["uid"], "reverse": []}
    pr.append({"op": "select_columns", "src": w, "columns": ["x"]})                                    # partition and order columns unused downstream
    pr.append({"op": "select_columns", "src": w, "columns": ["x", k0]})
    pr.append({"op": "project", "src": w, "ops": {"mx": "x.max()", "n": "_size()"}, "group_by": []})
    pr.append({"op": "extend", "src": {"op": "drop_columns", "src": w, "columns": ["uid"]}, "ops": {"y": "x + 1"}})
    pr.append({"op": "extend", "src": {"op": "drop_columns", "src": w, "columns": [k0]}, "ops": {"y": "uid + 1"}})
    pr.append({"op": "select_columns", "src": w2, "columns": ["r", "sh"]})
    pr.append({"op": "project", "src": {"op": "concat_rows", "src": T1, "b": T1, "id_column": None, "a_name": "a", "b_name": "b"}, "ops": {"n": "_size()"}, "group_by": []})
    pr.append({"op": "extend", "src": {"op": "drop_columns", "src": T1, "columns": [c for c in _cols(t1) if c != k0]}, "ops": {k0: "3"}})
    shared = {"op": "select_rows", "src": e1, "expr": "uid >= 1"}
    sh = F["share"]
    sh.append({"op": "concat_rows", "src": shared, "b": shared, "id_column": "src", "a_name": "l", "b_name": "r"})
    sh.append({"op": "concat_rows", "src": shared, "b": {"op": "select_rows", "src": shared, "expr": "uid <= 3"}, "id_column": None, "a_name": "a", "b_name": "b"})
    agg = {"op": "project", "src": shared, "ops": {"t": "x.sum()"}, "group_by": ["uid"]}
    for jt in ("INNER", "LEFT", "RIGHT", "FULL"):
        sh.append({"op": "natural_join", "src": shared, "b": agg, "on": ["uid"], "jointype": jt})
        sh.append({"op": "natural_join", "src": agg, "b": shared, "on": ["uid"], "jointype": jt})
    sel = {"op": "select_columns", "src": shared, "columns": ["uid", "x"]}
    sh.append({"op": "natural_join", "src": {"op": "rename_columns", "src": sel, "map": {"x2": "x"}}, "b": sel, "on": ["uid"], "jointype": rng.choice(["LEFT", "RIGHT", "FULL"])})
    jn = F["join"]
    if all(dict(t1["spec"])[c] == dict(t2["spec"])[c] for c in _cols(t1) if c in _cols(t2)):
        left = {"op": "select_rows", "src": T1, "expr": "uid >= 1"}            # uid 0 only on the right, large uids only on the left
        right = {"op": "select_rows", "src": T2, "expr": "uid <= 3"}
        for jt in ("INNER", "LEFT", "RIGHT", "FULL"):
            jn.append({"op": "natural_join", "src": left, "b": right, "on": ["uid"], "jointype": jt})
            jn.append({"op": "order_rows", "src": {"op": "natural_join", "src": left, "b": {"op": "extend", "src": right, "ops": {"q": "uid * 2"}}, "on": ["uid"], "jointype": jt},
                       "columns": ["uid"], "reverse": rng.choice([[], ["uid"]]), "limit": rng.choice([None, 2, 3])})
            jn.append({"op": "project", "src": {"op": "natural_join", "src": left, "b": right, "on": ["uid"], "jointype": jt}, "ops": {"n": "_size()", "mx": "uid.max()"}, "group_by": []})
    o = {"op": "order_rows", "src": e1, "columns": [a, "uid"], "reverse": rng.choice([[], [a], ["uid"]]), "limit": rng.choice([1, 2, 3])}
    od = F["order"]
    od.append(o)
    od.append({"op": "extend", "src": o, "ops": {"y": "x + 1"}})
    od.append({"op": "project", "src": o, "ops": {"n": "_size()", "m": "uid.max()"}, "group_by": []})
    od.append({"op": "order_rows", "src": T1, "columns": [k0], "reverse": [], "limit": None})            # ties, multiset compared
    od.append({"op": "extend", "src": T1, "ops": {"c": "_size()", "mx": "uid.max()"}, "partition_by": [k0], "order_by": [], "reverse": []})
    # --- wkey: the ORDER / PARTITION column of a window is (re)defined by the extend immediately below it (the SQL generator must
    #     not merge the two into one SELECT: OVER (ORDER BY k) would read the OLD k)
    wk = F["wkey"] = []
    val = rng.choice([c for c in n1 if c != a] or ["uid"])
    fn = rng.choice(["cumsum", "cummax", "cummin"])
    wk.append({"op": "extend", "src": {"op": "extend", "src": T1, "ops": {a: f"0 - {a}"}}, "ops": {"r": f"{val}.{fn}()"}, "partition_by": [], "order_by": [a, "uid"], "reverse": []})
    wk.append({"op": "extend", "src": {"op": "extend", "src": T1, "ops": {"uid": "0 - uid"}}, "ops": {"r": f"{a}.{fn}()", "n": "_row_number()"}, "partition_by": [], "order_by": ["uid"], "reverse": []})
    wk.append({"op": "extend", "src": {"op": "extend", "src": T1, "ops": {"kk": "0 - uid"}}, "ops": {"r": f"{a}.shift()"}, "partition_by": [], "order_by": ["kk"], "reverse": rng.choice([[], ["kk"]])})
    wk.append({"op": "extend", "src": {"op": "extend", "src": T1, "ops": {"uid": "10 - uid", "z": f"{a} + 1"}}, "ops": {"n": "_row_number()"}, "partition_by": [k0], "order_by": ["uid"], "reverse": []})
    wk.append({"op": "extend", "src": {"op": "extend", "src": T1, "ops": {k0: "(uid > 1).if_else(1, 0)"}}, "ops": {"c": "_size()", "mx": "uid.max()"}, "partition_by": [k0], "order_by": [], "reverse": []})
    wk.append({"op": "extend", "src": {"op": "extend", "src": T1, "ops": {"pp": "(uid > 2).if_else(1, 0)"}}, "ops": {"s": "uid.cumsum()"}, "partition_by": ["pp"], "order_by": ["uid"], "reverse": []})
    # --- ccol: concat_rows whose operands are PIPELINES that list their columns in different internal orders (UNION ALL pairs columns
    #     by position): a grouped project (aggregates first), rename / map (renamed first), join (coalesced first), order_rows
    cc = F["ccol"] = []
    agg = rng.choice(["sum", "max", "min", "count"])
    plain = {"op": "select_columns", "src": {"op": "extend", "src": T1, "ops": {"v": f"{a} + 1"}}, "columns": [k0, "v"]}
    plain2 = {"op": "select_columns", "src": {"op": "extend", "src": T1, "ops": {"v": f"{a} * 2"}}, "columns": ["v", k0]}
    others = [
        {"op": "project", "src": T1, "ops": {"v": f"{a}.{agg}()"}, "group_by": [k0]},
        {"op": "project", "src": {"op": "select_rows", "src": T1, "expr": "uid >= 1"}, "ops": {"v": f"{a}.{agg}()"}, "group_by": [k0]},
        {"op": "rename_columns", "src": {"op": "select_columns", "src": T1, "columns": [k0, "uid"]}, "map": {"v": "uid"}},
        {"op": "map_columns", "src": {"op": "select_columns", "src": T1, "columns": ["uid", k0]}, "map": {"uid": "v"}},
        {"op": "order_rows", "src": {"op": "select_columns", "src": {"op": "extend", "src": T1, "ops": {"v": "uid + 0"}}, "columns": ["v", k0]}, "columns": ["v"], "reverse": [], "limit": None},
        {"op": "select_columns", "src": {"op": "natural_join", "src": {"op": "select_columns", "src": T1, "columns": ["uid", k0]},
                                         "b": {"op": "rename_columns", "src": {"op": "select_columns", "src": T1, "columns": ["uid"]}, "map": {"v": "uid"}}, "on": [], "jointype": "CROSS"},
         "columns": [k0, "v"]} if False else
        {"op": "drop_columns", "src": {"op": "natural_join", "src": {"op": "select_columns", "src": T1, "columns": ["uid", k0]},
                                       "b": {"op": "extend", "src": {"op": "select_columns", "src": T1, "columns": ["uid"]}, "ops": {"v": "uid * 3"}}, "on": ["uid"], "jointype": "LEFT"},
         "columns": ["uid"]},
    ]
    for o in others:
        idc = rng.choice([None, "src"])
        first, second = (plain, o) if rng.random() < 0.5 else (o, rng.choice([plain, plain2]))
        cc.append({"op": "concat_rows", "src": first, "b": second, "id_column": idc, "a_name": "l", "b_name": "r"})
    cc.append({"op": "concat_rows", "src": others[0], "b": others[2], "id_column": None, "a_name": "l", "b_name": "r"})
    cc.append({"op": "project", "src": {"op": "concat_rows", "src": plain, "b": others[1], "id_column": "src", "a_name": "l", "b_name": "r"},
               "ops": {"t": "v.max()", "n": "_size()"}, "group_by": ["src"]})
    # --- near: two sibling sub-queries that differ in ONE place only (the right source of a join, a constant, an aggregate, a
    #     predicate, a limit, the join type) combined by concat_rows / natural_join: a CTE cache (use_cte_elim) or any other memo whose
    #     key is too coarse would replace the second by the first
    nr = F["near"] = []
    L = {"op": "select_columns", "src": T1, "columns": ["uid", a]}
    r1 = {"op": "rename_columns", "src": {"op": "select_columns", "src": {"op": "select_rows", "src": T1, "expr": "uid <= 2"}, "columns": ["uid", b]}, "map": {"w": b}}
    r2 = {"op": "rename_columns", "src": {"op": "select_columns", "src": {"op": "select_rows", "src": T1, "expr": "uid >= 2"}, "columns": ["uid", b]}, "map": {"w": b}}
    r3 = {"op": "extend", "src": {"op": "select_columns", "src": T1, "columns": ["uid"]}, "ops": {"w": "uid * 7"}}
    jt = rng.choice(["INNER", "LEFT", "RIGHT", "FULL"])
    ra, rb = rng.sample([r1, r2, r3], 2)
    pair = lambda x, y, idc=None: {"op": "concat_rows", "src": x, "b": y, "id_column": idc, "a_name": "l", "b_name": "r"}
    nr.append(pair({"op": "natural_join", "src": L, "b": ra, "on": ["uid"], "jointype": jt}, {"op": "natural_join", "src": L, "b": rb, "on": ["uid"], "jointype": jt}, rng.choice([None, "src"])))
    nr.append(pair({"op": "natural_join", "src": ra, "b": L, "on": ["uid"], "jointype": jt}, {"op": "natural_join", "src": rb, "b": L, "on": ["uid"], "jointype": jt}))
    nr.append(pair({"op": "natural_join", "src": L, "b": ra, "on": ["uid"], "jointype": "LEFT"}, {"op": "natural_join", "src": L, "b": ra, "on": ["uid"], "jointype": rng.choice(["INNER", "RIGHT", "FULL"])}))
    nr.append(pair({"op": "extend", "src": L, "ops": {"v": f"{a} + 1"}}, {"op": "extend", "src": L, "ops": {"v": f"{a} + 2"}}))
    nr.append(pair({"op": "project", "src": L, "ops": {"v": f"{a}.max()"}, "group_by": []}, {"op": "project", "src": L, "ops": {"v": f"{a}.min()"}, "group_by": []}, "src"))
    nr.append(pair({"op": "select_rows", "src": L, "expr": "uid <= 2"}, {"op": "select_rows", "src": L, "expr": "uid <= 3"}))
    nr.append(pair({"op": "order_rows", "src": L, "columns": ["uid"], "reverse": [], "limit": 1}, {"op": "order_rows", "src": L, "columns": ["uid"], "reverse": ["uid"], "limit": 1}))
    nr.append({"op": "natural_join", "src": {"op": "rename_columns", "src": {"op": "natural_join", "src": L, "b": ra, "on": ["uid"], "jointype": "INNER"}, "map": {"w1": "w", "a1": a}},
               "b": {"op": "natural_join", "src": L, "b": rb, "on": ["uid"], "jointype": "INNER"}, "on": ["uid"], "jointype": "FULL"})
    return F


def shaped_scripts(rng, tabs, n=6):
    """one script of each of `n` families (join, prune, wkey, ccol and near always, when they apply)"""
    F = {k: v for k, v in shaped_families(rng, tabs).items() if v}
    fams = [f for f in ("join", "prune", "wkey", "ccol", "near") if f in F]
    rest = [f for f in F if f not in fams]
    rng.shuffle(rest)
    return [rng.choice(F[f]) for f in (fams + rest)[:n]]


def sensitive_scripts(rng, tabs):
    """one pipeline per convention case (the stream that deliberately reaches them)"""
    t1, t2 = tabs[0], tabs[1]
    T1, T2 = {"op": "table", "name": t1["name"]}, {"op": "table", "name": t2["name"]}
    n1 = _numcols(t1, uid=False)
    if not n1:
        return []
    a, b = rng.choice(n1), rng.choice(n1)
    k = rng.choice([0, 1, 2])
    cmpop = rng.choice(["<", "<=", ">", ">=", "==", "!="])
    out = [
        {"op": "extend", "src": T1, "ops": {"x": f"{a} {cmpop} {k}"}},
        {"op": "extend", "src": T1, "ops": {"x": f"({a} {cmpop} {b}).if_else(1, 0)"}},
        {"op": "select_rows", "src": T1, "expr": f"{a} != {k}"},
        {"op": "select_rows", "src": T1, "expr": f"{a} {rng.choice(['<', '>', '==', '<=', '>='])} {k}"},           # insensitive on purpose
        {"op": "select_rows", "src": T1, "expr": f"({a} > {k}) {rng.choice(['and', 'or'])} ({b} <= 2)"},          # insensitive on purpose
        {"op": "extend", "src": T1, "ops": {"x": f"(({a} > {k}) {rng.choice(['and', 'or'])} ({b}.is_null())).if_else(1, 0)"}},
        {"op": "extend", "src": T1, "ops": {"x": f"{a}.{rng.choice(['maximum', 'minimum'])}({b})"}},
        {"op": "extend", "src": T1, "ops": {"x": f"{a}.{rng.choice(['fmax', 'fmin'])}({b})"}},
        {"op": "project", "src": T1, "ops": {"s": f"{a}.sum()", "n": f"{a}.count()"}, "group_by": [_cols(t1)[0]]},
        {"op": "project", "src": {"op": "select_rows", "src": T1, "expr": "uid < 0"}, "ops": {"s": f"{a}.sum()", "n": "_size()", "m": f"{a}.mean()"}, "group_by": []},
        {"op": "extend", "src": T1, "ops": {"x": f"{a}.{rng.choice(['cumsum', 'cummax', 'cummin'])}()"}, "partition_by": [], "order_by": ["uid"], "reverse": []},
        {"op": "order_rows", "src": T1, "columns": [a, "uid"], "reverse": [], "limit": rng.choice([1, 2, 3])},
        {"op": "order_rows", "src": T1, "columns": [a, "uid"], "reverse": [a], "limit": rng.choice([1, 2, 3])},
        {"op": "order_rows", "src": T1, "columns": [a, "uid"], "reverse": [], "limit": None},
        {"op": "extend", "src": {"op": "order_rows", "src": T1, "columns": [a, "uid"], "reverse": [], "limit": None}, "ops": {"y": "uid + 1"}},
        {"op": "extend", "src": T1, "ops": {"x": "_row_number()"}, "partition_by": [], "order_by": [a, "uid"], "reverse": []},
    ]
    common = [c for c in _cols(t1) if c in _cols(t2) and c != "uid"]
    if common and all(dict(t1["spec"])[c] == dict(t2["spec"])[c] for c in common):
        kcol = common[0]
        for jt in ("INNER", "LEFT", "RIGHT", "FULL"):
            out.append({"op": "natural_join", "src": T1, "b": {"op": "select_columns", "src": T2, "columns": [kcol, "uid"]}, "on": [kcol], "jointype": jt})
    return out


# ------------------------------------------------------------------------------------------------ SQL variants (dialect x options)

def variant_result(case, variant):
    """variant: (name, dialect, options-dict | None).  (frame | None, error | None); cached on the case"""
    name, dialect, opts = variant
    key = "sql:" + name
    if key not in case._res:
        try:
            options = None
            if opts is not None:
                from data_algebra.sql_format_options import SQLFormatOptions
                options = SQLFormatOptions(**opts)
            case._res[key] = (X.eval_sql(case.ops, case.frames, dialect, options=options), None)
        except Exception as e:            # noqa
            import traceback
            tb = traceback.extract_tb(e.__traceback__)
            where = tb[-1].name if tb else "?"
            msg = " ".join(str(e).split())
            if len(msg) > 260:
                msg = msg[:120] + " ... " + msg[-130:]
            case._res[key] = (None, f"{type(e).__name__}: {msg} [raised in {where}]")
    return case._res[key]


def sql_error_class(ev):
    """'<function that raised>:<exception class>' -- the key the listed findings about failing SQL generation are matched by"""
    m = re.match(r"(\w+): .*\[raised in (\w+)\]$", str(ev), re.S)
    if m and m.group(1) == "DatabaseError":          # the engine refused the text: classify by the engine's message
        m2 = re.search(r"': ([A-Za-z ]+?)(?::| \[raised)", str(ev))
        return "engine:" + (m2.group(1).strip().replace(" ", "_") if m2 else "error")
    return f"{m.group(2)}:{m.group(1)}" if m else "other"


def shape_flags(script):
    """structural facts about a script that listed findings of the format-option variants are keyed by"""
    subs = X.sub_scripts(script)
    keys = [json.dumps(pipes.to_json(x), sort_keys=True) for x in subs]
    def core(x):          # select_columns / drop_columns only narrow the step they sit on
        while x["op"] in ("select_columns", "drop_columns"):
            x = x["src"]
        return x["op"]
    union_order = any(x["op"] == "concat_rows" and (core(x["src"]) == "order_rows" or core(x["b"]) == "order_rows") for x in subs)
    ext_shared = False
    for x in subs:
        if x["op"] == "extend" and x["src"]["op"] == "extend":
            k = json.dumps(pipes.to_json(x["src"]), sort_keys=True)
            if keys.count(k) >= 2:          # the inner extend also occurs somewhere else in the pipeline
                ext_shared = True
        if x["op"] == "concat_rows" and x.get("id_column"):
            # concat_rows(id_column=...) puts an extend of its own on each operand (the source label)
            for o in (x["src"], x["b"]):
                if o["op"] == "extend" and keys.count(json.dumps(pipes.to_json(o), sort_keys=True)) >= 2:
                    ext_shared = True
    return {"union_operand_ends_in_order_rows": union_order, "extend_over_shared_extend": ext_shared}


def make_case(script, tabs, stream):
    c = X.Case(script, tabs, pipes.build(script, {t["name"]: t for t in tabs}))
    c.stream = stream
    return c


def gen_tables(rng, null_rate, types=("int", "float", "str"), empty=False):
    return [pipes.gen_table(rng, f"d{i+1}", null_rate=null_rate, nrows=0 if empty else None, types=types, unique_col="uid") for i in range(2)]


def dag_scripts(rng, tabs):
    """a random sub-pipeline used TWICE (the same Python object, hence one shared node of the operator DAG): joined back onto its own
    aggregate, concatenated with a filtered copy of itself, joined with a renamed projection of itself"""
    g = pipes.Gen(rng, tabs, features=["extend", "select_rows", "select_columns", "rename_columns", "order_rows", "wextend", "drop_columns", "map_columns"])
    src, colty, order = g.pipeline(rng.randint(1, 3))
    nums = pipes.cols_of(colty, "num")
    if not nums or src["op"] == "table":
        return []
    if rng.random() < 0.6:
        # the shared node is an order_rows with limit (its NearSQL cache key carries no column list: the CTE cache must add the demanded columns)
        cols = rng.sample(order, 1)
        lim = rng.choice([2, 3, 5]) if g.totalise(src, order, cols) else None
        src = {"op": "order_rows", "src": src, "columns": cols, "reverse": rng.choice([[], cols[:1]]), "limit": lim}
    k = rng.choice(order)
    vals = [c for c in nums if c != k] or nums
    v = rng.choice(vals)
    out = []
    fn = rng.choice(["sum", "mean", "min", "max", "count"])
    agg = {"op": "project", "src": src, "ops": {"agg_v": f"{v}.{fn}()", "agg_n": "_size()"}, "group_by": [k]}
    jts = rng.sample(["INNER", "LEFT", "RIGHT", "FULL"], 2)
    for jt in jts:          # the narrow column demand (the aggregate reads k and v only) comes first, the full demand second
        out.append({"op": "natural_join", "src": agg, "b": src, "on": [k], "jointype": jt})
    out.append({"op": "natural_join", "src": src, "b": agg, "on": [k], "jointype": jts[0]})
    out.append({"op": "concat_rows", "src": src, "b": {"op": "select_rows", "src": src, "expr": pipes.gen_bool_expr(rng, colty, 0)},
                "id_column": rng.choice([None, "src_name"]) if "src_name" not in colty else None, "a_name": "a", "b_name": "b"})
    out.append({"op": "concat_rows", "src": {"op": "select_rows", "src": src, "expr": pipes.gen_bool_expr(rng, colty, 0)},
                "b": {"op": "select_rows", "src": src, "expr": pipes.gen_bool_expr(rng, colty, 0)}, "id_column": None, "a_name": "a", "b_name": "b"})
    e2 = {"op": "extend", "src": src, "ops": {"dag_x": f"{v} + 1"}}
    out.append({"op": "natural_join", "src": {"op": "select_columns", "src": e2, "columns": [k, "dag_x"]}, "b": src, "on": [k], "jointype": rng.choice(["INNER", "LEFT", "RIGHT", "FULL"])})
    out.append({"op": "project", "src": {"op": "concat_rows", "src": agg, "b": agg, "id_column": None, "a_name": "a", "b_name": "b"}, "ops": {"tot": "agg_n.sum()"}, "group_by": []})
    return out


def pg_path_scripts(rng, tabs):
    """translation paths only the PostgreSQL dialect takes:
    (a) native RIGHT / FULL JOIN with rows on the right that have no match on the left (and the converse), same-named keys;
    (b) CTE elimination: a join / concat whose two branches apply TEXTUALLY IDENTICAL extends to DIFFERENT inputs (two tables, or one
        table after two different filters) -- the branches must not share one common table expression"""
    t1, t2 = tabs[0], tabs[1]
    T1, T2 = {"op": "table", "name": t1["name"]}, {"op": "table", "name": t2["name"]}
    a1 = rng.choice(_numcols(t1, uid=False) or ["uid"])
    b2 = rng.choice(_numcols(t2, uid=False) or ["uid"])
    k0 = _cols(t1)[0]
    out = []
    # (a)
    left = {"op": "rename_columns", "src": {"op": "select_columns", "src": {"op": "select_rows", "src": T1, "expr": "uid >= 1"}, "columns": ["uid", a1] if a1 != "uid" else ["uid"]},
            "map": {"lv": a1}} if a1 != "uid" else {"op": "select_columns", "src": {"op": "select_rows", "src": T1, "expr": "uid >= 1"}, "columns": ["uid"]}
    right = {"op": "extend", "src": {"op": "select_columns", "src": {"op": "select_rows", "src": T2, "expr": "uid <= 3"}, "columns": ["uid"]}, "ops": {"rv": "uid * 2"}}
    for jt in ("RIGHT", "FULL"):
        j = {"op": "natural_join", "src": left, "b": right, "on": ["uid"], "jointype": jt}
        out.append(j)
        out.append({"op": "project", "src": j, "ops": {"n": "_size()", "keys": "uid.count()", "top": "uid.max()"}, "group_by": []})
    out.append({"op": "order_rows", "src": {"op": "natural_join", "src": left, "b": right, "on": ["uid"], "jointype": "RIGHT"}, "columns": ["rv"], "reverse": [], "limit": None})
    if k0 != "uid":
        lk = {"op": "select_columns", "src": {"op": "select_rows", "src": T1, "expr": "uid >= 2"}, "columns": [k0, "uid"]}
        rk = {"op": "project", "src": {"op": "select_rows", "src": T1, "expr": "uid <= 2"}, "ops": {"cnt": "_size()"}, "group_by": [k0]}
        out.append({"op": "natural_join", "src": lk, "b": rk, "on": [k0], "jointype": rng.choice(["RIGHT", "FULL"])})
    # (b)
    ops = rng.choice([{"x": "q + 1"}, {"x": "q * 2", "y": "uid + 1"}, {"x": "(q > 1).if_else(q, uid)"}])
    wops = {"x": rng.choice(["q.cumsum()", "_row_number()", "q.shift()"])}
    fa = {"op": "rename_columns", "src": {"op": "select_columns", "src": {"op": "select_rows", "src": T1, "expr": "uid >= 2"}, "columns": ["uid", a1]}, "map": {"q": a1}} if a1 != "uid" else None
    fb = {"op": "rename_columns", "src": {"op": "select_columns", "src": {"op": "select_rows", "src": T1, "expr": "uid <= 2"}, "columns": ["uid", a1]}, "map": {"q": a1}} if a1 != "uid" else None
    tb = {"op": "rename_columns", "src": {"op": "select_columns", "src": T2, "columns": ["uid", b2]}, "map": {"q": b2}} if b2 != "uid" else None
    ta = {"op": "rename_columns", "src": {"op": "select_columns", "src": T1, "columns": ["uid", a1]}, "map": {"q": a1}} if a1 != "uid" else None

    def ext(src, o, w=False):
        e = {"op": "extend", "src": src, "ops": dict(o)}
        if w:
            e.update({"partition_by": [], "order_by": ["uid"], "reverse": []})
        return e
    if fa is not None:
        out.append({"op": "concat_rows", "src": ext(fa, ops), "b": ext(fb, ops), "id_column": rng.choice([None, "src"]), "a_name": "l", "b_name": "r"})
        out.append({"op": "natural_join", "src": ext(fa, ops), "b": ext(fb, ops), "on": ["uid"], "jointype": rng.choice(["FULL", "LEFT", "RIGHT"])})
        out.append({"op": "concat_rows", "src": ext(fa, wops, True), "b": ext(fb, wops, True), "id_column": None, "a_name": "l", "b_name": "r"})
    if ta is not None and tb is not None:
        out.append({"op": "concat_rows", "src": ext(ta, ops), "b": ext(tb, ops), "id_column": rng.choice([None, "src"]), "a_name": "l", "b_name": "r"})
        out.append({"op": "natural_join", "src": ext(ta, ops), "b": ext(tb, ops), "on": ["uid"], "jointype": rng.choice(["INNER", "FULL", "RIGHT"])})
        out.append({"op": "project", "src": {"op": "concat_rows", "src": ext(ta, wops, True), "b": ext(tb, wops, True), "id_column": "src", "a_name": "l", "b_name": "r"},
                    "ops": {"s": "q.max()", "n": "_size()"}, "group_by": ["src"]})
    return out


def generate(rng, n, deep=False, share_bias=False):
    """the case stream: ~45% random pipelines over tables with few or no nulls (mostly insensitive), ~10% random pipelines over
    tables with many nulls, ~30% own shapes (merging, pruning, shared sub-pipelines, joins, limits, ties), ~15% the stream that
    deliberately reaches each convention case; 8% of all cases run over empty tables"""
    cases, tries = [], 0
    depth = (1, 7) if deep else (1, 5)
    while len(cases) < n and tries < n * 30:
        tries += 1
        r = rng.random()
        empty = rng.random() < 0.08
        try:
            if r < 0.55:
                nr = rng.choice([0.0, 0.0, 0.05, 0.1]) if r < 0.45 else rng.choice([0.3, 0.5])
                c = X.gen_case(rng, depth=depth, null_rate=nr, nrows=0 if empty else None)
                if c is not None:
                    c.stream = "random" if r < 0.45 else "random_nulls"
                    cases.append(c)
            elif r < 0.85:
                if share_bias and rng.random() < 0.4:
                    tabs = gen_tables(rng, rng.choice([0.0, 0.0, 0.1, 0.3]), types=("int", "float"), empty=empty)
                    ss = pg_path_scripts(rng, tabs)
                    for s in rng.sample(ss, min(6, len(ss))):
                        try:
                            cases.append(make_case(s, tabs, "postgres_paths"))
                        except Exception:
                            pass
                    continue
                if rng.random() < (0.75 if share_bias else 0.35):
                    tabs = gen_tables(rng, rng.choice([0.0, 0.0, 0.1, 0.3]), empty=empty)
                    ss = dag_scripts(rng, tabs)
                    for s in (ss[:6] if share_bias else rng.sample(ss, min(3, len(ss)))):
                        try:
                            cases.append(make_case(s, tabs, "shared_subpipeline"))
                        except Exception:
                            pass
                    continue
                tabs = gen_tables(rng, rng.choice([0.0, 0.0, 0.1, 0.3]), types=("int", "float"), empty=empty)
                for s in shaped_scripts(rng, tabs):
                    cases.append(make_case(s, tabs, "shaped"))
            else:
                tabs = gen_tables(rng, rng.choice([0.15, 0.3, 0.5]), types=("int", "float"))
                ss = sensitive_scripts(rng, tabs)
                for s in rng.sample(ss, min(3, len(ss))):
                    cases.append(make_case(s, tabs, "sensitive"))
        except Exception:
            continue
    return cases[:n]


def fixed_near_cases(rng):
    """every run: all `near` shapes (sibling sub-queries differing in one place, combined by concat / join) on one table set"""
    out = []
    for _ in range(6):
        try:
            tabs = [pipes.gen_table(rng, f"d{i+1}", null_rate=0.0, nrows=5, types=("int", "float"), unique_col="uid") for i in range(2)]
            for sc in shaped_families(rng, tabs).get("near", []):
                try:
                    out.append(make_case(sc, tabs, "near_fixed"))
                except Exception:
                    pass
            if out:
                break
        except Exception:
            continue
    return out


# ------------------------------------------------------------------------------------------------ the check (C01 and C02)

def describe(case, variant, ra, rb, codes, ordered, why):
    return {"kind": "impl-violation", "case": case.json(), "variant": list(variant[:2]) + [variant[2]], "why": why, "row_order_compared": ordered,
            "pandas": None if ra is None else pipes.frame_to_json(ra), "sql": None if rb is None else pipes.frame_to_json(rb),
            "model_causes": [CAUSE[c] for c in strict_causes(codes or ())], "model_conventions_that_matter": fields(codes or ())}


def run_check(chk, prop, variants, n, corpus_cases, finding_cases, deep=False, engine_artifacts=(), share_bias=False):
    """variants[0] is the primary SQL variant (its results are tied to sem_gen fl_sqlite by correspondence);
    engine_artifacts: conventions of the executing engine that are NOT conventions of the dialect under test (C02: nulls_first_asc)"""
    rng = chk.rng
    T = {"t0": time.time()}
    cases = list(corpus_cases) + list(finding_cases) + fixed_near_cases(rng) + generate(rng, n, deep, share_bias)
    primary = variants[0]
    entries, rows = [], []
    for c in cases:
        ra, ea = c.result("pandas")
        if ra is None:
            chk.dist("pandas_raised")
            continue
        rb, eb = variant_result(c, primary)
        ordered = X.order_is_total(c.script, ra)
        entries.append((c, ordered))
        rows.append((c, ra, rb, eb, ordered))
    T["backends_s"] = round(time.time() - T["t0"], 1)
    codes, errors, sanity, unsup = classify(prop, entries)
    T["classify_s"] = round(time.time() - T["t0"] - T["backends_s"], 1)
    for k, v in unsup.items():
        chk.dist("outside_model:" + k, v)
    if errors:
        chk.corr_break("classification case files failed to compile", errors[0])
    for i in sanity:
        chk.corr_break("Model/SemStrictCases.v: an insensitive case on which the models disagree (contradicts the agreement theorem)", entries[i][0].json())
    # correspondence of the real backends with their models
    items = []
    for (c, ra, rb, eb, ordered) in rows:
        items.append((c, "pandas", ra))
        if rb is not None:
            items.append((c, "sqlite" if primary[1] == "sqlite" else "pgtext", rb))
    t1 = time.time()
    failing, nchecked, cerrors = X.sem_correspondence(chk, prop, items)
    T["correspondence_s"] = round(time.time() - t1, 1)
    bad = {}
    for i in failing:
        bad.setdefault(id(items[i][0]), set()).add(items[i][1])
    chk.cov["correspondence"] = {"cases": len(items), "checked_in_coq": nchecked, "disagreements": len(failing), "errors": cerrors[:2],
                                 "classified_in_coq": sum(1 for x in codes if x is not None)}
    chk.cov["traces_validated_against_impl"] = nchecked
    if cerrors:
        chk.corr_break("correspondence case files failed to compile", cerrors[0])
    nsens = nins = 0
    shrinks = 0
    code_of = {id(e[0]): cd for e, cd in zip(entries, codes)}
    for (c, ra, rb, eb, ordered), cd in zip(rows, codes):
        chk.count(c.key(), nontrivial=pipes.script_depth(c.script) >= 2)
        chk.dist("stream_" + getattr(c, "stream", "?"))
        chk.dist("depth_%d" % min(pipes.script_depth(c.script), 9))
        for o in set(pipes.script_ops(c.script)):
            chk.dist("op_" + o)
        if len(chk.cov["samples"]) < 3 and pipes.script_depth(c.script) >= 3:
            chk.sample(c.json())
        sql_backend = "sqlite" if primary[1] == "sqlite" else "pgtext"
        corr_ok = not (bad.get(id(c)) or set())
        rel = None if cd is None else relevant_causes(cd, ordered)
        if cd is None:
            chk.dist("class_outside_model")
        elif not rel:
            nins += 1
            chk.dist("class_insensitive")
        else:
            nsens += 1
            chk.dist("class_sensitive")
            for x in rel:
                chk.dist("cause_" + CAUSE[x])
        # --- all variants against Pandas
        for v in variants:
            rv, ev = variant_result(c, v)
            if rv is None:
                chk.dist(f"{v[0]}_raised")
                if cd is not None and not rel:
                    # Pandas evaluates the pipeline, no convention is involved, and the generated SQL does not run
                    chk.impl_violation(f"{v[0]}: the generated SQL fails ({ev}) on a pipeline Pandas evaluates; no convention case is reached",
                                       describe(c, v, ra, None, cd, ordered, ev),
                                       dict(shape_flags(c.script), cause="sql_error", variant=v[0], error=sql_error_class(ev)))
                continue
            why = pipes.frames_equiv(ra, rv, check_col_order=X.defines_column_order(c.script), check_row_order=ordered)
            if not why:
                chk.dist(f"{v[0]}_same")
                continue
            chk.dist(f"{v[0]}_differs")
            if cd is None:
                chk.dist("difference_outside_model")          # cannot be classified: counted, reported in the evidence only
                continue
            if not rel:
                # no convention case is reached: nothing can excuse a difference
                small, sra, srv, sord = c, ra, rv, ordered
                if shrinks < 3:
                    shrinks += 1

                    def fails(cc, v=v):
                        a, _ = cc.result("pandas")
                        b, _ = variant_result(cc, v)
                        return a is not None and b is not None and pipes.frames_equiv(a, b, check_col_order=X.defines_column_order(cc.script),
                                                                                     check_row_order=X.order_is_total(cc.script, a)) is not None
                    try:
                        cand = X.shrink_case(c, fails)
                        cand.stream = getattr(c, "stream", "?")
                        a2, _ = cand.result("pandas")
                        o2 = X.order_is_total(cand.script, a2)
                        cd2, e2, _, _ = classify(prop + "s", [(cand, o2)])
                        if cd2[0] is not None and not relevant_causes(cd2[0], o2):      # still insensitive: report the smaller case
                            small, sra, srv, sord = cand, a2, variant_result(cand, v)[0], o2
                    except Exception:
                        pass
                why2 = pipes.frames_equiv(sra, srv, check_col_order=X.defines_column_order(small.script), check_row_order=sord)
                chk.impl_violation(f"{v[0]} and Pandas return different tables ({why2}) although no convention case is reached (insensitive input)",
                                   describe(small, v, sra, srv, cd, sord, why2), dict(shape_flags(c.script), cause="insensitive", variant=v[0]))
                continue
            # a convention case is reached
            explained = corr_ok and (100 in cd or (ordered and 101 in cd))
            # no single convention accounts for it (e.g. a null comparison inside an `and` needs cmp3 AND logic3): attribute it to the
            # conventions of the reached causes in which the flavours really differ
            fs = fields(cd) or sorted({CAUSE_FIELD[x] for x in rel if x in CAUSE_FIELD} & differing_fields())
            if not explained and 9 in strict_causes(cd):
                # a limit / an order-sensitive window over tied keys: the result is under-determined (which of the tied rows comes first is
                # not defined by the pipeline); the generators avoid it, a stray case is counted
                chk.dist("under_determined_by_ties")
                continue
            if not explained:
                chk.impl_violation(f"{v[0]} and Pandas differ ({why}); convention cases are reached ({[CAUSE[x] for x in rel]}) but the models do not explain the difference",
                                   describe(c, v, ra, rv, cd, ordered, why), dict(shape_flags(c.script), cause="unexplained", variant=v[0]))
                continue
            if not fs:
                chk.impl_violation(f"{v[0]} and Pandas differ ({why}); the models differ too but no single convention accounts for it",
                                   describe(c, v, ra, rv, cd, ordered, why), {"cause": "unattributed", "variant": v[0]})
            for f in fs:
                if f in ACCEPTED:
                    chk.dist("accepted_convention_" + f)
                elif f in engine_artifacts:
                    chk.dist("engine_convention_" + f)
                else:
                    chk.impl_violation(f"{v[0]} and Pandas differ ({why}): convention {f}", describe(c, v, ra, rv, cd, ordered, why),
                                       {"cause": f, "explained_by_model": True})
    # correspondence failures are breaks (the search above has already run the oracle on exactly those cases)
    for i in failing:
        c, b, res = items[i]
        cd = code_of.get(id(c))
        if cd is not None and 9 in cd:
            chk.dist("under_determined_by_ties_model")          # the model breaks ties by input order, a backend need not
            continue
        chk.corr_break(f"Model/Sem.v (sem_gen {X.FLAVOR[b]}) and the {b} backend disagree", X.describe(c, b, res, None))
    T.pop("t0")
    chk.cov["timing"] = T
    chk.cov["oracle"] = {"cases": len(rows), "insensitive": nins, "sensitive": nsens,
                         "insensitive_fraction": round(nins / max(1, nins + nsens), 3)}
    return rows, codes


def replay_case(r, variants):
    """re-run a replay file: 1 if Pandas and the SQL variant still differ (or the SQL still fails)"""
    if "case" not in r:
        print(json.dumps(r, indent=1)[:3000])
        return 1
    c = X.case_from_json(r["case"])
    name = (r.get("variant") or [variants[0][0]])[0]
    v = next((x for x in variants if x[0] == name), variants[0])
    ra, ea = c.result("pandas")
    rv, ev = variant_result(c, v)
    if ra is None:
        print("pandas raised:", ea)
        return 0
    if rv is None:
        print(f"{v[0]} raised: {ev}")
        return 1
    why = pipes.frames_equiv(ra, rv, check_col_order=X.defines_column_order(c.script), check_row_order=X.order_is_total(c.script, ra))
    print("pandas:", pipes.frame_to_json(ra))
    print(f"{v[0]}:", pipes.frame_to_json(rv))
    print(why or "same")
    return 1 if why else 0
