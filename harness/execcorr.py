"""Shared executor-level machinery for the pipeline properties (C01 C02 C03 C08 C09 C15 C16 C18 C27):
random pipelines over random tables (harness/pipes.py), evaluation on every backend, and the correspondence of each
backend with the reference semantics Model/Sem.v evaluated under that backend's flavour (harness/semconv.py).

Backends
  pandas   ops.eval on Pandas frames                                   model: sem_gen fl_pandas
  sqlite   SQLiteModel.to_sql executed on in-memory SQLite              model: sem_gen fl_sqlite
  pgtext   PostgreSQLModel.to_sql executed on SQLite 3.40 (+ shims)     model: sem_gen fl_sqlite  (the ENGINE is SQLite)
  polars   ops.eval on eager Polars frames                              model: sem_gen fl_polars
  pllazy   ops.eval on lazy Polars frames, collected                    model: sem_gen fl_polars
A backend that raises is recorded as such (raising is never a disagreement by itself)."""
import math, sqlite3, warnings
import numpy as np
import pandas as pd

import lib, pipes, semconv

warnings.filterwarnings("ignore")

FLAVOR = {"pandas": "fl_pandas", "sqlite": "fl_sqlite", "pgtext": "fl_sqlite", "polars": "fl_polars", "pllazy": "fl_polars"}
ALL_BACKENDS = ("pandas", "sqlite", "pgtext", "polars", "pllazy")


class Case:
    """one generated pipeline with its tables"""

    def __init__(self, script, tabs, ops):
        self.script, self.tabs, self.ops = script, tabs, ops
        self.tables = {t["name"]: t for t in tabs}
        used = pipes.script_tables(script)
        self.frames = {t["name"]: frame_with_extras(t) for t in tabs if t["name"] in used}
        self._res = {}

    def json(self):
        return {"script": pipes.to_json(self.script), "tables": [dict({"name": t["name"], "spec": [list(x) for x in t["spec"]], "rows": t["rows"]},
                                                                       **({"extra": t["extra"]} if t.get("extra") else {}))
                                                                  for t in self.tabs if t["name"] in self.frames]}

    def key(self):
        import json
        return json.dumps(self.json(), sort_keys=True, default=str)

    def result(self, backend):
        """(frame | None, error text | None); cached"""
        if backend not in self._res:
            try:
                self._res[backend] = (eval_backend(self.ops, self.frames, backend), None)
            except Exception as e:            # noqa
                self._res[backend] = (None, f"{type(e).__name__}: {str(e)[:160]}")
        return self._res[backend]


def frame_with_extras(t):
    """the stored table: the declared columns plus, optionally, columns the TableDescription does NOT declare (t["extra"] =
    [[name, type, values]]); a pipeline must never see or return those"""
    f = pipes.table_frame(t)
    for name, ty, vals in t.get("extra") or []:
        f[name] = pipes.make_frame([(name, ty)], [[v] for v in vals])[name] if len(vals) else pipes.make_frame([(name, ty)], [])[name]
    return f


def case_from_json(j):
    tabs = [dict({"name": t["name"], "spec": [tuple(x) for x in t["spec"]], "rows": t["rows"]}, **({"extra": t["extra"]} if t.get("extra") else {}))
            for t in j["tables"]]
    ops = pipes.build(j["script"], {t["name"]: t for t in tabs})
    return Case(j["script"], tabs, ops)


def gen_case(rng, *, features=None, depth=(1, 4), ntables=2, null_rate=0.15, nrows=None, types=("int", "float", "str"),
             total_orders=True, unique_col="uid", tries=20, extra_rate=0.0):
    """a random pipeline the real builder accepts (None if none was found in `tries` draws)"""
    for _ in range(tries):
        tabs = [pipes.gen_table(rng, f"d{i+1}", null_rate=null_rate, nrows=nrows, types=types, unique_col=unique_col) for i in range(ntables)]
        for t in tabs:
            if rng.random() < extra_rate:       # the stored table is wider than its description
                ty = rng.choice(["int", "str"])
                t["extra"] = [["zz_undeclared", ty, [pipes.gen_value(rng, ty, 0.2) for _ in t["rows"]]]]
        g = pipes.Gen(rng, tabs, features=features, total_orders=total_orders)
        s, colty, order = g.pipeline(rng.randint(*depth))
        if s["op"] == "table":
            continue
        try:
            ops = pipes.build(s, {t["name"]: t for t in tabs})
        except Exception:
            continue
        return Case(s, tabs, ops)
    return None


# ------------------------------------------------------------------------------------------------ backends

def _pg_shims(conn):
    """functions PostgreSQL text uses that SQLite lacks (SQLite 3.40 has LN/POWER/CEILING only with math functions compiled in)"""
    def ln(x):
        return None if x is None or x <= 0 else math.log(x)
    for name, n, f in (("LN", 1, ln), ("POWER", 2, lambda a, b: None if a is None or b is None else float(a) ** float(b)),
                       ("CEILING", 1, lambda x: None if x is None else float(math.ceil(x)))):
        try:
            conn.create_function(name, n, f)
        except Exception:
            pass


def eval_sql(ops, frames, dialect="sqlite", sql=None, options=None):
    import data_algebra.SQLite, data_algebra.PostgreSQL
    h = data_algebra.SQLite.example_handle()
    try:
        for k, v in frames.items():
            h.insert_table(v, table_name=k, allow_overwrite=True)
        if sql is None:
            model = h.db_model if dialect == "sqlite" else data_algebra.PostgreSQL.PostgreSQLModel()
            sql = model.to_sql(ops, sql_format_options=options) if options is not None else model.to_sql(ops)
        if dialect != "sqlite":
            _pg_shims(h.conn)
        return h.read_query(sql)
    finally:
        h.close()


def eval_backend(ops, frames, backend):
    if backend == "pandas":
        return ops.eval({k: v.copy() for k, v in frames.items()})
    if backend == "sqlite":
        return eval_sql(ops, frames, "sqlite")
    if backend == "pgtext":
        return eval_sql(ops, frames, "postgres")
    import polars as pl
    if backend == "polars":
        r = ops.eval({k: pl.from_pandas(v) for k, v in frames.items()})
    elif backend == "pllazy":
        r = ops.eval({k: pl.from_pandas(v).lazy() for k, v in frames.items()})
        if isinstance(r, pl.LazyFrame):
            r = r.collect()
    else:
        raise ValueError(backend)
    return r.to_pandas()


# ------------------------------------------------------------------------------------------------ helpers on results

def final_order(script):
    """(columns, reverse, limit) when the pipeline ends in order_rows, else None"""
    if script["op"] == "order_rows":
        return list(script["columns"]), list(script.get("reverse") or []), script.get("limit")
    return None


def order_is_total(script, frame):
    """True when the final order_rows keys are pairwise distinct and non-null in `frame` (so the row order is determined)"""
    fo = final_order(script)
    if fo is None or frame is None:
        return False
    cols = [c for c in fo[0] if c in frame.columns]
    if len(cols) != len(fo[0]):
        return False
    keys = [tuple(pipes.norm_cell(v) for v in r) for r in frame[cols].to_numpy(dtype=object)]
    if any(v is None for k in keys for v in k):
        return False              # null placement differs between backends (a listed convention, see C18 / C01)
    return len(set(keys)) == len(keys)


def defines_column_order(script):
    return script["op"] == "select_columns"


# ------------------------------------------------------------------------------------------------ correspondence with Model/Sem.v

def sem_correspondence(chk, name, items, per_file=60):
    """items: [(case, backend, result_frame)]  ->  list of indices of `items` on which sem_gen <flavour> disagrees with the
    observed result.  Unsupported constructs are skipped (counted in chk.dist)."""
    terms, index = [], []
    for i, (case, backend, res) in enumerate(items):
        if res is None:
            continue
        try:
            terms.append(semconv.case_term(case.ops, case.frames, res, ordered=order_is_total(case.script, res),
                                           colorder=defines_column_order(case.script), flavor=FLAVOR[backend]))
            index.append(i)
        except semconv.Unsupported as u:
            chk.dist("sem_unsupported:" + str(u).split()[0])
    if not terms:
        return [], 0, []
    failing, errors, nchecked = semconv.run_sem_cases(name, terms, per_file=per_file)
    return [index[k] for k in failing if k < len(index)], nchecked, errors


def describe(case, backend, res, err):
    d = case.json()
    d.update({"backend": backend, "observed": None if res is None else pipes.frame_to_json(res), "error": err})
    return d


# ------------------------------------------------------------------------------------------------ shrinking

def sub_scripts(s, acc=None):
    acc = [] if acc is None else acc
    if s["op"] != "table":
        sub_scripts(s["src"], acc)
        if "b" in s:
            sub_scripts(s["b"], acc)
    acc.append(s)
    return acc


def shrink_case(case, fails, max_steps=120):
    """smaller case on which `fails(case)` still holds: first a sub-pipeline, then fewer rows per table"""
    best = case
    steps = 0
    for s in sorted(sub_scripts(case.script), key=pipes.script_depth):
        if s is case.script or s["op"] == "table":
            continue
        steps += 1
        if steps > max_steps:
            break
        try:
            c2 = Case(s, case.tabs, pipes.build(s, case.tables))
            if fails(c2):
                best = c2
                break
        except Exception:
            continue
    for t in list(best.tabs):
        if t["name"] not in best.frames:
            continue

        def f(rows, t=t):
            tabs2 = [dict(x, rows=rows) if x["name"] == t["name"] else x for x in best.tabs]
            try:
                return fails(Case(best.script, tabs2, pipes.build(best.script, {x["name"]: x for x in tabs2})))
            except Exception:
                return False
        rows = lib.shrink_list(t["rows"], f, max_steps=60)
        if len(rows) < len(t["rows"]):
            tabs2 = [dict(x, rows=rows) if x["name"] == t["name"] else x for x in best.tabs]
            best = Case(best.script, tabs2, pipes.build(best.script, {x["name"]: x for x in tabs2}))
    return best
