"""C01 -- SQLite SQL computes the same table as the Pandas executor.
proof:  Props/C01.v over Model/Sem.v + Model/SemStrict.v: the evaluator `sem_gen fl` is instrumented (`causes fl p e`) to name
        every place where the data reaches a convention in which backends differ; on every pipeline and input where no such case
        is reached ALL flavours compute the same table (unbounded, induction over the operator tree); one `_refuted` witness per
        convention shows the unguarded statement is false for the faithful models.
tie:    on every run each Pandas result is compared with sem_gen fl_pandas and each SQLite result with sem_gen fl_sqlite inside
        Coq (execcorr.sem_correspondence), and every case is classified inside Coq (Model/SemStrictCases.v).
oracle: on the real code: Pandas result vs the result of to_sql() run on SQLite, with the suite's rule (same column set, same
        multiset of rows, same row order after a final total order_rows, floats 1e-8 relative, null = NaN).  A difference on an
        insensitive case is a violation; a difference on a sensitive case must be explained by the two models and is matched by
        the convention that causes it against the listed findings (the property's own accepted convention is only counted)."""
import json, os, glob
import lib, pipes, execcorr as X, semstrict as SS

N = {"quick": 110, "thorough": 1000}
VARIANTS = [("sqlite", "sqlite", None)]


def load_cases(prop):
    corpus, findings = [], []
    for f in sorted(glob.glob(os.path.join(lib.ROOT, "corpus", prop, "*.json"))):
        try:
            c = X.case_from_json(json.load(open(f))["case"])
            c.stream = "corpus"
            corpus.append(c)
        except Exception:
            pass
    for f in lib.load_known()["findings"]:
        if f["property"] == prop and isinstance(f.get("witness"), dict) and "script" in f["witness"]:
            try:
                c = X.case_from_json(f["witness"])
                c.stream = "finding_witness"
                findings.append(c)
            except Exception:
                pass
    return corpus, findings


def run(chk):
    chk.prove([], extra_vo=["theories/Model/SemCases.vo", "theories/Model/SemStrictCases.vo"])
    chk.cov["trusted_base"] = [
        "Coq 8.16.1 kernel + vm_compute",
        "hand model Model/Sem.v: what Pandas evaluation (sem_gen fl_pandas) and the SQLite SQL path (sem_gen fl_sqlite) compute -- a behavioural "
        "model of the executors, modelled not verified; each is compared with the real backend's result on every generated case of every run",
        "Model/SemStrict.v is a specification-side instrument (no code is modelled by it); its classification is computed inside Coq",
        "harness/semconv.py (operator DAG -> Coq term), harness/pipes.py + harness/semstrict.py (generators), harness/execcorr.py (backends: "
        "pandas 3.0.5, SQLite 3.40.1 in memory through data_algebra.SQLite.example_handle)"]
    chk.assumptions = [
        "the agreement theorem is about the two MODELS; that the models are what the code computes is sampled (correspondence), not proved: "
        "sql_model.py / near_sql.py / pandas_base.py are not transcribed step by step",
        "scalar fragment of Model/Sem.v: + - * abs comparisons and/or is_null is_bad coalesce if_else maximum minimum fmax fmin; aggregates sum mean "
        "min max count size; windows cumsum cummax cummin shift _row_number and the group aggregates; the other catalogued methods are C05's, "
        "convert_records is C17's; integer / and % (accepted by the property) are outside the fragment",
        "a difference that the two models reproduce and that is caused only by `sum / count over no values` is the property's accepted convention",
        "row order is compared only after a final order_rows whose keys are distinct and non-null in the Pandas result",
        "a pipeline on which Pandas itself raises is not counted"]
    chk.cov["rule"] = ("corpus + stored witnesses of the listed findings, then ~45% random pipelines (depth 1..5 quick / 1..7 thorough, all eleven operator kinds, 2 tables of 0..8 "
                       "rows with duplicates, null rate 0..0.1), ~10% the same with null rate 0.3..0.5, ~30% own shapes (extend chains the SQL generator merges or must "
                       "keep apart, pruning of unused columns and aggregates, a sub-pipeline shared by both sides of a join / concat, joins of sub-pipelines of all four "
                       "types, order_rows with limit under further steps, ties, a window whose order / partition column is redefined by the extend directly below it, "
                       "concat_rows of two different pipelines whose SQL steps list the columns in different orders), ~15% pipelines that deliberately reach each convention case; 8% on empty tables; "
                       "non-trivial = depth >= 2; distinct by script + tables")
    corpus, findings = load_cases("C01")
    SS.run_check(chk, "C01", VARIANTS, N[chk.tier], corpus, findings, deep=(chk.tier == "thorough"))


def replay(path):
    return SS.replay_case(json.load(open(path)), VARIANTS)
