"""C17 -- record transforms are invertible and compose as documented.
proof:  Props/C17.v about the hand model Model/CData.v (RecordSpecification / RecordMap of cdata.py and the Pandas
        realisation of blocks_to_rowrecs / rowrecs_to_blocks in pandas_base.py, transcribed step by step)
tie:    correspondence: constructor accept/reject and derived column lists, RecordMap.transform results on Pandas
        (exact columns, exact row order), inverse(), example_input(), compose() -- compared inside Coq (vm_compute)
oracle: on the REAL code, from the property text: (a) transform == the layout computed directly from the records,
        (b) inverse round trip both ways, (c) compose()/>> == sequential application, (d) Pandas == Polars"""
import ast, json, os, glob, math, warnings
from fractions import Fraction
import lib
from lib import clist, cstr, cbool, copt

warnings.filterwarnings("ignore")
N = {"quick": 50, "thorough": 450}          # worlds (each world: 2 layouts, ~10 transforms, ~6 composites, 2 backends)
N_MALFORMED = {"quick": 180, "thorough": 1500}


# ---------------------------------------------------------------------------------------------- values and frames
def canon(v):
    """cell -> None | bool | Fraction | str   (NaN/None/NA/NaT -> None; every number -> exact rational)"""
    if v is None:
        return None
    if isinstance(v, str):
        return v
    try:
        import numpy, pandas
        if v is pandas.NA or v is pandas.NaT:
            return None
        if isinstance(v, (bool, numpy.bool_)):
            return bool(v)
        if isinstance(v, (int, numpy.integer)):
            return Fraction(int(v))
        if isinstance(v, (float, numpy.floating)):
            if math.isnan(v):
                return None
            if math.isinf(v):
                return "<inf>" if v > 0 else "<-inf>"
            return Fraction(float(v))
    except ImportError:
        pass
    if isinstance(v, Fraction):
        return v
    return "<%s %r>" % (type(v).__name__, v)


def jsonable(v):
    if isinstance(v, Fraction):
        return int(v) if v.denominator == 1 else float(v)
    return v


def native_col(vals):
    """a column of canonical or raw cells -> plain Python cells of one numeric kind (float when any cell is fractional)"""
    vals = [jsonable(v) for v in vals]
    if any(isinstance(v, float) for v in vals):
        vals = [float(v) if isinstance(v, int) and not isinstance(v, bool) else v for v in vals]
    return vals


def cval(v):
    v = canon(v)
    if v is None:
        return "VNull"
    if isinstance(v, bool):
        return "(VBool %s)" % cbool(v)
    if isinstance(v, Fraction):
        return "(VNum ((%d) # %d))" % (v.numerator, v.denominator)
    return "(VStr %s)" % cstr(v)


def crow(r):
    return clist([cval(v) for v in r])


def cstrs(l):
    return clist([cstr(s) for s in l])


def ctable(t):
    return "(mktable %s %s)" % (cstrs(t["cols"]), clist([crow(r) for r in t["rows"]]))


def to_pandas(t):
    import pandas as pd
    cols = t["cols"]
    if len(set(cols)) != len(cols):
        return pd.DataFrame([[jsonable(v) for v in r] for r in t["rows"]], columns=cols)
    return pd.DataFrame({c: native_col([r[j] for r in t["rows"]]) for j, c in enumerate(cols)})


def to_polars(t):
    import polars as pl
    return pl.DataFrame({c: native_col([r[j] for r in t["rows"]]) for j, c in enumerate(t["cols"])})


def from_frame(df):
    """frame -> {"cols", "rows"} with canonical cells; non-string labels are kept as they are (-> junk)"""
    import pandas as pd
    if isinstance(df, pd.DataFrame):
        cols = list(df.columns)
        rows = [[canon(df.iloc[i, j]) for j in range(df.shape[1])] for i in range(df.shape[0])]
        return {"cols": cols, "rows": rows}
    cols = list(df.columns)
    return {"cols": cols, "rows": [[canon(v) for v in r] for r in df.rows()]}


def sort_key(v):
    if v is None:
        return (9, 0)
    if isinstance(v, bool):
        return (1, int(v))
    if isinstance(v, Fraction):
        return (1, v)
    return (3, v)


def cell_eq(a, b):
    if a is None or b is None:
        return a is None and b is None
    if isinstance(a, str) or isinstance(b, str):
        return a == b
    fa, fb = Fraction(a), Fraction(b)          # bool is a number here (value equivalence of DESIGN 3.3)
    return abs(fa - fb) <= Fraction(1, 10 ** 8) * max(abs(fa), abs(fb), 1)


def equivalent(a, b):
    """equivalent_frames-style: column order and row order ignored, null = NaN, 1e-8 relative rule; None when equal,
    else a short description"""
    if any(not isinstance(c, str) for c in a["cols"]) or any(not isinstance(c, str) for c in b["cols"]):
        return "non-string column labels"
    if sorted(a["cols"]) != sorted(b["cols"]):
        return "columns differ: %s vs %s" % (sorted(a["cols"]), sorted(b["cols"]))
    if len(set(a["cols"])) != len(a["cols"]):
        return "duplicate column labels"
    order = sorted(a["cols"])
    ia = [a["cols"].index(c) for c in order]
    ib = [b["cols"].index(c) for c in order]
    ra = sorted(([canon(r[i]) for i in ia] for r in a["rows"]), key=lambda r: [sort_key(v) for v in r])
    rb = sorted(([canon(r[i]) for i in ib] for r in b["rows"]), key=lambda r: [sort_key(v) for v in r])
    if len(ra) != len(rb):
        return "row counts differ: %d vs %d" % (len(ra), len(rb))
    for x, y in zip(ra, rb):
        if not all(cell_eq(p, q) for p, q in zip(x, y)):
            return "rows differ: %s vs %s" % ([jsonable(v) for v in x], [jsonable(v) for v in y])
    return None


def restrict(t, cols):
    idx = [t["cols"].index(c) for c in cols]
    return {"cols": list(cols), "rows": [[r[i] for i in idx] for r in t["rows"]]}


# ---------------------------------------------------------------------------------------------- the real code
def build_spec(a):
    import pandas as pd
    from data_algebra.cdata import RecordSpecification
    ct = pd.DataFrame([list(r) for r in a["rows"]], columns=a["cols"])
    return RecordSpecification(ct, record_keys=list(a["rk"]), control_table_keys=(None if a["ctk"] is None else list(a["ctk"])),
                               strict=a["strict"])


def build_map(m):
    from data_algebra.cdata import RecordMap
    bi = None if m["bin"] is None else build_spec(m["bin"])
    bo = None if m["bout"] is None else build_spec(m["bout"])
    return RecordMap(blocks_in=bi, blocks_out=bo, strict=m["strict"])


def frame_for(backend, t):
    return to_pandas(t) if backend == "pandas" else to_polars(t)


def exc_name(e):
    """class name; exceptions raised by Polars itself are marked (Polars may raise: that is not a disagreement)"""
    mod = type(e).__module__ or ""
    return ("polars." if mod.split(".")[0] == "polars" else "") + type(e).__name__


def observe_transform(mp, t, backend, raw=None):
    """-> (status, payload, frame): ("ok", table, result frame) | ("raise", class name, None) | ("junk", table, frame).
    `raw`: a frame produced by a previous transform, passed on as it is (sequential application keeps the dtypes)"""
    if raw is not None:
        df = raw
    else:
        try:
            df = frame_for(backend, t)
        except Exception as e:
            return ("raise-constructing-frame", exc_name(e), None)
    try:
        r = mp.transform(df)
    except Exception as e:
        return ("raise", exc_name(e), None)
    o = from_frame(r)
    if any(not isinstance(c, str) for c in o["cols"]):
        return ("junk", {"cols": [str(c) for c in o["cols"]], "rows": o["rows"]}, r)
    return ("ok", o, r)


def polars_own_raise(o):
    return o[0] != "ok" and isinstance(o[1], str) and (o[1].startswith("polars.") or o[1] in ("TypeError",) or o[0] == "raise-constructing-frame")


def spec_obj_args(s):
    """a RecordSpecification read back field by field"""
    ct = from_frame(s.control_table)
    return {"rk": list(s.record_keys), "cols": ct["cols"], "rows": ct["rows"], "ctk": list(s.control_table_keys), "strict": bool(s.strict)}


def compose_suffix():
    """the value_suffix with which RecordMap.compose calls example_input, read from the source (fail-closed)"""
    src = open(os.path.join(lib.REPO, "data_algebra", "cdata.py")).read()
    tree = ast.parse(src)
    cls = [n for n in tree.body if isinstance(n, ast.ClassDef) and n.name == "RecordMap"]
    if len(cls) != 1:
        raise ValueError("class RecordMap not found")
    fns = {n.name: n for n in cls[0].body if isinstance(n, ast.FunctionDef)}
    ex, co = fns["example_input"], fns["compose"]
    defaults = {}
    for a, d in zip(ex.args.kwonlyargs, ex.args.kw_defaults):
        if d is not None and isinstance(d, ast.Constant):
            defaults[a.arg] = d.value
    calls = [n for n in ast.walk(co) if isinstance(n, ast.Call) and isinstance(n.func, ast.Attribute) and n.func.attr == "example_input"]
    if len(calls) != 1:
        raise ValueError("compose: expected exactly one example_input call, found %d" % len(calls))
    kw = {k.arg: k.value for k in calls[0].keywords}
    if calls[0].args or any(k not in ("value_suffix",) for k in kw):
        raise ValueError("compose: unsupported arguments to example_input")
    if "value_suffix" in kw:
        if not (isinstance(kw["value_suffix"], ast.Constant) and isinstance(kw["value_suffix"].value, str)):
            raise ValueError("compose: value_suffix is not a string constant")
        sfx = kw["value_suffix"].value
    else:
        sfx = defaults.get("value_suffix")
    if not isinstance(sfx, str) or defaults.get("record_key_suffix") != " record key":
        raise ValueError("example_input defaults not recognised")
    return sfx


# ---------------------------------------------------------------------------------------------- generation
LETTERS = "abcdefghijklmnopqrstuvwxyz"
ODD = ["B", "Zed", "a b", "été", 'q"t', "0", "_x", "A1", "中"]


def fresh_names(rng, n, taken, odd_rate=0.1):
    out = []
    while len(out) < n:
        if rng.random() < odd_rate:
            s = rng.choice(ODD) + rng.choice(["", "1", "_"])
        else:
            s = "".join(rng.choice(LETTERS) for _ in range(rng.randint(1, 3))) + rng.choice(["", "1", "2", "_v"])
        if s not in taken and s not in out:
            out.append(s)
    return out


def gen_value(rng, ty):
    if ty == "int":
        return rng.randint(-5, 9)
    if ty == "float":
        return rng.randint(-20, 20) / 4.0 + 0.25
    if ty == "bool":
        return rng.random() < 0.5
    return rng.choice(["", "p", "q", "zz", "A b", "ü", "7", "NaN", "x'y"])


def gen_key_values(rng, ty, n):
    """n distinct non-null key values of one type"""
    out = []
    while len(out) < n:
        v = rng.randint(-3, 12) if ty == "int" else rng.choice(["a", "b", "B", "c1", "k", "Z", "aa", "é", "10", "9", "r s"]) + rng.choice(["", "", "x", "0"])
        if v not in out:
            out.append(v)
    return out


def gen_layout(rng, names, rk, forced_rows=None):
    """a control table whose value cells are exactly `names` (each once)"""
    n = len(names)
    divs = [d for d in range(2, n + 1) if n % d == 0 and d <= 6]
    nrows = forced_rows or rng.choice(divs)
    nvc = n // nrows
    nck = rng.choice([1, 1, 2])
    taken = set(rk)
    hdr = fresh_names(rng, nck + nvc, taken)
    ck, vc = hdr[:nck], hdr[nck:]
    cells = list(names)
    rng.shuffle(cells)
    keycols = []
    if nck == 1:
        keycols.append(gen_key_values(rng, rng.choice(["str", "str", "int"]), nrows))
    else:
        # two key columns: tuples distinct, single columns may repeat
        t1, t2 = rng.choice(["str", "int"]), rng.choice(["str", "int"])
        p1, p2 = gen_key_values(rng, t1, max(2, (nrows + 1) // 2)), gen_key_values(rng, t2, max(2, (nrows + 1) // 2))
        pairs = [(a, b) for a in p1 for b in p2]
        rng.shuffle(pairs)
        pairs = pairs[:nrows]
        keycols = [[p[0] for p in pairs], [p[1] for p in pairs]]
    colorder = list(range(nck + nvc))
    if rng.random() < 0.5:
        rng.shuffle(colorder)
    full = []           # rows in header order ck ++ vc
    for i in range(nrows):
        full.append([kc[i] for kc in keycols] + [cells[i * nvc + j] for j in range(nvc)])
    cols = [hdr[j] for j in colorder]
    rows = [[r[j] for j in colorder] for r in full]
    ctk = list(ck)
    if rng.random() < 0.3:
        ctk.reverse()
    return {"cols": cols, "rows": rows, "rk": list(rk), "ctk": ctk, "strict": True}


def relabel(rng, a):
    """the same control table with its value-cell names moved to other cells (same columns, same keys): reading blocks written
    for `a` through this specification re-labels the values"""
    ck = list(a["ctk"])
    pos = [(i, j) for i in range(len(a["rows"])) for j, c in enumerate(a["cols"]) if c not in ck]
    if len(pos) < 2:
        return None
    names = [a["rows"][i][j] for i, j in pos]
    k = rng.randrange(1, len(names))
    names = names[k:] + names[:k]
    b = {"cols": list(a["cols"]), "rows": [list(r) for r in a["rows"]], "rk": list(a["rk"]), "ctk": list(a["ctk"]), "strict": True}
    for (i, j), n in zip(pos, names):
        b["rows"][i][j] = n
    return b


def layout_parts(a):
    """(ck names as listed, vc names in table order, [(key tuple, {vc: cell name})])"""
    ck = list(a["ctk"])
    vc = [c for c in a["cols"] if c not in ck]
    out = []
    for r in a["rows"]:
        d = dict(zip(a["cols"], r))
        out.append((tuple(d[k] for k in ck), {c: d[c] for c in vc}))
    return ck, vc, out


def gen_world(rng, tier):
    nrk = rng.choice([0, 1, 1, 2, 2, 3])
    ncells = rng.choice([2, 3, 4, 4, 6, 6, 8, 9, 10, 12] + ([15, 16, 20] if tier == "thorough" else []))
    rk = fresh_names(rng, nrk, set(), odd_rate=0.05)
    names = fresh_names(rng, ncells, set(rk))
    A = gen_layout(rng, names, rk)
    B = gen_layout(rng, names, rk)
    # types: uniform / per value column of A / per cell
    plan = rng.random()
    _, vcA, partsA = layout_parts(A)
    types = {}
    tys = ["int", "float", "str", "str", "float", "bool"]
    # bool cells only when every cell is bool: pandas turns True into 1.0 when a bool column meets a numeric one (concat),
    # which is a dtype coercion of pandas, not a property of the record transform
    if plan < 0.45:
        t = rng.choice(tys)
        types = {n: t for n in names}
    elif plan < 0.8:
        tc = {c: rng.choice(tys[:5]) for c in vcA}
        for _, cellmap in partsA:
            for c, n in cellmap.items():
                types[n] = tc[c]
    else:
        types = {n: rng.choice(tys[:5]) for n in names}
    nrec = rng.choice([0, 1, 1, 2, 3, 4]) if nrk else rng.choice([0, 1, 1, 1])
    rkt = [rng.choice(["int", "str"]) for _ in rk]
    keys = []
    while len(keys) < nrec:
        k = tuple(gen_key_values(rng, t, 1)[0] if t == "str" else rng.randint(0, 4) for t in rkt)
        if k not in keys:
            keys.append(k)
    null_rate = rng.choice([0.0, 0.15, 0.4])
    recs = []
    for k in keys:
        recs.append((k, {n: (None if rng.random() < null_rate else gen_value(rng, types[n])) for n in names}))
    L = None
    if len(names) >= 3 and rng.random() < 0.35:
        # a layout over a proper subset of the names: A -> L is a strict map that DROPS values (it has no inverse)
        sub = [n for n in names if rng.random() < 0.6]
        while len(sub) < 2 or len(sub) == len(names) or all(len(sub) % d for d in range(2, 7)):
            sub = names[:rng.choice([k for k in range(2, len(names)) if any(k % d == 0 for d in range(2, 7))])]
        L = gen_layout(rng, sub, rk)
    return {"rk": rk, "names": names, "A": A, "B": B, "L": L, "recs": recs, "types": types}


def form_rows(w, rng=None, extra=False):
    cols = list(w["rk"]) + list(w["names"])
    rows = [list(k) + [cells[n] for n in w["names"]] for k, cells in w["recs"]]
    return shuffle_table({"cols": cols, "rows": rows}, rng, extra)


def form_blocks(w, a, rng=None, extra=False):
    ck, vc, parts = layout_parts(a)
    cols = list(w["rk"]) + ck + vc
    rows = []
    for k, cells in w["recs"]:
        for key, cellmap in parts:
            rows.append(list(k) + list(key) + [cells[cellmap[c]] for c in vc])
    return shuffle_table({"cols": cols, "rows": rows}, rng, extra)


def shuffle_table(t, rng, extra):
    if rng is None:
        return t
    idx = list(range(len(t["cols"])))
    rng.shuffle(idx)
    rows = [[r[i] for i in idx] for r in t["rows"]]
    rng.shuffle(rows)
    cols = [t["cols"][i] for i in idx]
    if extra and rng.random() < 0.3:
        cols.append("extra_col")
        rows = [r + [rng.randint(0, 9)] for r in rows]
    return {"cols": cols, "rows": rows}


def form(w, layout, rng=None, extra=False):
    return form_rows(w, rng, extra) if layout is None else form_blocks(w, layout, rng, extra)


# ---------------------------------------------------------------------------------------------- oracles on the real code
def jt(t):
    return {"cols": t["cols"], "rows": [[jsonable(canon(v)) for v in r] for r in t["rows"]]}


def map_shape(m):
    return ("rows" if m["bin"] is None else "blocks") + "->" + ("rows" if m["bout"] is None else "blocks")


def oracle_reference(m, data, expected, backend):
    """transform == the layout computed directly from the records"""
    try:
        mp = build_map(m)
    except Exception as e:
        return "constructor raised %s" % type(e).__name__
    o = observe_transform(mp, data, backend)
    if o[0] != "ok":
        return "transform: %s %s" % (o[0], o[1] if isinstance(o[1], str) else "")
    return equivalent(o[1], expected)


def oracle_roundtrip(m, data, backend):
    """inverse(): there and back returns the original table (restricted to the columns the map reads)"""
    try:
        mp = build_map(m)
        inv = mp.inverse()
    except Exception as e:
        return "constructor/inverse raised %s" % type(e).__name__
    o = observe_transform(mp, data, backend)
    if o[0] != "ok":
        return "transform: %s %s" % (o[0], o[1] if isinstance(o[1], str) else "")
    o2 = observe_transform(inv, o[1], backend, raw=o[2])
    if o2[0] != "ok":
        return "inverse transform: %s %s" % (o2[0], o2[1] if isinstance(o2[1], str) else "")
    return equivalent(o2[1], restrict(data, list(mp.columns_needed)))


def oracle_compose(m1, m2, data, backend, via):
    """m1.compose(m2) (or m2 >> m1) == m1.transform(m2.transform(.)).  Returns (status, detail); status in
    ok / none / seq-raises / compose-raises / differs"""
    mp1, mp2 = build_map(m1), build_map(m2)
    o = observe_transform(mp2, data, backend)
    if o[0] != "ok":
        return ("seq-raises", o[1] if isinstance(o[1], str) else o[0]), None
    o = observe_transform(mp1, o[1], backend, raw=o[2])
    if o[0] != "ok":
        return ("seq-raises", o[1] if isinstance(o[1], str) else o[0]), None
    seq = o[1]
    try:
        c = mp1.compose(mp2) if via == "compose" else (mp2 >> mp1)
    except Exception as e:
        return ("compose-raises", type(e).__name__), None
    if c is None:
        return ("none", ""), None
    oc = observe_transform(c, data, backend)
    leak = suffix_leak(c)
    if backend == "polars" and polars_own_raise(oc):
        return ("polars-raises", oc[1]), leak
    if oc[0] != "ok":
        return ("differs", "composite raises %s where the sequence returns a table" % (oc[1] if isinstance(oc[1], str) else oc[0])), leak
    d = equivalent(oc[1], seq)
    if d is not None:
        return ("differs", d), leak
    return ("ok", ""), leak


def suffix_leak(c):
    """the composite's control tables name row-record columns '<name> value' (the example's cell VALUES)"""
    try:
        for s in (c.blocks_in, c.blocks_out):
            if s is not None and any(str(k).endswith(" value") for k in s.content_keys):
                return True
    except Exception:
        pass
    return False


def oracle_agree(m, data):
    """Pandas and Polars agree.  Returns (status, detail): agree / polars-raises / both-raise / differs"""
    mp = build_map(m)
    a = observe_transform(mp, data, "pandas")
    b = observe_transform(mp, data, "polars")
    if a[0] != "ok":
        if b[0] != "ok":
            return ("both-raise", "")
        return ("differs", "pandas %s, polars returns a table" % a[0])
    if b[0] != "ok":
        return ("polars-raises", b[1] if isinstance(b[1], str) else b[0])
    d = equivalent(a[1], b[1])
    return ("agree", "") if d is None else ("differs", d)


def oracle_helpers(w, rng):
    """pivot_rowrecs_to_blocks / pivot_blocks_to_rowrecs (the SQL-unpivot/pivot conveniences): the documented layout
    (one block row per value column, key column = the column's name) and there-and-back"""
    from data_algebra.cdata import pivot_rowrecs_to_blocks, pivot_blocks_to_rowrecs
    kc, vc = "attr_key_col", "attr_val_col"
    if kc in w["names"] or vc in w["names"] or kc in w["rk"] or vc in w["rk"]:
        return None
    to_b = pivot_rowrecs_to_blocks(attribute_key_column=kc, attribute_value_column=vc, record_keys=list(w["rk"]), record_value_columns=list(w["names"]))
    to_r = pivot_blocks_to_rowrecs(attribute_key_column=kc, attribute_value_column=vc, record_keys=list(w["rk"]), record_value_columns=list(w["names"]))
    data = form_rows(w, rng)
    expected = {"cols": list(w["rk"]) + [kc, vc], "rows": [list(k) + [n, cells[n]] for k, cells in w["recs"] for n in w["names"]]}
    o = observe_transform(to_b, data, "pandas")
    if o[0] != "ok":
        return "pivot_rowrecs_to_blocks: transform %s" % o[0]
    d = equivalent(o[1], expected)
    if d is not None:
        return "pivot_rowrecs_to_blocks differs from the documented layout: " + d
    o2 = observe_transform(to_r, o[1], "pandas", raw=o[2])
    if o2[0] != "ok":
        return "pivot_blocks_to_rowrecs: transform %s" % o2[0]
    d = equivalent(o2[1], restrict(data, list(w["rk"]) + list(w["names"])))
    return None if d is None else "pivot_blocks_to_rowrecs(pivot_rowrecs_to_blocks(t)) differs from t: " + d


def shrink_rows(data, fails, rk=()):
    """fewest RECORDS (rows sharing a record-key tuple stay together, so complete blocks stay complete) on which
    fails(table) still holds"""
    ki = [data["cols"].index(k) for k in rk if k in data["cols"]]
    groups = {}
    for i, r in enumerate(data["rows"]):
        groups.setdefault(tuple(str(r[j]) for j in ki), []).append(i)
    gs = list(groups.values())

    def pick(sel):                       # the rows of the chosen records, in their original order
        keep = sorted(i for g in sel for i in g)
        return {"cols": data["cols"], "rows": [data["rows"][i] for i in keep]}
    sel = lib.shrink_list(gs, lambda sub: len(sub) > 0 and fails(pick(sub)), max_steps=60)
    return pick(sel)


def run_oracle(r):
    """re-run a stored failure (replay files, corpus files, known-finding witnesses) -> description or None"""
    k = r["oracle"]
    if k == "reference":
        return oracle_reference(r["map"], r["data"], r["expected"], r["backend"])
    if k == "roundtrip":
        return oracle_roundtrip(r["map"], r["data"], r["backend"])
    if k == "compose":
        (st, det), _ = oracle_compose(r["map1"], r["map2"], r["data"], r["backend"], r.get("via", "compose"))
        return det if st == "differs" else None
    if k == "agree":
        st, det = oracle_agree(r["map"], r["data"])
        return det if st == "differs" else None
    if k == "helpers":
        w = r["world"]
        return oracle_helpers({"rk": w["rk"], "names": w["names"], "recs": [(tuple(k), c) for k, c in w["recs"]]}, None)
    raise ValueError("unknown oracle " + k)


def spec_names(a):
    ck = a["ctk"] if a["ctk"] is not None else a["cols"][:1]
    return {r[j] for r in a["rows"] for j, c in enumerate(a["cols"]) if c not in ck}


def is_lossy(m):
    """a blocks -> blocks map whose output layout uses only some of the input layout's value names"""
    return m["bin"] is not None and m["bout"] is not None and spec_names(m["bout"]) < spec_names(m["bin"])


def compose_signature(r):
    _, leak = oracle_compose(r["map1"], r["map2"], r["data"], r["backend"], r.get("via", "compose"))
    shape = ("rows" if r["map2"]["bin"] is None else "blocks") + "->" + ("rows" if r["map1"]["bout"] is None else "blocks")
    return {"oracle": "compose", "composite": shape, "suffix_leak": bool(leak), "lossy": is_lossy(r["map2"])}


# ---------------------------------------------------------------------------------------------- Coq terms
def csarg(a):
    return "(%s, %s, %s, %s, %s)" % (cstrs(a["cols"]), clist([crow(r) for r in a["rows"]]), cstrs(a["rk"]),
                                     copt(None if a["ctk"] is None else cstrs(a["ctk"])), cbool(a["strict"]))


def cospec(s):
    return "(%s, %s, %s, %s, %s)" % (cstrs(s["rk"]), cstrs(s["cols"]), clist([crow(r) for r in s["rows"]]), cstrs(s["ctk"]), cbool(s["strict"]))


def comap(mp):
    return "(%s, %s, %s)" % (copt(None if mp.blocks_in is None else cospec(spec_obj_args(mp.blocks_in))),
                             copt(None if mp.blocks_out is None else cospec(spec_obj_args(mp.blocks_out))), cbool(bool(mp.strict)))


def cmapargs(m):
    return "%s %s %s" % (copt(None if m["bin"] is None else csarg(m["bin"])), copt(None if m["bout"] is None else csarg(m["bout"])), cbool(m["strict"]))


def term_transform(m, data, obs, exact):
    if obs[0] == "ok":
        o = "(OTab %s %s %s)" % (cstrs(obs[1]["cols"]), clist([crow(r) for r in obs[1]["rows"]]), cbool(exact))
    elif obs[0] == "junk":
        o = "OJunk"
    else:
        o = "ORaise"
    return "KTransform %s %s %s" % (cmapargs(m), ctable(data), o)


# ---------------------------------------------------------------------------------------------- malformed / degenerate stream
def gen_malformed(rng):
    """arguments of RecordSpecification that are degenerate, non-strict or ill-formed in one way"""
    nrk = rng.choice([0, 1, 2])
    rk = fresh_names(rng, nrk, set(), odd_rate=0.0)
    names = fresh_names(rng, rng.choice([2, 3, 4, 6]), set(rk), odd_rate=0.05)
    a = gen_layout(rng, names, rk)
    ck = list(a["ctk"])
    vc = [c for c in a["cols"] if c not in ck]
    how = rng.choice(["ok", "nonstrict-dup", "strict-dup", "dup-key-row", "null-key", "null-cell", "empty-cell", "nonstr-cell",
                      "rk-in-ctk", "rk-is-name", "unknown-ctk", "all-keys", "default-ctk", "one-row", "one-row-nokeys", "one-col",
                      "dup-cols", "nokeys-multirow", "nonstrict-unkeyed", "dup-rk", "rk-is-vc", "str-ctk", "nonstrict-ok", "dup-ctk"])

    def cell(i, c):
        return a["rows"][i][a["cols"].index(c)]

    def setcell(i, c, v):
        a["rows"][i][a["cols"].index(c)] = v
    if how in ("nonstrict-dup", "strict-dup"):
        setcell(0, vc[0], cell(1, vc[0]))
        a["strict"] = how == "strict-dup"
    elif how == "dup-key-row":
        for c in ck:
            setcell(1, c, cell(0, c))
        a["strict"] = rng.random() < 0.5
    elif how == "null-key":
        setcell(rng.randrange(len(a["rows"])), rng.choice(ck), None)
        a["strict"] = rng.random() < 0.7
    elif how == "null-cell":
        setcell(rng.randrange(len(a["rows"])), rng.choice(vc), None)
    elif how == "empty-cell":
        setcell(rng.randrange(len(a["rows"])), rng.choice(vc), "")
    elif how == "nonstr-cell":
        for i in range(len(a["rows"])):            # a whole numeric column (a single number in a string column stays an object)
            setcell(i, vc[0], i + 1)
    elif how == "rk-in-ctk":
        a["rk"] = a["rk"] + [ck[0]]
    elif how == "rk-is-name":
        a["rk"] = a["rk"] + [cell(0, vc[0])]
    elif how == "unknown-ctk":
        a["ctk"] = ck + ["nosuch"]
    elif how == "all-keys":
        a["ctk"] = list(a["cols"])
        a["strict"] = rng.random() < 0.5
    elif how == "default-ctk":
        a["ctk"] = None
    elif how == "one-row":
        a["rows"] = a["rows"][:1]
        if rng.random() < 0.5:
            a["ctk"] = None
    elif how == "one-row-nokeys":
        a["rows"] = a["rows"][:1]
        a["ctk"] = []
    elif how == "one-col":
        j = a["cols"].index(ck[0])
        a["cols"] = [ck[0]]
        a["rows"] = [[r[j]] for r in a["rows"]]
        a["ctk"] = [] if rng.random() < 0.5 else [ck[0]]
    elif how == "dup-cols":
        a["cols"] = a["cols"][:-1] + [a["cols"][0]]
    elif how == "nokeys-multirow":
        a["ctk"] = []
        a["strict"] = rng.random() < 0.5
    elif how == "nonstrict-unkeyed":
        a["strict"] = False
        for c in ck:
            setcell(1, c, cell(0, c))
    elif how == "dup-rk":
        a["rk"] = (a["rk"] or ["id"]) * 2
    elif how == "rk-is-vc":
        a["rk"] = a["rk"] + [vc[0]]
    elif how == "str-ctk":
        pass
    elif how == "nonstrict-ok":
        a["strict"] = False
    elif how == "dup-ctk":
        a["ctk"] = ck + [ck[0]]
    return how, a


# ---------------------------------------------------------------------------------------------- the check
def run(chk):
    rng = chk.rng
    tier = chk.tier
    chk.prove([], extra_vo=["theories/Model/CDataCases.vo", "theories/Model/CDataPolarsCases.vo"])
    chk.cov["trusted_base"] = [
        "Coq 8.16.1 kernel + vm_compute",
        "hand model Model/CData.v of cdata.py (RecordSpecification.__init__, RecordMap.__init__/transform/inverse/example_input/compose) and of "
        "pandas_base.py blocks_to_rowrecs / rowrecs_to_blocks / table_is_keyed_by_columns, transcribed step by step",
        "hand models of the pandas primitives used there (loc column selection, groupby sort=True dropna=True, sort_values stable with nulls last, "
        "left merge on the control keys, positional concat axis=1, concat axis=0): modelled, not verified; sampled by the correspondence on every run",
        "hand model Model/CDataPolars.v of polars_model.py blocks_to_rowrecs / rowrecs_to_blocks / table_is_keyed_by_columns and of the Polars primitives used there "
        "(select, group_by, partition_by maintain_order, sort nulls first, one-row left join, horizontal/vertical concat); dtypes are NOT modelled: cases in which "
        "Polars itself raises (SchemaError etc.) are skipped by the correspondence and counted",
        "harness/props/C17.py: value encoding (every number an exact rational in lowest terms, None/NaN -> VNull), the AST reader that extracts the "
        "value_suffix compose() passes to example_input (\"\" since /repo 031522a)",
    ]
    chk.assumptions = [
        "record keys and control-table keys of data are non-null (theorem hypotheses keyed_by / complete_blocks); null keys are exercised outside the guard and only counted",
        "record keys are pairwise distinct names and are not control-table column names (spec_extra: not checked by the constructor; the real code then raises inside transform)",
        "numeric key cells are in lowest terms (val_canon), so that pandas' value equality is Leibniz equality in the model",
        "cells are int / dyadic float / str / bool / null; one kind per key column",
    ]
    chk.cov["rule"] = ("random worlds: 0..3 record keys (int/str), 2..12 (thorough ..20) distinct value-cell names laid out in two independent control tables A and B "
                       "(1..2 control key columns int/str, 2..6 control rows, shuffled column order, keys listed in either order), 0..4 records with nulls; "
                       "for each world every map rows->A, A->rows, A->B, B->A, rows->B, B->rows runs on shuffled Pandas and Polars frames (30% with an extra column); "
                       "composites of every consecutive pair; plus a malformed/degenerate stream of constructor arguments (24 kinds). non-trivial = at least one record; distinct by content")
    try:
        sfx = compose_suffix()
        chk.cov["generated_files"]["compose value_suffix (ast of cdata.py RecordMap.compose / example_input)"] = {"status": "ok", "value": sfx}
        if sfx != "":
            # C17_compose_sound_* are theorems about compose with value_suffix "": they no longer speak about this source
            chk.proof_break("C17_compose_sound_* are proved for compose() calling example_input(value_suffix=\"\"); the source passes %r" % sfx,
                            "value_suffix read from data_algebra/cdata.py RecordMap.compose: %r" % sfx)
    except Exception as e:
        sfx = " value"
        chk.proof_break("translator: UNSUPPORTED data_algebra/cdata.py RecordMap.compose: %s" % e, str(e))
    terms, meta = [], []

    def add_term(t, m):
        terms.append(t); meta.append(m)
    pterms, pmeta = [], []

    def add_pl_term(m, data, obs, exact, own_raises=("ValueError", "AssertionError"), note=None):
        """RecordMap.transform on a Polars frame vs Model/CDataPolars.v transform_pl; skipped when Polars itself raises
        (dtype / schema errors are not modelled)"""
        if obs[0] == "ok" or (obs[0] == "raise" and obs[1] in own_raises):
            pterms.append("K" + term_transform(m, data, obs, exact)[1:].replace("Transform", "TransformPl", 1))
            pmeta.append({"map": m, "data": jt(data), "observed": obs[0] if obs[0] == "ok" else obs[1], "backend": "polars", "note": note})
        else:
            chk.dist("polars_case_skipped_%s" % (obs[1] if isinstance(obs[1], str) else obs[0]))
    stats = chk.cov["oracle"]
    for k in ("reference_checked", "roundtrip_checked", "compose_checked", "compose_none", "compose_seq_raises", "compose_raises", "agree_checked",
              "polars_raises", "polars_agree", "both_raise", "outside_guard_null_key", "outside_guard_null_key_failures"):
        stats[k] = 0

    def violation(what, rep, sig, shrinker=None):
        if any(lib.match_sig(f.get("signature", {}), sig or {}) for f in chk.known) or len(chk.violations) >= 3:
            shrinker = None             # a listed finding, or enough minimised failures already
        if shrinker is not None:
            try:
                rep = shrinker(rep)
            except Exception:
                pass
        rep = dict(rep)
        for k in ("data", "expected"):
            if k in rep:
                rep[k] = jt(rep[k])
        rep["kind"] = "impl-violation"
        chk.impl_violation(what, rep, sig)

    def shrink_data(rep):
        def fails(t):
            r2 = dict(rep); r2["data"] = t
            if rep["oracle"] == "reference":
                return False            # expected depends on the rows; keep as is
            return run_oracle(r2) is not None
        if rep["oracle"] != "reference":
            m0 = rep.get("map") or rep.get("map2")
            rk = (m0["bin"] or m0["bout"])["rk"]
            rep = dict(rep); rep["data"] = shrink_rows(rep["data"], fails, rk)
        return rep

    # ---- corpus and known-finding witnesses first
    ncorp = 0
    for f in sorted(glob.glob(os.path.join(lib.ROOT, "corpus", "C17", "*.json"))):
        r = json.load(open(f))
        ncorp += 1
        try:
            d = run_oracle(r)
        except Exception as e:
            d = "replay raised %s" % type(e).__name__
        if d is not None:
            sig = compose_signature(r) if r["oracle"] == "compose" else {"oracle": r["oracle"], "backend": r.get("backend")}
            violation("corpus case %s: %s" % (os.path.basename(f), d), r, sig)
    chk.cov["corpus_cases"] = ncorp
    for kf in chk.known:
        r = kf.get("witness")
        if r:
            try:
                d = run_oracle(r)
            except Exception as e:
                d = None
            if d is not None:
                violation(kf["what"], r, compose_signature(r) if r["oracle"] == "compose" else {"oracle": r["oracle"]})

    # ---- worlds
    def note_polars(status, detail=""):
        stats[status] += 1
        if status == "polars_raises":
            chk.dist("polars_raise_" + str(detail))

    pair_pool = [(("A", "B"), ("rows", "A")), (("B", "rows"), ("A", "B")), (("B", "A"), ("A", "B")), (("A", "rows"), ("rows", "A")),
                 (("rows", "A"), ("A", "rows")), (("rows", "B"), ("A", "rows")), (("A", "B"), ("rows", "B")), (("B", "rows"), ("rows", "B"))]
    for wi in range(N[tier]):
        w = gen_world(rng, tier)
        A, B = w["A"], w["B"]
        nontrivial = len(w["recs"]) > 0
        chk.dist("records_%d" % len(w["recs"])); chk.dist("record_keys_%d" % len(w["rk"])); chk.dist("cells_%02d" % len(w["names"]))
        chk.dist("ctrl_keys_%d" % len(A["ctk"])); chk.dist("ctrl_rows_%d" % len(A["rows"]))
        lay = {"rows": None, "A": A, "B": B}
        shapes = [("rows", "A"), ("A", "rows"), ("A", "B"), ("B", "A"), ("rows", "B"), ("B", "rows")]
        pairs = list(pair_pool)
        if w["L"] is not None:
            lay["L"] = w["L"]
            shapes += [("A", "L"), ("L", "rows")]
            pairs += [(("L", "rows"), ("A", "L")), (("A", "L"), ("rows", "A"))] * 2
            chk.dist("world_with_lossy_layout")
        mk = lambda i, o: {"bin": lay[i], "bout": lay[o], "strict": True}
        datas = {k: form(w, lay[k], rng, extra=True) for k in lay}
        built, fwd = {}, {}
        B2 = relabel(rng, B)
        if B2 is not None:
            # maps that meet in B-blocks but read them through a re-labelled specification: compose() must follow the labels
            lay["B2"] = B2
            pairs += [(("B2", "A"), ("A", "B")), (("B2", "rows"), ("rows", "B"))]
        for (i, o) in shapes:
            m = mk(i, o)
            data = datas[i]
            expected = form(w, lay[o])
            if o == "rows" and lay[i] is not None and len(spec_names(lay[i])) < len(w["names"]):
                expected = restrict(expected, list(w["rk"]) + [n for n in w["names"] if n in spec_names(lay[i])])
            chk.count((json.dumps(m, sort_keys=True, default=str), json.dumps(jt(data), sort_keys=True)), nontrivial=nontrivial)
            chk.dist("map_" + map_shape(m))
            if wi < 2 and (i, o) == ("rows", "A"):
                chk.sample({"map": m, "data": jt(data)})
            try:
                mp = build_map(m)
            except Exception as e:
                violation("RecordMap/RecordSpecification constructor raises %s on a strict, well-formed specification" % type(e).__name__,
                          {"oracle": "reference", "map": m, "data": data, "expected": expected, "backend": "pandas"},
                          {"oracle": "constructor", "shape": map_shape(m)})
                add_term("KMap %s false" % cmapargs(m), {"map": m, "what": "constructor"})
                continue
            built[(i, o)] = mp
            lossy = is_lossy(m)
            try:
                inv = mp.inverse()
                add_term("KInverse %s %s" % (cmapargs(m), copt(comap(inv))), {"map": m, "what": "inverse"})
            except Exception as e:
                inv = None
                add_term("KInverse %s None" % cmapargs(m), {"map": m, "what": "inverse raises"})
                if not lossy:
                  violation("inverse() raises %s on a strict map whose two sides have the same record keys and value names" % type(e).__name__,
                          {"oracle": "roundtrip", "map": m, "data": data, "backend": "pandas"}, {"oracle": "inverse-raises", "shape": map_shape(m)})
            for backend in ("pandas", "polars"):
                o1 = observe_transform(mp, data, backend)
                fwd[(i, o, backend)] = o1
                if backend == "polars" and o1[0] != "ok":
                    continue
                # (a) the documented layout
                stats["reference_checked"] += 1
                d = ("transform: %s %s" % (o1[0], o1[1] if isinstance(o1[1], str) else "")) if o1[0] != "ok" else equivalent(o1[1], expected)
                if d is not None:
                    violation("RecordMap.transform (%s, %s) differs from the documented layout: %s" % (map_shape(m), backend, d),
                              {"oracle": "reference", "map": m, "data": data, "expected": expected, "backend": backend},
                              {"oracle": "reference", "backend": backend, "shape": map_shape(m)})
                    continue
                # (b) there and back
                if inv is None:
                    continue
                o2 = observe_transform(inv, o1[1], backend, raw=o1[2])
                if backend == "polars" and o2[0] != "ok":
                    continue
                stats["roundtrip_checked"] += 1
                d = ("inverse transform: %s %s" % (o2[0], o2[1] if isinstance(o2[1], str) else "")) if o2[0] != "ok" \
                    else equivalent(o2[1], restrict(data, list(mp.columns_needed)))
                if d is not None:
                    violation("inverse() round trip (%s, %s) does not return the original table: %s" % (map_shape(m), backend, d),
                              {"oracle": "roundtrip", "map": m, "data": data, "backend": backend},
                              {"oracle": "roundtrip", "backend": backend, "shape": map_shape(m)}, shrink_data)
            # (d) Pandas vs Polars
            a, b = fwd[(i, o, "pandas")], fwd[(i, o, "polars")]
            stats["agree_checked"] += 1
            if a[0] != "ok" and b[0] != "ok":
                note_polars("both_raise")
            elif b[0] != "ok":
                note_polars("polars_raises", b[1] if isinstance(b[1], str) else b[0])
            else:
                d = "pandas %s, polars returns a table" % a[0] if a[0] != "ok" else equivalent(a[1], b[1])
                if d is None:
                    note_polars("polars_agree")
                else:
                    violation("Pandas and Polars disagree on RecordMap.transform (%s): %s" % (map_shape(m), d),
                              {"oracle": "agree", "map": m, "data": data, "backend": "both"}, {"oracle": "agree", "shape": map_shape(m)}, shrink_data)
            # correspondence: transform on Pandas (exact columns, exact row order)
            obs = fwd[(i, o, "pandas")]
            add_term(term_transform(m, data, obs, obs[0] == "ok"), {"map": m, "data": jt(data), "observed": obs[0], "expected": jt(expected)})
            add_pl_term(m, data, fwd[(i, o, "polars")], True)
        # (c) composites: first m2, then m1   (m1.compose(m2), m2 >> m1)
        for (p1, p2) in (pairs if tier == "thorough" else rng.sample(pairs, 4)):
            if p1 not in built:
                try:
                    built[p1] = build_map(mk(*p1))
                except Exception:
                    continue
            if p2 not in built:
                continue
            m1, m2 = mk(*p1), mk(*p2)
            mp1, mp2 = built[p1], built[p2]
            data = datas[p2[0]]
            via = rng.choice(["compose", ">>"])
            chk.count(("compose", json.dumps([m1, m2], sort_keys=True, default=str), json.dumps(jt(data), sort_keys=True)), nontrivial=nontrivial)
            shape = ("rows" if m2["bin"] is None else "blocks") + "->" + ("rows" if m1["bout"] is None else "blocks")
            try:
                c = mp1.compose(mp2) if via == "compose" else (mp2 >> mp1)
                cst = "none" if c is None else "map"
            except Exception as e:
                c, cst = None, "raises"
            o = "OCRaise" if cst == "raises" else "OCNone" if cst == "none" else "(OCMap %s)" % comap(c)
            add_term("KCompose %s %s %s %s" % (cstr(sfx), cmapargs(m1), cmapargs(m2), o), {"map1": m1, "map2": m2, "what": "compose", "observed": o[:40], "data": jt(data), "via": via})
            if sfx == "" and p1[0] != "B2":
                # the hypothesis of the C17_compose_sound_partial theorems, evaluated inside Coq on this composite
                add_term("KComposeOk %s %s %s" % (cstr(sfx), cmapargs(m1), cmapargs(m2)),
                         {"map1": m1, "map2": m2, "what": "composite_ok (input side of the first map, layout of the second map's output side)", "data": jt(data), "via": via})
            try:
                ex = from_frame(mp2.example_input(value_suffix=sfx))
                add_term("KExample %s %s %s" % (cstr(sfx), cmapargs(m2), ctable(ex)), {"map": m2, "what": "example_input"})
            except Exception:
                pass
            chk.dist("composite_%s_%s" % (shape, cst))
            if cst == "none":
                stats["compose_none"] += 1
                continue
            for backend in ("pandas", "polars"):
                f2 = fwd[p2 + (backend,)]
                seq = observe_transform(mp1, f2[1], backend, raw=f2[2]) if f2[0] == "ok" else f2
                if seq[0] != "ok":
                    stats["compose_seq_raises"] += 1        # the two maps do not fit together (or Polars raises): nothing to compare
                    continue
                if cst == "raises":
                    stats["compose_raises"] += 1
                    violation("%s raises although the two maps apply one after the other (%s, %s)" % ("m1.compose(m2)" if via == "compose" else "m2 >> m1", shape, backend),
                              {"oracle": "compose", "map1": m1, "map2": m2, "data": data, "backend": backend, "via": via},
                              {"oracle": "compose-raises", "composite": shape})
                    continue
                oc = observe_transform(c, data, backend)
                if backend == "polars" and polars_own_raise(oc):
                    note_polars("polars_raises", "composite_" + str(oc[1]))   # Polars itself raises (mixed dtypes in a block column): not a disagreement
                    continue
                stats["compose_checked"] += 1
                d = ("composite raises %s where the sequence returns a table" % (oc[1] if isinstance(oc[1], str) else oc[0])) if oc[0] != "ok" else equivalent(oc[1], seq[1])
                if d is not None:
                    violation("%s is not sequential application (%s, %s): %s" % ("m1.compose(m2)" if via == "compose" else "m2 >> m1", shape, backend, d),
                              {"oracle": "compose", "map1": m1, "map2": m2, "data": data, "backend": backend, "via": via},
                              {"oracle": "compose", "composite": shape, "suffix_leak": bool(suffix_leak(c)), "lossy": is_lossy(m2)}, shrink_data)
        # the pivot / unpivot conveniences build the same kind of map
        if len(w["names"]) >= 2 and (w["rk"] or len(w["recs"]) <= 1):
            try:
                d = oracle_helpers(w, rng)
            except Exception as e:
                d = "raised %s" % type(e).__name__
            stats["helpers_checked"] = stats.get("helpers_checked", 0) + 1
            if d is not None:
                violation("pivot helper: " + d, {"oracle": "helpers", "world": {"rk": w["rk"], "names": w["names"], "recs": [[list(k), c] for k, c in w["recs"]]}}, {"oracle": "helpers"})
        # outside the guard: a null record key (counted, never a violation)
        if w["rk"] and len(w["recs"]) >= 1 and ("rows", "A") in built and rng.random() < 0.5:
            w2 = dict(w)
            w2["recs"] = [((None,) + tuple(k[1:]), c) if j == 0 else (k, c) for j, (k, c) in enumerate(w["recs"])]
            m = mk("rows", "A")
            data = form(w2, None, rng)
            stats["outside_guard_null_key"] += 1
            obs = observe_transform(built[("rows", "A")], data, "pandas")
            add_term(term_transform(m, data, obs, False), {"map": m, "data": jt(data), "observed": obs[0], "note": "null record key"})
            add_pl_term(m, data, observe_transform(built[("rows", "A")], data, "polars"), True, note="null record key (Polars sorts nulls first)")
            if obs[0] != "ok" or equivalent(obs[1], form(w2, A)) is not None:
                stats["outside_guard_null_key_failures"] += 1
        # incomplete / foreign blocks (model vs code only: outside the property's hypotheses)
        if len(w["recs"]) >= 1 and ("A", "rows") in built and rng.random() < 0.5:
            m = mk("A", "rows")
            data = form(w, A, rng)
            how = rng.choice(["drop-row", "foreign-key", "dup-row"])
            if how == "drop-row":
                data["rows"].pop(rng.randrange(len(data["rows"])))
            elif how == "foreign-key":
                j = data["cols"].index(A["ctk"][0])
                old = data["rows"][0][j]
                new = "zz_foreign" if isinstance(old, str) else 99
                for r in data["rows"]:
                    if r[j] == old:
                        r[j] = new
            else:
                data["rows"].append(list(data["rows"][0]))
            obs = observe_transform(built[("A", "rows")], data, "pandas")
            chk.dist("degenerate_blocks_%s_%s" % (how, obs[0]))
            add_term(term_transform(m, data, obs, False), {"map": m, "data": jt(data), "observed": obs[0], "note": how})
            add_pl_term(m, data, observe_transform(built[("A", "rows")], data, "polars"), False,
                        own_raises=("ValueError", "AssertionError", "TypeError"), note=how)

    # ---- malformed / degenerate constructor arguments
    for _ in range(N_MALFORMED[tier]):
        how, a = gen_malformed(rng)
        chk.count(("spec", json.dumps(a, sort_keys=True, default=str)), nontrivial=True)
        try:
            s = build_spec(a)
            o = "(Some (%s, %s, %s, %s))" % (cstrs(s.control_table_keys), cstrs(s.content_keys), cstrs(s.row_columns), cstrs(s.block_columns))
            acc = True
        except Exception:
            o, acc = "None", False
        chk.dist("spec_%s_%s" % (how, "accepted" if acc else "rejected"))
        add_term("KSpec %s %s" % (csarg(a), o), {"spec": a, "what": "constructor " + how, "accepted": acc})
        if acc:
            # as a map: rows -> spec, non-strict maps too
            for strict in ([True, False] if not a["strict"] else [True]):
                m = {"bin": None, "bout": a, "strict": strict}
                try:
                    mp = build_map(m)
                    ok = True
                except Exception:
                    ok = False
                add_term("KMap %s %s" % (cmapargs(m), cbool(ok)), {"map": m, "what": "RecordMap constructor"})
                if ok and how in ("ok", "nonstrict-dup", "nonstrict-ok", "default-ctk", "str-ctk"):
                    # non-strict layouts still transform rows -> blocks; compare model and code
                    rc = list(s.row_columns)
                    nrec = rng.choice([0, 1, 2]) if a["rk"] else rng.choice([0, 1])
                    rows = []
                    for j in range(nrec):
                        rows.append([j if c in a["rk"] else rng.choice([None, 1.5, 2, "s"]) for c in rc])
                    data = {"cols": rc, "rows": rows}
                    obs = observe_transform(mp, data, "pandas")
                    add_term(term_transform(m, data, obs, obs[0] == "ok"), {"map": m, "data": jt(data), "observed": obs[0], "note": how})
                    if obs[0] == "ok":
                        m2 = {"bin": a, "bout": None, "strict": strict}
                        try:
                            mp2 = build_map(m2)
                            obs2 = observe_transform(mp2, obs[1], "pandas", raw=obs[2])
                            add_term(term_transform(m2, obs[1], obs2, obs2[0] == "ok"), {"map": m2, "data": jt(obs[1]), "observed": obs2[0], "note": how + " back"})
                        except Exception:
                            pass

    # ---- correspondence inside Coq
    if os.path.exists(os.path.join(lib.COQ, "theories/Model/CDataCases.vo")):
        pre = ("From Coq Require Import List ZArith QArith Bool String.\nImport ListNotations.\n"
               "From DA Require Import Base.PyRT Base.Cases Base.Val Model.CData Model.CDataCases.\nOpen Scope string_scope.\nOpen Scope list_scope.\n")
        failing, errors, nchecked = lib.run_case_files("C17", pre, ["(%s)" % t for t in terms], "check_cases", per_file=120)
        kinds = {}
        for t in terms:
            kinds[t.split(" ", 1)[0]] = kinds.get(t.split(" ", 1)[0], 0) + 1
        chk.cov["correspondence"] = {"cases": len(terms), "by_kind": kinds, "checked_in_coq": nchecked, "disagreements": len(failing), "errors": errors[:2]}
        chk.cov["traces_validated_against_impl"] = nchecked
        if errors:
            chk.corr_break("correspondence case files failed to compile", errors[0])
        for i in failing[:3]:
            chk.corr_break("Model/CData.v disagrees with cdata.py / pandas_base.py", meta[i])
        pfailing, perrors = [], []
        if os.path.exists(os.path.join(lib.COQ, "theories/Model/CDataPolarsCases.vo")):
            ppre = ("From Coq Require Import List ZArith QArith Bool String.\nImport ListNotations.\n"
                    "From DA Require Import Base.PyRT Base.Cases Base.Val Model.CData Model.CDataCases Model.CDataPolars Model.CDataPolarsCases.\n"
                    "Open Scope string_scope.\nOpen Scope list_scope.\n")
            pfailing, perrors, pchecked = lib.run_case_files("C17pl", ppre, ["(%s)" % t for t in pterms], "check_cases_pl", per_file=120)
            chk.cov["correspondence"]["polars"] = {"cases": len(pterms), "checked_in_coq": pchecked, "disagreements": len(pfailing), "errors": perrors[:2]}
            chk.cov["traces_validated_against_impl"] = nchecked + pchecked
            if perrors:
                chk.corr_break("Polars correspondence case files failed to compile", perrors[0])
            for i in pfailing[:3]:
                chk.corr_break("Model/CDataPolars.v disagrees with polars_model.py", pmeta[i])
        else:
            chk.corr_break("Model/CDataPolarsCases.vo not built", "")
        if failing or errors or pfailing or perrors or not getattr(chk, "proof_ok", True):
            dis = [meta[i] for i in failing[:20]]
            # a Polars disagreement: the likeliest failing input is that case under the Pandas-vs-Polars oracle
            for i in pfailing[:20]:
                pm = pmeta[i]
                try:
                    st, det = oracle_agree(pm["map"], pm["data"])
                    if st == "differs":
                        violation("Pandas and Polars disagree on RecordMap.transform (%s): %s" % (map_shape(pm["map"]), det),
                                  {"oracle": "agree", "map": pm["map"], "data": pm["data"], "backend": "both"}, {"oracle": "agree", "shape": map_shape(pm["map"])}, shrink_data)
                except Exception:
                    pass
            search_after_break(chk, rng, dis, violation, shrink_data)
    else:
        chk.corr_break("Model/CDataCases.vo not built", "")
        search_after_break(chk, rng, [], violation, shrink_data)


def search_after_break(chk, rng, disagreeing, violation, shrink_data):
    """a proof or correspondence broke: look for a concrete input on which the real code fails the property --
    the disagreeing cases first (every oracle that applies to that input), then a larger random search"""
    found = 0
    for m in disagreeing:
        try:
            if "map" in m and "data" in m and "expected" in m:
                d = oracle_reference(m["map"], m["data"], m["expected"], "pandas")
                if d is not None:
                    violation("RecordMap.transform (%s) differs from the documented layout: %s" % (map_shape(m["map"]), d),
                              {"oracle": "reference", "map": m["map"], "data": m["data"], "expected": m["expected"], "backend": "pandas"},
                              {"oracle": "reference", "backend": "pandas", "shape": map_shape(m["map"])})
                    found += 1
                    continue
            if "map" in m and "data" in m and not m.get("note"):
                d = oracle_roundtrip(m["map"], m["data"], "pandas")
                if d is not None:
                    violation("inverse() round trip does not return the original table: %s" % d,
                              {"oracle": "roundtrip", "map": m["map"], "data": m["data"], "backend": "pandas"},
                              {"oracle": "roundtrip", "backend": "pandas", "shape": map_shape(m["map"])}, shrink_data)
                    found += 1
                    continue
            if "map1" in m and "data" in m:
                (st, det), leak = oracle_compose(m["map1"], m["map2"], m["data"], "pandas", m.get("via", "compose"))
                if st == "differs":
                    r = {"oracle": "compose", "map1": m["map1"], "map2": m["map2"], "data": m["data"], "backend": "pandas", "via": m.get("via", "compose")}
                    violation("compose is not sequential application: %s" % det, r, compose_signature(r), shrink_data)
                    found += 1
                    continue
            if "spec" in m and m.get("accepted"):
                # a specification the model rejects but the code accepts as strict: does the round trip still hold for it?
                a = m["spec"]
                if a.get("strict"):
                    sp = build_spec(a)
                    rc = list(sp.row_columns)
                    if len(set(rc)) == len(rc):
                        rows = [[j + 1 if c in a["rk"] else (j * 10 + k + 0.5) for k, c in enumerate(rc)] for j in range(2 if a["rk"] else 1)]
                        mm = {"bin": None, "bout": a, "strict": True}
                        data = {"cols": rc, "rows": rows}
                        d = oracle_roundtrip(mm, data, "pandas")
                        if d is not None:
                            violation("a specification accepted as strict does not round-trip: %s" % d,
                                      {"oracle": "roundtrip", "map": mm, "data": data, "backend": "pandas"},
                                      {"oracle": "roundtrip", "backend": "pandas", "shape": "rows->blocks", "spec": "accepted-but-not-strict-in-model"})
                            found += 1
        except Exception:
            pass
    if found:
        return
    for _ in range(300):
        w = gen_world(rng, "thorough")
        if not w["recs"]:
            continue
        lay = {"rows": None, "A": w["A"], "B": w["B"]}
        for (i, o) in [("rows", "A"), ("A", "rows"), ("A", "B")]:
            m = {"bin": lay[i], "bout": lay[o], "strict": True}
            data = form(w, lay[i], rng)
            d = oracle_reference(m, data, form(w, lay[o]), "pandas")
            if d is not None:
                violation("RecordMap.transform (%s) differs from the documented layout: %s" % (map_shape(m), d),
                          {"oracle": "reference", "map": m, "data": data, "expected": form(w, lay[o]), "backend": "pandas"},
                          {"oracle": "reference", "backend": "pandas", "shape": map_shape(m)})
                return
            d = oracle_roundtrip(m, data, "pandas")
            if d is not None:
                violation("inverse() round trip does not return the original table: %s" % d,
                          {"oracle": "roundtrip", "map": m, "data": data, "backend": "pandas"},
                          {"oracle": "roundtrip", "backend": "pandas", "shape": map_shape(m)}, shrink_data)
                return


def replay(path):
    r = json.load(open(path))
    if "oracle" in r:
        d = run_oracle(r)
        print("oracle", r["oracle"], "->", d)
        return 0 if d is None else 1
    print(json.dumps(r, indent=1)[:3000])
    return 1
