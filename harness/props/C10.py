"""C10 -- columns not reported as used never influence a pipeline's result.
proof:  Props/C10.v over Model/ColumnsUsed.v (hand transcription of every columns_used_from_sources, of
        columns_used_implementation_/columns_used with records keyed by node identity, of the builders' column checks) and Model/Sem.v
tie:    correspondence on every run (real DAG -> Coq term by semconv.cop + the identity of the node objects):
        ops.columns_used(), ops.columns_used(using=..), every node's columns_used_from_sources(using), builder_ok of the pipeline,
        accept/reject + column_names of the narrowed rebuild -- compared inside Coq (sets per table)
oracles (real code, from the property text):
        (1) perturb every unreported input column (fresh values of the same type / all null / permuted) and re-evaluate on
            Pandas and on SQLite: identical result;
        (2) rebuild the DAG (and replay the builder script) on table descriptions narrowed to the reported columns and evaluate on
            inputs restricted to those columns: same result; a rebuild that raises is a violation (known finding when the rejected
            step names a column the report omits)"""
import copy, glob, json, os, random, re, warnings
import lib
from lib import clist, cstr

warnings.filterwarnings("ignore")
N = {"quick": 100, "thorough": 1000}              # pipelines with every oracle + correspondence
N_SEARCH = {"quick": 150, "thorough": 800}        # extra oracle-only pipelines when a proof / correspondence broke
IDENT = re.compile(r"[A-Za-z_][A-Za-z_0-9]*")

PRE = ("From Coq Require Import List Bool ZArith QArith String.\nImport ListNotations.\nOpen Scope string_scope.\n"
       "From DA Require Import Base.PyRT Base.Cases Base.Val Model.Sem Model.SemCases Model.ColumnsUsed Model.ColumnsUsedCases.\n"
       "Open Scope list_scope.\n")

WITNESS = {"script": {"op": "select_columns", "columns": ["w"],
                      "src": {"op": "extend", "ops": {"w": "x + 1"},
                              "src": {"op": "drop_columns", "columns": ["y"], "src": {"op": "table", "name": "t"}}}},
           "tables": [{"name": "t", "spec": [["x", "int"], ["y", "int"], ["z", "float"]], "rows": [[1, 5, 0.5], [2, 6, None], [3, 7, 2.0]]}]}


# ------------------------------------------------------------------------------------------- scripts with sharing

def enc(script):
    """JSON form that keeps shared sub-scripts shared (node identity matters for columns_used)"""
    seen = {}

    def go(s):
        if id(s) in seen:
            return {"ref": seen[id(s)]}
        seen[id(s)] = len(seen)
        o = {"_id": seen[id(s)]}
        for k, v in s.items():
            o[k] = go(v) if k in ("src", "b") else copy.deepcopy(v)
        return o
    return go(script)


def dec(obj):
    memo = {}

    def go(o):
        if "ref" in o and len(o) == 1:
            return memo[o["ref"]]
        s = {}
        if "_id" in o:
            memo[o["_id"]] = s
        for k, v in o.items():
            if k == "_id":
                continue
            s[k] = go(v) if k in ("src", "b") else v
        return s
    return go(obj)


class StepFail(Exception):
    def __init__(self, cause, step, err):
        Exception.__init__(self, "%s at %s: %r" % (cause, step, err))
        self.cause, self.step, self.err = cause, step, err


def step_names(s):
    out = set()
    for k in ("columns", "partition_by", "order_by", "reverse", "group_by"):
        v = s.get(k)
        if isinstance(v, list):
            out |= set(v)
    if "map" in s:
        out |= set(s["map"].keys()) | set(s["map"].values())
    for e in (s.get("ops") or {}).values():
        out |= set(IDENT.findall(e))
    if "expr" in s:
        out |= set(IDENT.findall(s["expr"]))
    for x in s.get("on") or []:
        out |= set(x) if isinstance(x, (list, tuple)) else {x}
    return out


def table_descr(name, cols):
    from data_algebra.data_ops import TableDescription
    return TableDescription(table_name=name, column_names=list(cols))


def build_script(script, cols_of_table, memo, orig=None):
    """pipes.build with my own table descriptions; on a rejected step says whether the step names a column that the
    original source had and the rebuilt source lacks (orig = memo of the original build)"""
    import pipes
    key = id(script)
    if key in memo:
        return memo[key]
    if script["op"] == "table":
        cs = cols_of_table[script["name"]]
        if not cs:
            raise StepFail("no-reported-column-left", "table " + script["name"], "no column left")
        r = table_descr(script["name"], cs)
    else:
        src = build_script(script["src"], cols_of_table, memo, orig)
        other = []
        try:
            r = pipes.apply_step(src, script, lambda b: other.append(build_script(b, cols_of_table, memo, orig)) or other[-1])
        except StepFail:
            raise
        except Exception as e:
            cause = "other"
            if orig is not None:
                have = set(src.column_names) | (set(other[0].column_names) if other else set())
                had = set(orig[id(script["src"])].column_names) | (set(orig[id(script["b"])].column_names) if "b" in script and id(script["b"]) in orig else set())
                if (step_names(script) & had) - have:
                    cause = "step-names-unreported-column"
                elif script["op"] == "concat_rows" and other and set(src.column_names) != set(other[0].column_names):
                    cause = "step-names-unreported-column"
                elif script["op"] in ("drop_columns", "map_columns") and len(had) > len(have) and \
                        set(src.column_names) <= (set(script.get("columns") or []) | set(k for k, v in (script.get("map") or {}).items() if v is None)):
                    cause = "no-reported-column-left"          # everything the step would keep is unreported
            raise StepFail(cause, script["op"], e)
    memo[key] = r
    return r


def node_names(node):
    nm = node.node_name
    out = set()

    def ecols(t):
        s = set()
        t.get_column_names(s)
        return s
    if nm == "ExtendNode":
        for v in node.ops.values():
            out |= ecols(v)
        out |= set(node.partition_by if isinstance(node.partition_by, list) else []) | set(node.order_by) | set(node.reverse)
    elif nm == "ProjectNode":
        for v in node.ops.values():
            out |= ecols(v)
        out |= set(node.group_by)
    elif nm == "SelectRowsNode":
        out |= ecols(node.expr)
    elif nm == "SelectColumnsNode":
        out |= set(node.column_selection)
    elif nm == "DropColumnsNode":
        out |= set(node.column_deletions)
    elif nm == "RenameColumnsNode":
        out |= set(node.column_remapping.values())
    elif nm == "MapColumnsNode":
        out |= set(node.column_remapping.keys()) | set(node.column_deletions)
    elif nm == "OrderRowsNode":
        out |= set(node.order_columns)
    elif nm == "NaturalJoinNode":
        out |= set(node.on_a) | set(node.on_b)
    return out


def reapply(node, srcs):
    """the node's own step applied to other sources, through the builder methods (what replace_leaves means to do)"""
    nm = node.node_name
    if nm == "ExtendNode":
        part = node.partition_by
        if node.windowed_situation and not part and not node.order_by:
            part = 1
        return srcs[0].extend_parsed_(parsed_ops=node.ops, partition_by=part or None, order_by=node.order_by or None, reverse=node.reverse or None)
    if nm == "ProjectNode":
        return srcs[0].project_parsed_(parsed_ops=node.ops, group_by=node.group_by or None)
    if nm == "SelectRowsNode":
        return srcs[0].select_rows_parsed_(parsed_expr=node.ops)
    if nm == "SelectColumnsNode":
        return srcs[0].select_columns(list(node.column_selection))
    if nm == "DropColumnsNode":
        return srcs[0].drop_columns(list(node.column_deletions))
    if nm == "RenameColumnsNode":
        return srcs[0].rename_columns(dict(node.column_remapping))
    if nm == "MapColumnsNode":
        m = dict(node.column_remapping)
        m.update({d: None for d in node.column_deletions})
        return srcs[0].map_columns(m)
    if nm == "OrderRowsNode":
        return srcs[0].order_rows(list(node.order_columns), reverse=list(node.reverse) or None, limit=node.limit)
    if nm == "NaturalJoinNode":
        on = [a if a == b else (a, b) for a, b in zip(node.on_a, node.on_b)]
        return srcs[0].natural_join(srcs[1], on=on, jointype=node.jointype)
    if nm == "ConcatRowsNode":
        return srcs[0].concat_rows(srcs[1], id_column=node.id_column, a_name=node.a_name, b_name=node.b_name)
    raise ValueError("node " + nm)


def rebuild_dag(node, cols_of_table, memo):
    key = id(node)
    if key in memo:
        return memo[key]
    if node.node_name == "TableDescription":
        cs = cols_of_table[node.table_name]
        if not cs:
            raise StepFail("no-reported-column-left", "table " + node.table_name, "no column left")
        r = table_descr(node.table_name, cs)
    else:
        srcs = [rebuild_dag(s, cols_of_table, memo) for s in node.sources]
        try:
            r = reapply(node, srcs)
        except Exception as e:
            have = set().union(*[set(s.column_names) for s in srcs])
            had = set().union(*[set(s.column_names) for s in node.sources])
            cause = "other"
            if (node_names(node) & had) - have:
                cause = "step-names-unreported-column"
            elif node.node_name == "ConcatRowsNode" and set(srcs[0].column_names) != set(srcs[1].column_names):
                cause = "step-names-unreported-column"
            elif node.node_name in ("DropColumnsNode", "MapColumnsNode") and len(had) > len(have) and set(srcs[0].column_names) <= set(node.column_deletions):
                cause = "no-reported-column-left"              # everything the step would keep is unreported
            raise StepFail(cause, node.node_name, e)
    memo[key] = r
    return r


# ------------------------------------------------------------------------------------------- generation

def gen_tables(rng):
    import pipes
    names = ["a", "b", "c", "d", "e", "g", "h"]
    t1 = pipes.gen_table(rng, "d1", ncols=rng.randint(3, 6), unique_col="uid", colnames=names)
    ty1 = dict(t1["spec"])
    n2 = rng.randint(2, 5)
    cols2 = rng.sample(names, n2)
    spec2 = [(c, ty1[c] if (c in ty1 and rng.random() < 0.85) else rng.choice(["int", "float", "str"])) for c in sorted(cols2)]
    rows2 = []
    for _ in range(rng.choice([0, 1, 2, 3, 4, 5, 6])):
        if rows2 and rng.random() < 0.25:
            rows2.append(list(rng.choice(rows2)))
        elif t1["rows"] and rng.random() < 0.5:          # share key values with d1 so that joins match
            r1 = rng.choice(t1["rows"])
            i1 = {c: j for j, (c, _) in enumerate(t1["spec"])}
            rows2.append([r1[i1[c]] if (c in i1 and ty1[c] == ty) else pipes.gen_value(rng, ty, 0.15) for c, ty in spec2])
        else:
            rows2.append([pipes.gen_value(rng, ty, 0.15) for _, ty in spec2])
    perm = list(range(len(rows2)))
    rng.shuffle(perm)
    spec2.append(("uid2", "int"))
    for i, r in enumerate(rows2):
        r.append(perm[i])
    return [t1, {"name": "d2", "spec": spec2, "rows": rows2}]


def regen_rows(rng, tables, nrows=(5, 6, 8)):
    """the same table shapes with fresh, larger data (unique columns stay unique); key values are shared between tables"""
    import pipes
    out, pool = [], {}
    for t in tables:
        n = rng.choice(nrows)
        rows = []
        for i in range(n):
            if rows and rng.random() < 0.2:
                rows.append(list(rng.choice(rows)))
                continue
            r = []
            for c, ty in t["spec"]:
                vals = pool.setdefault((c, ty), [])
                if vals and rng.random() < 0.5:
                    v = rng.choice(vals)
                else:
                    v = pipes.gen_value(rng, ty, 0.12)
                    vals.append(v)
                r.append(v)
            rows.append(r)
        for j, (c, ty) in enumerate(t["spec"]):
            if c in ("uid", "uid2"):
                perm = list(range(n))
                rng.shuffle(perm)
                for i, r in enumerate(rows):
                    r[j] = perm[i]
        out.append({"name": t["name"], "spec": t["spec"], "rows": rows})
    return out


def shared_join(rng, g, X, colty, order):
    """two consumers of ONE shared sub-pipeline X joined with each other: the node object X is reached twice"""
    import pipes
    if len(order) < 2:
        return None
    keys = rng.sample(order, 1)

    def side():
        r = rng.random()
        if r < 0.5:
            rest = [c for c in order if c not in keys]
            cs = keys + rng.sample(rest, rng.randint(0, len(rest)))
            rng.shuffle(cs)
            if cs == list(order):
                return X, colty, order
            return {"op": "select_columns", "src": X, "columns": cs}, {c: colty[c] for c in cs}, cs
        if r < 0.7:
            return {"op": "select_rows", "src": X, "expr": pipes.gen_bool_expr(rng, colty, 1)}, colty, order
        old = g.features
        g.features = {"extend"}
        st = g.step(X, colty, order)
        g.features = old
        if st is None or any(k in keys for k in st[0]["ops"]):
            return X, colty, order
        return st
    a, acty, aord = side()
    b, bcty, bord = side()
    for c in aord:
        if c in bcty and acty[c] != bcty[c]:
            return None
    colty2, order2 = dict(acty), list(aord)
    for c in bord:
        if c not in colty2:
            colty2[c] = bcty[c]
            order2.append(c)
    return {"op": "natural_join", "src": a, "b": b, "on": keys, "jointype": rng.choice(["INNER", "LEFT", "RIGHT", "FULL"])}, colty2, order2


def renamed_key_join(rng, g, X, colty, order, tables):
    """join whose key has DIFFERENT names on the two sides (on=[(k, kb)]), the right key then being discarded: the right
    table's key column must still be reported (it decides which rows match)"""
    cands = []
    for t in tables:
        for c, ty in t["spec"]:
            for k in order:
                if colty[k] == ty or {colty[k], ty} <= {"int", "float"}:
                    cands.append((t, c, k))
    if not cands:
        return None
    t, c, k = rng.choice(cands)
    kb = "kb" + str(rng.randint(0, 9))
    tcols = [x for x, _ in t["spec"]]
    if kb in order or kb in tcols:
        return None
    extra = [x for x in tcols if x != c and x not in order]
    b = {"op": "rename_columns", "src": {"op": "table", "name": t["name"]}, "map": {kb: c}}
    keep = [kb] + (rng.sample(extra, rng.randint(0, min(2, len(extra)))) if extra else [])
    b = {"op": "select_columns", "src": b, "columns": keep}
    tty = dict(t["spec"])
    colty2, order2 = dict(colty), list(order)
    for x in keep:
        colty2[x] = tty[c] if x == kb else tty[x]
        order2.append(x)
    s = {"op": "natural_join", "src": X, "b": b, "on": [[k, kb]], "jointype": rng.choice(["INNER", "LEFT", "RIGHT", "FULL"])}
    if rng.random() < 0.8:
        cs = [x for x in order2 if x != kb]
        if rng.random() < 0.5 and len(cs) > 1:
            cs = rng.sample(cs, rng.randint(1, len(cs)))
        s = {"op": "select_columns", "src": s, "columns": cs}
        colty2, order2 = {x: colty2[x] for x in cs}, cs
    return s, colty2, order2


def gen_script(rng, tables, deep, targeted=0.4):
    import pipes
    g = pipes.Gen(rng, tables, features=["extend", "extend", "wextend", "project", "select_rows", "select_columns", "drop_columns", "drop_columns",
                                          "rename_columns", "rename_columns", "map_columns", "order_rows", "natural_join", "natural_join", "concat_rows"])
    s, colty, order = g.pipeline(rng.randint(1, 7 if deep else 5))
    if rng.random() < 0.25:
        r = renamed_key_join(rng, g, s, colty, order, tables)
        if r is not None:
            s, colty, order = r
    if rng.random() < 0.3:
        r = shared_join(rng, g, s, colty, order)
        if r is not None:
            s, colty, order = r
            for _ in range(rng.randint(0, 2)):
                st = g.step(s, colty, order)
                if st is not None:
                    s, colty, order = st
    if rng.random() < targeted:
        # a step whose CONTROL columns (window order / partition, sort keys of a limit, join keys, filter columns, group keys)
        # are then discarded: they must still be reported although no output column shows them
        for _ in range(4):
            kind = rng.choice(["wextend", "wextend", "order_rows", "natural_join", "select_rows", "project", "rename_columns"])
            old = g.features
            g.features = {kind}
            st = g.step(s, colty, order)
            g.features = old
            if st is None:
                continue
            s2, colty2, order2 = st
            if kind == "wextend":
                control = set(s2.get("partition_by") if isinstance(s2.get("partition_by"), list) else []) | set(s2.get("order_by") or [])
            elif kind == "order_rows":
                control = set(s2["columns"])
                u = g.unique_cols(s)
                if s2["limit"] is None and (u is None or (u & control)):
                    s2["limit"] = rng.choice([1, 2, 3])
            elif kind == "natural_join":
                control = set(s2["on"])
            elif kind == "select_rows":
                control = set(IDENT.findall(s2["expr"]))
            elif kind == "project":
                control = set(s2.get("group_by") or [])
            else:
                control = set()
            keep = [c for c in order2 if c not in control]
            s, colty, order = s2, colty2, order2
            if keep and rng.random() < 0.85:
                cs = rng.sample(keep, rng.randint(1, len(keep)))
                s, colty, order = {"op": "select_columns", "src": s, "columns": cs}, {c: colty[c] for c in cs}, cs
            break
    r = rng.random()
    old = g.features
    if r < 0.35 and len(order) > 1:        # discard columns at the end: more unreported input columns
        cs = rng.sample(order, rng.randint(1, len(order) - 1))
        s, colty, order = {"op": "select_columns", "src": s, "columns": cs}, {c: colty[c] for c in cs}, cs
    elif r < 0.5:
        g.features = {"project"}
        st = g.step(s, colty, order)
        if st is not None:
            s, colty, order = st
    if rng.random() < 0.3:
        g.features = {"order_rows"}
        st = g.step(s, colty, order)
        if st is not None:
            s, colty, order = st
    g.features = old
    return s


def final_order_is_total(script, tables):
    import pipes
    if script["op"] != "order_rows":
        return False
    g = pipes.Gen(random.Random(0), tables)
    u = g.unique_cols(script["src"])
    return bool(u) and bool(set(script["columns"]) & u)


# ------------------------------------------------------------------------------------------- the oracles on the real code

def perturb(tables, cu, kind, prng):
    import pipes
    out, touched = [], 0
    for t in tables:
        rep = cu.get(t["name"], set(c for c, _ in t["spec"]))
        rows = [list(r) for r in t["rows"]]
        for j, (c, ty) in enumerate(t["spec"]):
            if c in rep:
                continue
            touched += 1
            if kind == "fresh":
                for r in rows:
                    r[j] = pipes.gen_value(prng, ty, 0.2)
            elif kind == "null":
                for r in rows:
                    r[j] = None
            else:
                vals = [r[j] for r in rows]
                prng.shuffle(vals)
                for r, v in zip(rows, vals):
                    r[j] = v
        out.append({"name": t["name"], "spec": t["spec"], "rows": rows})
    return out, touched


def restrict(tables, cu):
    out = []
    for t in tables:
        rep = cu.get(t["name"])
        if rep is None:
            out.append(t)
            continue
        keep = [j for j, (c, _) in enumerate(t["spec"]) if c in rep]
        out.append({"name": t["name"], "spec": [t["spec"][j] for j in keep], "rows": [[r[j] for j in keep] for r in t["rows"]]})
    return out


def frames_of(tables, used):
    import pipes
    return {t["name"]: pipes.table_frame(t) for t in tables if t["name"] in used and t["spec"]}


_SQLITE = []


def evaluate(ops, frames, backend):
    import pipes
    if backend == "pandas":
        return pipes.eval_pandas(ops, frames)
    # one in-memory SQLite handle for the whole run (creating a handle builds the whole method catalogue each time);
    # the SQL text still comes from to_sql on data_algebra.SQLite.example_handle()
    import data_algebra.SQLite
    if not _SQLITE:
        _SQLITE.append(data_algebra.SQLite.example_handle())
    h = _SQLITE[0]
    for k, v in frames.items():
        h.insert_table(v, table_name=k, allow_overwrite=True)
    return h.read_query(ops)


def oracle(script, tables, pseed, *, backends=("pandas", "sqlite"), info=None):
    """run both sentences of the property on the real code.  Returns a list of failures (what, detail, signature)."""
    import pipes
    info = {} if info is None else info
    tmap = {t["name"]: t for t in tables}
    fails = []
    orig_memo = {}
    ops = build_script(script, {n: [c for c, _ in t["spec"]] for n, t in tmap.items()}, orig_memo)
    info["ops"] = ops
    try:
        cu = ops.columns_used()
    except Exception as e:
        # the builders accepted the pipeline, so there is a report to give: without it nothing of the property can be observed
        info["cu"] = None
        return [("columns_used() raises on a pipeline the builders accepted: %r" % e, {"error": repr(e)}, {"oracle": "columns-used-raises"})]
    info["cu"] = cu
    used = set(cu)
    total = final_order_is_total(script, tables)
    info["total"] = total
    frames = frames_of(tables, used)
    base = {}
    for be in backends:
        try:
            base[be] = evaluate(ops, frames, be)
        except Exception as e:
            info.setdefault("eval_errors", []).append(be + ":" + type(e).__name__)
    info["base"] = base
    # (1) perturbation of the unreported columns
    prng = random.Random(pseed)
    info["unreported"] = sum(1 for t in tables if t["name"] in used for c, _ in t["spec"] if c not in cu[t["name"]])
    if info["unreported"]:
        for kind in ("fresh", "null", "permute"):
            pt, _ = perturb([t for t in tables if t["name"] in used], cu, kind, prng)
            pf = frames_of(pt, used)
            for be, r0 in base.items():
                try:
                    r1 = evaluate(ops, pf, be)
                except Exception as e:
                    fails.append(("evaluation fails after the unreported columns were perturbed (%s, %s): %r" % (kind, be, e),
                                  {"perturbation": kind, "backend": be, "perturbed_tables": pt}, {"oracle": "perturb", "backend": be, "perturbation": kind}))
                    continue
                d = pipes.frames_equiv(r0, r1, check_col_order=True, check_row_order=total)
                if d is not None:
                    fails.append(("perturbing unreported input columns (%s) changed the %s result: %s" % (kind, be, d),
                                  {"perturbation": kind, "backend": be, "perturbed_tables": pt, "result": pipes.frame_to_json(r0), "perturbed_result": pipes.frame_to_json(r1)},
                                  {"oracle": "perturb", "backend": be, "perturbation": kind}))
    # (2) narrowed rebuild on restricted inputs
    ncols = {n: [c for c, _ in t["spec"] if c in cu.get(n, ())] for n, t in tmap.items()}
    rt = restrict([t for t in tables if t["name"] in used], cu)
    rf = frames_of(rt, used)
    rebuilt = {}
    for how in ("dag", "script"):
        try:
            if how == "dag":
                rebuilt[how] = rebuild_dag(ops, ncols, {})
            else:
                rebuilt[how] = build_script(script, ncols, {}, orig_memo)
        except StepFail as e:
            rebuilt[how] = None
            fails.append(("the pipeline cannot be rebuilt (%s) on table descriptions narrowed to columns_used(): %s raises %r" % (how, e.step, e.err),
                          {"rebuild": how, "narrowed_tables": ncols, "rejected_step": e.step, "error": repr(e.err)},
                          {"oracle": "narrow-rebuild", "cause": e.cause}))
    info["rebuilt"] = rebuilt
    for how, nops in rebuilt.items():
        if nops is None:
            continue
        for be, r0 in base.items():
            if how == "script" and be != "pandas":
                continue
            try:
                r1 = evaluate(nops, rf, be)
            except Exception as e:
                fails.append(("the narrowed pipeline (%s) fails to evaluate on the restricted inputs (%s): %r" % (how, be, e),
                              {"rebuild": how, "backend": be, "narrowed_tables": ncols}, {"oracle": "narrow-eval", "backend": be}))
                continue
            d = pipes.frames_equiv(r0, r1, check_col_order=False, check_row_order=total)
            if d is not None:
                fails.append(("the narrowed pipeline (%s) on restricted inputs differs on %s: %s" % (how, be, d),
                              {"rebuild": how, "backend": be, "narrowed_tables": ncols, "result": pipes.frame_to_json(r0), "narrowed_result": pipes.frame_to_json(r1)},
                              {"oracle": "narrow-eval", "backend": be}))
    return fails


def still_fails(script, tables, pseed, sig):
    try:
        return any(s == sig for _, _, s in oracle(script, tables, pseed))
    except Exception:
        return False


def shrink(script, tables, pseed, sig):
    """smaller pipeline / fewer rows on which the same oracle still fails"""
    changed = True
    while changed:
        changed = False
        for sub in ([script["src"]] if "src" in script else []) + ([script["b"]] if "b" in script else []):
            if sub["op"] != "table" and still_fails(sub, tables, pseed, sig):
                script, changed = sub, True
                break
    out = []
    for k, t in enumerate(tables):
        def fails(rows, k=k, t=t):
            tt = out + [{"name": t["name"], "spec": t["spec"], "rows": rows}] + tables[k + 1:]
            return still_fails(script, tt, pseed, sig)
        rows = lib.shrink_list(t["rows"], fails, max_steps=60) if sig.get("oracle") != "narrow-rebuild" else t["rows"][:2]
        out.append({"name": t["name"], "spec": t["spec"], "rows": rows})
    if not still_fails(script, out, pseed, sig):
        out = tables
    return script, out


def report(chk, script, tables, pseed, fails, do_shrink=True):
    seen = set()
    for what, detail, sig in fails:
        key = json.dumps(sig, sort_keys=True)
        if key in seen:
            continue
        seen.add(key)
        known = any(lib.match_sig(f.get("signature", {}), sig) for f in chk.known)
        s2, t2, w2, d2 = script, tables, what, detail
        if do_shrink and not known:
            try:
                s2, t2 = shrink(script, tables, pseed, sig)
                again = [f for f in oracle(s2, t2, pseed) if f[2] == sig]
                if again:
                    w2, d2 = again[0][0], again[0][1]
                else:
                    s2, t2 = script, tables
            except Exception:
                s2, t2 = script, tables
        rep = {"kind": "impl-violation", "script": enc(s2), "tables": t2, "pseed": pseed, "signature": sig}
        rep.update(d2)
        try:
            rep["pipeline"] = str(build_script(s2, {t["name"]: [c for c, _ in t["spec"]] for t in t2}, {}))
        except Exception:
            pass
        chk.impl_violation(w2, rep, sig)


# ------------------------------------------------------------------------------------------- correspondence terms

def creport(d):
    return clist(["(%s, %s)" % (cstr(k), clist([cstr(c) for c in sorted(v)])) for k, v in sorted(d.items())])


def idtree(node, ids):
    k = ids.setdefault(id(node), len(ids))
    return "(IdT %d %s)" % (k, clist([idtree(s, ids) for s in node.sources]))


def dag_nodes(node, acc=None):
    acc = {} if acc is None else acc
    if id(node) not in acc:
        acc[id(node)] = node
        for s in node.sources:
            dag_nodes(s, acc)
    return acc


def case_terms(chk, rng, script, info):
    """Coq cases for one real pipeline; returns [(term, meta)]"""
    import semconv
    ops, cu = info["ops"], info["cu"]
    out = []
    p = semconv.cop(ops)
    ids = idtree(ops, {})
    desc = {"pipeline": str(ops), "script": enc(script)}
    out.append(("CWf %s %s" % (p, ids), dict(desc, what="builder_ok / ids_ok of a pipeline the real builders accepted")))
    out.append(("CCu %s %s (Some %s)" % (p, ids, creport(cu)), dict(desc, what="columns_used()", observed={k: sorted(v) for k, v in cu.items()})))
    cn = list(ops.column_names)
    u = sorted(rng.sample(cn, rng.randint(1, len(cn))))
    try:
        cuu = ops.columns_used(using=set(u))
        obs = "(Some %s)" % creport(cuu)
    except Exception as e:
        cuu, obs = repr(e), "None"
    out.append(("CCuUsing %s %s %s %s" % (p, ids, clist([cstr(c) for c in u]), obs),
                dict(desc, what="columns_used(using=%s)" % u, observed=cuu if isinstance(cuu, str) else {k: sorted(v) for k, v in cuu.items()})))
    rb = info["rebuilt"].get("dag")
    obs = "None" if rb is None else "(Some %s)" % clist([cstr(c) for c in rb.column_names])
    out.append(("CRebuild %s %s %s" % (p, creport(cu), obs),
                dict(desc, what="narrowed rebuild: accept/reject and column_names", observed=None if rb is None else list(rb.column_names), report={k: sorted(v) for k, v in cu.items()})))
    # per node
    tables = ops.get_tables()
    recs = {v.merged_rep_id(): set() for v in tables.values()}
    ops.columns_used_implementation_(using=None, columns_currently_using_records=recs)
    for node in dag_nodes(ops).values():
        if node.node_name == "TableDescription":
            continue
        stub = copy.copy(node)
        stub.sources = tuple(table_descr("s%d" % i, s.column_names) for i, s in enumerate(node.sources))
        nt = semconv.cop(stub)
        usings = [sorted(recs.get(node.merged_rep_id(), set()))]
        ncn = list(node.column_names)
        usings.append(sorted(rng.sample(ncn, rng.randint(0, len(ncn)))))
        usings = [usings[rng.randint(0, 1)]]           # one request per node: the observed one or a random one
        for us in usings:
            got = node.columns_used_from_sources(set(us))
            out.append(("CNode %s %s %s" % (nt, clist([cstr(c) for c in us]), clist([clist([cstr(c) for c in sorted(x)]) for x in got])),
                        {"script": desc["script"], "pipeline": desc["pipeline"],
                         "what": "%s.columns_used_from_sources(%s)" % (node.node_name, us), "node": node.to_python_src_(print_sources=False, indent=-1) if hasattr(node, "to_python_src_") else node.node_name,
                         "source_columns": [list(s.column_names) for s in node.sources], "observed": [sorted(x) for x in got]}))
    return out


# ------------------------------------------------------------------------------------------- driver

def one_pipeline(chk, rng, script, tables, terms, metas, *, corpus=False, want_terms=True):
    import pipes, semconv
    pseed = rng.randint(0, 10 ** 9)
    info = {}
    try:
        fails = oracle(script, tables, pseed, info=info)
    except StepFail as e:
        chk.dist("generated script rejected by the builders")
        return
    except Exception as e:
        chk.dist("oracle_error:" + type(e).__name__)
        return
    kinds = pipes.script_ops(script)
    if info.get("cu") is None:
        chk.count(("pipe", json.dumps(enc(script), sort_keys=True)), nontrivial=True)
        chk.dist("columns_used_raised")
        report(chk, script, tables, pseed, fails)
        return
    shared = len(dag_nodes(info["ops"])) < count_tree(info["ops"])
    chk.count(("pipe", json.dumps(enc(script), sort_keys=True), json.dumps([t["rows"] for t in tables], default=str)),
              nontrivial=info.get("unreported", 0) > 0 and len(kinds) >= 1)
    for k in set(kinds):
        chk.dist("step:" + k)
    chk.dist("unreported_input_columns:%s" % min(info.get("unreported", 0), 6))
    chk.dist("shared_node_objects:%s" % ("yes" if shared else "no"))
    chk.dist("final_total_order:%s" % info.get("total"))
    for be in ("pandas", "sqlite"):
        chk.dist("evaluated_on_%s:%s" % (be, be in info.get("base", {})))
    for how, r in (info.get("rebuilt") or {}).items():
        chk.dist("narrowed_rebuild_%s:%s" % (how, "accepted" if r is not None else "rejected"))
    if fails:
        report(chk, script, tables, pseed, fails)
    if len(chk.cov["samples"]) < 4 and not corpus:
        chk.sample({"pipeline": str(info["ops"]), "columns_used": {k: sorted(v) for k, v in info["cu"].items()}, "unreported_input_columns": info.get("unreported"),
                    "oracle_failures": [f[0][:120] for f in fails]})
    if want_terms:
        try:
            for t, m in case_terms(chk, rng, script, info):
                terms.append(t)
                m["tables"] = tables
                metas.append(m)
        except semconv.Unsupported as e:
            chk.dist("not_converted:" + str(e)[:40])


def count_tree(node):
    return 1 + sum(count_tree(s) for s in node.sources)


def run(chk):
    import pipes
    import time
    rng = chk.rng
    t0 = time.time()
    ok = chk.prove([], extra_vo=["theories/Model/ColumnsUsedCases.vo", "theories/Model/SemCases.vo"])
    timing = {"prove_s": round(time.time() - t0, 1)}
    chk.cov["timing"] = timing
    t0 = time.time()
    chk.cov["trusted_base"] = [
        "Coq 8.16.1 kernel + vm_compute",
        "hand model Model/ColumnsUsed.v of view_representations.py (every columns_used_from_sources, columns_used_implementation_, columns_used, get_tables, "
        "the column checks of the node constructors); sets as lists; node identity as an id tree",
        "reference semantics Model/Sem.v (modelled meaning of the operators; tied to the Pandas executor by the Sem correspondence of C01/C08)",
        "harness/semconv.py cop (real DAG -> Coq term) and harness/props/C10.py (id tree, per-node stubs)",
        "the executors and SQL generation themselves are exercised by the oracles only (perturbation / narrowing on Pandas and SQLite)"]
    chk.assumptions = ["builder_ok p: the pipeline passes the builders' column checks (checked on every generated pipeline: case CWf)",
                       "ids_ok: one node id, one column list (node ids are Python object identities)",
                       "inputs agree on the reported columns: as many rows in the same order, equal cells there; everything else arbitrary",
                       "C10_narrowing_sound only: the builders accept the narrowed rebuild (fails on the unchanged tree: known finding C10-narrow-rebuild-*)"]
    chk.cov["rule"] = ("random pipelines of 1-7 steps (pipes.Gen: extend, windowed extend, project, select_rows, select/drop/rename/map columns, order_rows with limit, "
                       "natural_join with non-key common columns, concat_rows on a shared prefix) over two random tables of 2-6 columns + a unique column, 30% with a join of "
                       "two consumers of ONE shared node object, 40% with a step whose control columns (window order / partition, sort keys of a limit, join keys, filter "
                       "columns, group keys) are then discarded, 35% ending in a select_columns that discards columns, 15% in a project, 30% in an order_rows; every other "
                       "pipeline on tables of 5-8 rows (else 0-8); "
                       "non-trivial = at least one unreported input column; distinct by script and data")
    terms, metas = [], []
    # corpus: witnesses of the known findings and minimised earlier failures run first
    n = 0
    for f in sorted(glob.glob(os.path.join(lib.ROOT, "corpus", "C10", "*.json"))):
        r = json.load(open(f))
        one_pipeline(chk, random.Random(r.get("pseed", 1)), dec(r["script"]), r["tables"], terms, metas, corpus=True)
        n += 1
    if n == 0:
        one_pipeline(chk, random.Random(1), dec(enc(WITNESS["script"])), WITNESS["tables"], terms, metas, corpus=True)
    chk.cov["corpus_cases"] = n
    for i in range(N[chk.tier]):
        tables = gen_tables(rng)
        if i % 2:
            tables = regen_rows(rng, tables)          # every other pipeline on larger tables (5-8 rows)
        script = gen_script(rng, tables, deep=chk.tier == "thorough" or i % 3 == 0)
        one_pipeline(chk, rng, script, tables, terms, metas)
    timing["pipelines_s"] = round(time.time() - t0, 1)
    t0 = time.time()
    broke = not ok
    if os.path.exists(os.path.join(lib.COQ, "theories/Model/ColumnsUsedCases.vo")):
        failing, errors, nchecked = lib.run_case_files("C10", PRE, terms, "check_cases", per_file=max(100, min(200, -(-len(terms) // 8))), timeout=3000)
        chk.cov["correspondence"] = {"what": "columns_used(), columns_used(using=), per-node columns_used_from_sources, builder_ok, narrowed rebuild: real code vs Model/ColumnsUsed.v",
                                     "cases": len(terms), "checked_in_coq": nchecked, "disagreements": len(failing), "errors": errors[:2],
                                     "by_kind": {k: sum(1 for t in terms if t.startswith(k + " ")) for k in ("CWf", "CCu", "CCuUsing", "CRebuild", "CNode")}}
        chk.cov["traces_validated_against_impl"] = nchecked
        if errors:
            broke = True
            chk.corr_break("correspondence case files failed to compile", errors[0])
        for i in failing[:3]:
            broke = True
            chk.corr_break("Model/ColumnsUsed.v disagrees with the implementation: " + metas[i]["what"], metas[i])
    else:
        broke = True
        chk.corr_break("Model/ColumnsUsedCases.vo not built", "")
    timing["coq_cases_s"] = round(time.time() - t0, 1)
    if broke and not chk.violations:
        # the proof or the model no longer matches the code: search harder for an input on which the code itself fails.
        # (a) the disagreeing pipelines first, on fresh and larger data
        tried = 0
        for i in (failing[:12] if os.path.exists(os.path.join(lib.COQ, "theories/Model/ColumnsUsedCases.vo")) else []):
            m = metas[i]
            if "script" not in m:
                continue
            for _ in range(6):
                one_pipeline(chk, rng, dec(m["script"]), regen_rows(rng, m["tables"]), terms, metas, want_terms=False)
                tried += 1
                if chk.violations:
                    break
            if chk.violations:
                break
        # (b) then fresh pipelines biased towards discarded control columns, on larger tables
        i = -1
        if not chk.violations:
            for i in range(N_SEARCH[chk.tier]):
                tables = regen_rows(rng, gen_tables(rng))
                script = gen_script(rng, tables, deep=True, targeted=0.85)
                one_pipeline(chk, rng, script, tables, terms, metas, want_terms=False)
                if chk.violations:
                    break
        chk.cov["oracle"]["extra_search_pipelines"] = tried + i + 1
    chk.cov["oracle"].update({"what": "perturbation of unreported columns (fresh / null / permuted) on Pandas and SQLite; narrowed rebuild (DAG and script) on restricted inputs",
                              "pipelines": chk.cov["evaluations"]})


def replay(path):
    r = json.load(open(path))
    if "script" not in r or "tables" not in r:
        print(json.dumps(r, indent=1)[:3000])
        return 1
    script, tables = dec(r["script"]), r["tables"]
    try:
        fails = oracle(script, tables, r.get("pseed", 1))
    except Exception as e:
        print("oracle could not run:", repr(e))
        return 1
    sig = r.get("signature")
    hit = [f for f in fails if sig is None or f[2] == sig]
    for what, _, s in fails:
        print("FAIL", s, what[:300])
    if not fails:
        print("no failure: the property holds on this input")
    return 1 if hit else 0
