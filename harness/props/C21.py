"""C21 -- solution helpers compute what their documentation promises (data_algebra/solutions.py:
replicate_rows_query, rank_to_average, last_observed_carried_forward, def_multi_column_map).

proof:  Props/C21.v over Model/Solutions.v (hand transcription of the four helpers' pipelines as Model/Sem.v operator trees,
        plus independent list-level specifications written from the docstrings): the semantics of each pipeline is the
        specification's table (same columns, same rows as a multiset) for every valid input, unbounded.
tie:    (a) the tree the REAL helper builds vs the model's pipeline term, and the frame replicate_rows_query returns vs
        count_frame, compared inside Coq; (c) the real pipeline's result on Pandas and on SQLite vs the model semantics
        (sem_x / sem_xop under fl_pandas / fl_sqlite) of the model's pipeline AND vs the Coq specification, inside Coq;
        (d) the float expression ceil(log(n)/log(2)) of replicate_rows_query -- a Section variable `pw` of the theorem with
        hypothesis n <= 2^(pw n) /\\ pw n <= P -- swept against the three real float computations (numpy scalar in the
        helper, numpy vector on Pandas, math.log/math.ceil callbacks on SQLite) for ALL n <= 2^20 (a finite sweep).
oracle: (b) on the real code: each helper's pipeline evaluated on Pandas and on SQLite vs independent pure-Python reference
        implementations written from the docstrings (positions in the sorted partition, carry-forward loop, nested
        repetition loop, dictionary lookup)."""
import json, os, glob, math, subprocess, sys, time
import numpy as np
import pandas as pd
import lib, pipes, semconv, execcorr as X
from lib import clist, cstr

N = {"quick": 30, "thorough": 300}          # cases per helper
BACKENDS = ("pandas", "sqlite")
FLAVOR = {"pandas": "fl_pandas", "sqlite": "fl_sqlite"}
HELPERS = ("replicate", "rank", "locf", "multimap")
SWEEP_N = 2 ** 20

PREAMBLE = ("From Coq Require Import List Bool ZArith QArith String.\nImport ListNotations.\nOpen Scope string_scope.\n"
            "From DA Require Import Base.PyRT Base.Cases Base.Val Model.Sem Model.SemCases Model.Solutions Model.SolutionsCases.\n"
            "Open Scope list_scope.\n")


# ------------------------------------------------------------------------------------------------ real trees -> Coq terms

XSCALAR = set(semconv.SUPPORTED_SCALAR) | {"where", "concat", "log", "ceil", "as_int64", "/"}


def cexpr(t, kind="scalar"):
    import data_algebra.expr_rep as er
    if isinstance(t, er.ColumnReference):
        return "(ECol %s)" % cstr(t.column_name)
    if isinstance(t, er.Value):
        return "(EConst %s)" % semconv.cval(t.value)
    if isinstance(t, er.Expression):
        if kind == "scalar" and t.op not in XSCALAR:
            raise semconv.Unsupported("scalar op " + t.op)
        if kind == "win" and t.op not in semconv.SUPPORTED_WIN:
            raise semconv.Unsupported("window fn " + t.op)
        return "(EOp %s %s)" % (cstr(t.op), clist([cexpr(a, "scalar") for a in t.args]))
    raise semconv.Unsupported("term " + type(t).__name__)


def recmap_shape(node):
    """(constructor, record keys, name column, value column, value columns) of a single-value-column unpivot / pivot map"""
    rm = node.record_map
    if rm.blocks_in is None and rm.blocks_out is not None:
        kind, spec = "XUnpivot", rm.blocks_out
    elif rm.blocks_out is None and rm.blocks_in is not None:
        kind, spec = "XPivot", rm.blocks_in
    else:
        raise semconv.Unsupported("record map with blocks on both sides")
    ct = spec.control_table
    cols = list(ct.columns)
    if len(cols) != 2 or list(spec.control_table_keys) != [cols[0]] or list(ct[cols[0]]) != list(ct[cols[1]]):
        raise semconv.Unsupported("record map that is not a one-value-column pivot / unpivot")
    return kind, list(spec.record_keys), cols[0], cols[1], [str(x) for x in ct[cols[0]]]


TMP = {"XUnpivot": "@unpivoted", "XPivot": "@pivoted"}
sl = semconv.sl


def cop(node, binds):
    """real operator DAG -> Coq `op` term; a convert_records node becomes a table reference bound in `binds`"""
    name = node.node_name
    if name == "TableDescription":
        return "(OTable %s %s)" % (cstr(node.table_name), sl(node.column_names))
    if name == "ConvertRecordsNode":
        kind = recmap_shape(node)[0]
        binds.append((TMP[kind], xcop(node)))
        return "(OTable %s %s)" % (cstr(TMP[kind]), sl(node.column_names))
    src = [cop(s, binds) for s in node.sources]
    if name == "ExtendNode":
        wd = bool(node.windowed_situation)
        ops = clist(["(%s, %s)" % (cstr(k), cexpr(v, "win" if wd else "scalar")) for k, v in node.ops.items()])
        part = node.partition_by if isinstance(node.partition_by, list) else []
        return "(OExtend %s %s %s (mkwin %s %s %s))" % (src[0], ops, lib.cbool(wd), sl(part), sl(node.order_by), sl(node.reverse))
    if name == "SelectRowsNode":
        return "(OSelectRows %s %s)" % (src[0], cexpr(node.expr))
    if name == "SelectColumnsNode":
        return "(OSelectCols %s %s)" % (src[0], sl(node.column_selection))
    if name == "DropColumnsNode":
        return "(ODropCols %s %s)" % (src[0], sl(node.column_deletions))
    if name == "RenameColumnsNode":
        return "(ORename %s %s)" % (src[0], clist(["(%s, %s)" % (cstr(n), cstr(o)) for n, o in node.column_remapping.items()]))
    if name == "NaturalJoinNode":
        jt = {"INNER": "JInner", "LEFT": "JLeft", "RIGHT": "JRight", "FULL": "JFull"}.get(node.jointype)
        if jt is None:
            raise semconv.Unsupported("join type " + node.jointype)
        return "(OJoin %s %s %s %s %s)" % (src[0], src[1], sl(node.on_a), sl(node.on_b), jt)
    raise semconv.Unsupported("node " + name)


def xcop(node):
    """real operator DAG -> Coq `xop` term (Model/Solutions.v)"""
    if node.node_name == "ConvertRecordsNode":
        kind, keys, namec, valc, vcols = recmap_shape(node)
        return "(%s %s %s %s %s %s)" % (kind, xcop(node.sources[0]), sl(keys), cstr(namec), cstr(valc), sl(vcols))
    binds = []
    t = "(XSem %s)" % cop(node, binds)
    for n, x in reversed(binds):
        t = "(XLet %s %s %s)" % (cstr(n), x, t)
    return t


# ------------------------------------------------------------------------------------------------ cases

class HCase:
    """one helper call: helper name, keyword arguments, input tables {name: {"spec": [(col, type)], "rows": [[...]]}}"""

    def __init__(self, helper, args, tables):
        self.helper, self.args, self.tables = helper, args, tables
        self._built = None
        self._res = {}

    def json(self):
        return {"helper": self.helper, "args": self.args,
                "tables": {k: {"spec": [list(x) for x in t["spec"]], "rows": t["rows"]} for k, t in self.tables.items()}}

    def key(self):
        return json.dumps(self.json(), sort_keys=True, default=str)

    def with_rows(self, name, rows):
        tabs = dict(self.tables)
        tabs[name] = {"spec": tabs[name]["spec"], "rows": rows}
        return HCase(self.helper, self.args, tabs)

    def frames(self):
        return {k: pipes.make_frame([tuple(x) for x in t["spec"]], t["rows"]) for k, t in self.tables.items()}

    def build(self):
        """(ops, frames) from the REAL helper"""
        if self._built is None:
            import data_algebra.solutions as sol
            from data_algebra.data_ops import descr
            fr = self.frames()
            a = self.args
            d = descr(d=fr["d"])
            if self.helper == "replicate":
                ops, cf = sol.replicate_rows_query(d, count_column_name=a["cnt"], seq_column_name=a["seq"], join_temp_name=a["jt"], max_count=a["max_count"])
                fr[a["jt"]] = cf
            elif self.helper == "rank":
                kw = {"tie_breaker_column_name": a["tb"]} if a.get("tb") else {}
                ops = sol.rank_to_average(d, order_by=a["order_by"], partition_by=a["partition_by"], rank_column_name=a["rank"], **kw)
            elif self.helper == "locf":
                ops = sol.last_observed_carried_forward(d, order_by=a["order_by"], partition_by=a["partition_by"], value_column_name=a["value"], **a.get("names", {}))
            elif self.helper == "multimap":
                ops = sol.def_multi_column_map(d, mapping_table=descr(m=fr["m"]), row_keys=a["keys"], col_name_key=a["namec"], col_value_key=a["valc"],
                                               mapped_value_key=a["mapc"], cols_to_map=a["vcols"], coalesce_value=a.get("coalesce"),
                                               cols_to_map_back=a.get("back"))
            else:
                raise ValueError(self.helper)
            self._built = (ops, fr)
        return self._built

    def result(self, backend):
        if backend not in self._res:
            try:
                ops, fr = self.build()
                self._res[backend] = (X.eval_backend(ops, fr, backend), None)
            except Exception as e:               # noqa
                self._res[backend] = (None, f"{type(e).__name__}: {str(e)[:200]}")
        return self._res[backend]


def case_from_json(j):
    return HCase(j["helper"], j["args"], {k: {"spec": [tuple(x) for x in t["spec"]], "rows": t["rows"]} for k, t in j["tables"].items()})


def _extra_cols(rng, taken, n):
    out = []
    for i in range(n):
        name = f"e{i}"
        if name not in taken:
            out.append((name, rng.choice(["int", "float", "str"])))
    return out


def gen_replicate(rng, big):
    pool = [1, 2, 3, 4, 5, 6, 7, 8, 9, 11, 13, 15, 16, 17, 24, 31, 32, 33] + ([63, 64, 65, 100, 127, 129, 200] if big else [])
    maxc = rng.choice(pool)
    nrows = rng.choice([0, 1, 2, 3, 3, 4, 5])
    cnt, seq, jt = rng.choice(["n", "count", "k"]), rng.choice(["i", "seq", "copy"]), rng.choice(["jt", "count_frame_tmp"])
    spec = _extra_cols(rng, {cnt, seq}, rng.randint(0, 2))
    spec.insert(rng.randint(0, len(spec)), (cnt, "int"))
    counts = [rng.choice([1, maxc, rng.randint(1, maxc), rng.randint(1, maxc)]) for _ in range(nrows)]
    if nrows >= 2 and rng.random() < 0.6:
        counts[0], counts[1] = 1, maxc
        rng.shuffle(counts)
    rows = [[counts[i] if c == cnt else pipes.gen_value(rng, ty, 0.2) for c, ty in spec] for i in range(nrows)]
    return HCase("replicate", {"cnt": cnt, "seq": seq, "jt": jt, "max_count": maxc}, {"d": {"spec": spec, "rows": rows}})


DOM = {"int": [0, 1, 2], "float": [0.5, 1.0, 2.25], "str": ["a", "b", "c c"]}


# order values on which "equal", "prints alike" and "hashes alike" come apart: floats that differ in the last ulp(s) (and agree
# to 15 significant digits), signed zeros (equal, printed differently), integers beyond 2^53 (distinct, equal once turned into floats)
EDGE = {"float": [[0.1 + 0.2, 0.3, 0.5], [0.0, -0.0, 1.0], [1.0, 1.0000000000000002, 2.0], [0.7, 0.1 * 7, -0.0], [1e16, 1e16 + 2.0, 0.0]],
        "int": [[2 ** 53, 2 ** 53 + 1, 0], [2 ** 53 + 1, 2 ** 53 + 2, -(2 ** 53) - 1]]}


def gen_rank(rng, big, edge=None):
    nrows = rng.choice([0, 1, 2, 3, 4, 5, 6, 7, 8] + ([12, 16] if big else []))
    npb, nob = rng.choice([0, 1, 1, 2]), rng.choice([1, 1, 2])
    if edge is None:
        edge = rng.random() < 0.25
    spec, pb, ob, dom = [], [], [], {}
    for i in range(npb):
        spec.append((f"g{i}", rng.choice(["int", "str"]))); pb.append(f"g{i}")
    for i in range(nob):
        ty = rng.choice(["float", "float", "int"] if edge else ["int", "float", "str"])
        spec.append((f"x{i}", ty)); ob.append(f"x{i}")
        dom[f"x{i}"] = rng.choice(EDGE[ty]) if edge else DOM[ty]
    spec += _extra_cols(rng, set(), rng.randint(0, 2))
    rng.shuffle(spec)
    null_part = rng.random() < 0.25
    rows = []
    for _ in range(nrows):
        r = []
        for c, ty in spec:
            if c in pb:
                r.append(None if (null_part and rng.random() < 0.25) else rng.choice(DOM[ty][:2]))
            elif c in ob:
                r.append(rng.choice(dom[c]))
            else:
                r.append(pipes.gen_value(rng, ty, 0.2))
        rows.append(r)
    args = {"order_by": ob, "partition_by": pb if (pb or rng.random() < 0.5) else None, "rank": rng.choice(["r", "rank"]),
            "tb": rng.choice([None, None, "tb"])}
    return HCase("rank", args, {"d": {"spec": spec, "rows": rows}})


def gen_locf(rng, big):
    nrows = rng.choice([0, 1, 2, 3, 4, 5, 6, 7, 8, 9] + ([14, 18] if big else []))
    npb, two_keys = rng.choice([0, 1, 1, 2]), rng.random() < 0.3
    vty = rng.choice(["float", "int", "str"])
    spec, pb = [], []
    for i in range(npb):
        spec.append((f"g{i}", rng.choice(["int", "str"]))); pb.append(f"g{i}")
    ob = ["o0", "o1"] if two_keys else ["o1"]
    if two_keys:
        spec.append(("o0", "int"))
    spec.append(("o1", rng.choice(["int", "float"])))
    spec.append(("v", vty))
    spec += _extra_cols(rng, set(), rng.randint(0, 2))
    rng.shuffle(spec)
    perm = list(range(nrows)); rng.shuffle(perm)
    style = rng.choice(["random", "random", "lead", "trail", "runs", "allnull"])
    rows = []
    for i in range(nrows):
        r = []
        for c, ty in spec:
            if c in pb:
                r.append(rng.choice(DOM[ty][:2]))
            elif c == "o1":
                r.append(perm[i] if ty == "int" else perm[i] / 2.0 - 1.0)      # distinct: the order is total
            elif c == "o0":
                r.append(rng.choice([0, 1]))
            elif c == "v":
                p = perm[i] / max(1, nrows - 1)
                isnull = {"random": rng.random() < 0.5, "lead": p < 0.4 or rng.random() < 0.2, "trail": p > 0.6 or rng.random() < 0.2,
                          "runs": 0.25 < p < 0.75, "allnull": rng.random() < 0.9}[style]
                r.append(None if isnull else pipes.gen_value(rng, ty, 0.0))
            else:
                r.append(pipes.gen_value(rng, ty, 0.2))
        rows.append(r)
    names = {} if rng.random() < 0.7 else {"locf_to_use_column_name": "use_", "locf_non_null_rank_column_name": "nnr", "locf_tiebreaker_column_name": "tbk"}
    args = {"order_by": ob, "partition_by": pb if (pb or rng.random() < 0.5) else None, "value": "v", "names": names}
    return HCase("locf", args, {"d": {"spec": spec, "rows": rows}})


def gen_multimap(rng, big):
    nrows = rng.choice([0, 1, 2, 3, 4, 5] + ([8, 10] if big else []))
    nkeys, nv = rng.choice([1, 1, 2]), rng.choice([1, 2, 2, 3])
    keys = ["id"] if nkeys == 1 else ["id", "sub"]
    vcols = ["a", "b", "c"][:nv]
    vty = rng.choice(["str", "str", "str", "int"])
    dom = ["x", "y", "z", "w w"] if vty == "str" else [1, 2, 3, 4]
    spec = [(k, "int") for k in keys] + [(c, vty) for c in vcols] + _extra_cols(rng, set(), rng.randint(0, 1))
    rng.shuffle(spec)
    rows = []
    for i in range(nrows):
        r = []
        for c, ty in spec:
            if c == "id":
                r.append(i // 2 if nkeys == 2 else i)
            elif c == "sub":
                r.append(i % 2)
            elif c in vcols:
                r.append(None if rng.random() < 0.15 else rng.choice(dom))
            else:
                r.append(pipes.gen_value(rng, ty, 0.2))
        rows.append(r)
    rng.shuffle(rows)
    namec, valc, mapc = rng.choice([("column_name", "column_value", "mapped_value"), ("cn", "cv", "mv")])
    shared = rng.random() < 0.3
    mty = rng.choice(["float", "int"])
    one = {v: pipes.gen_value(rng, mty, 0.0) for v in dom if rng.random() < 0.6}
    mrows = []
    for c in vcols + (["zz"] if rng.random() < 0.4 else []):
        mp = one if shared else {v: pipes.gen_value(rng, mty, 0.0) for v in dom if rng.random() < 0.6}
        for v, w in mp.items():
            mrows.append({namec: c, valc: v, mapc: w})
    rng.shuffle(mrows)
    mspec = [(namec, "str"), (valc, vty), (mapc, mty)]
    if rng.random() < 0.3:
        mspec.insert(rng.randint(0, 3), ("note", "str"))
    mtab = [[r.get(c, "n") for c, _ in mspec] for r in mrows]
    args = {"keys": keys, "namec": namec, "valc": valc, "mapc": mapc, "vcols": vcols,
            "coalesce": rng.choice([None, None, 0.5, -1]), "back": rng.choice([None, None, [c.upper() + "2" for c in vcols]])}
    return HCase("multimap", args, {"d": {"spec": spec, "rows": rows}, "m": {"spec": mspec, "rows": mtab}})


GEN = {"replicate": gen_replicate, "rank": gen_rank, "locf": gen_locf, "multimap": gen_multimap}


# ------------------------------------------------------------------------------------------------ reference implementations
# written from the docstrings; cells are normalised by pipes.norm_cell (numbers -> float, NaN -> None)

def _rows(case, name):
    t = case.tables[name]
    cols = [c for c, _ in t["spec"]]
    return cols, [{c: pipes.norm_cell(v) for c, v in zip(cols, r)} for r in t["rows"]]


def _okey(r, cols):
    return tuple((0, r[c], "") if isinstance(r[c], float) else (1, 0.0, r[c]) for c in cols)


def ref_replicate(case):
    """'replicate each row by count_column_name copies', numbered 0..count-1 in seq_column_name"""
    a = case.args
    cols, rows = _rows(case, "d")
    out = []
    for r in rows:
        for i in range(int(r[a["cnt"]])):
            out.append(dict(r, **{a["seq"]: float(i)}))
    return cols + [a["seq"]], out


def _raw_okey(r, cols):
    """order key on the RAW cell values: Python compares ints and floats exactly (2**53 + 1 > 2.0**53, 0.0 == -0.0)"""
    return tuple((1, 0, r[c]) if isinstance(r[c], str) else (0, r[c], "") for c in cols)


def ref_rank(case):
    """'the rank of each item is the average of all items with same order position', e.g. [1, 1, 2] -> [1.5, 1.5, 3]; per partition"""
    a = case.args
    cols, rows = _rows(case, "d")
    raw = [dict(zip(cols, r)) for r in case.tables["d"]["rows"]]        # exact values for ordering and tie groups
    pb, ob = a["partition_by"] or [], a["order_by"]
    parts = {}
    for i, r in enumerate(raw):
        parts.setdefault(tuple(r[c] for c in pb), []).append(i)
    rank = {}
    for idx in parts.values():
        srt = sorted(idx, key=lambda i: _raw_okey(raw[i], ob))
        pos = {}
        for p, i in enumerate(srt, 1):
            pos.setdefault(_raw_okey(raw[i], ob), []).append(p)
        for i in idx:
            ps = pos[_raw_okey(raw[i], ob)]
            rank[i] = sum(ps) / len(ps)
    return cols + [a["rank"]], [dict(r, **{a["rank"]: rank[i]}) for i, r in enumerate(rows)]


def ref_locf(case):
    """'copy last observed non-null value in column value_column_name forward using order order_by and optional partition_by'"""
    a = case.args
    cols, rows = _rows(case, "d")
    pb, ob, v = a["partition_by"] or [], a["order_by"], a["value"]
    parts = {}
    for i, r in enumerate(rows):
        parts.setdefault(tuple(r[c] for c in pb), []).append(i)
    out = [dict(r) for r in rows]
    for idx in parts.values():
        last = None
        for i in sorted(idx, key=lambda i: _okey(rows[i], ob)):
            if rows[i][v] is None:
                out[i][v] = last
            else:
                last = rows[i][v]
    return cols, out


def ref_multimap(case):
    """'map all columns in list cols_to_map through the mapping in mapping table (key by column name and value)'"""
    a = case.args
    cols, rows = _rows(case, "d")
    _, mrows = _rows(case, "m")
    table = {(m[a["namec"]], m[a["valc"]]): m[a["mapc"]] for m in mrows}
    names = a.get("back") or a["vcols"]
    co = a.get("coalesce")
    out = []
    for r in rows:
        o = {k: r[k] for k in a["keys"]}
        for c, n in zip(a["vcols"], names):
            w = table.get((c, r[c])) if r[c] is not None else None
            o[n] = (float(co) if (w is None and co is not None) else w)
        out.append(o)
    return a["keys"] + names, out


REF = {"replicate": ref_replicate, "rank": ref_rank, "locf": ref_locf, "multimap": ref_multimap}


def oracle(case, backend):
    """None, or a description of how the real pipeline's result on `backend` differs from the documented result"""
    res, err = case.result(backend)
    if res is None:
        return f"{case.helper} on {backend}: the helper / its pipeline raised {err}"
    cols, rows = REF[case.helper](case)
    want = pd.DataFrame([[r[c] for c in cols] for r in rows], columns=cols, dtype=object)
    why = pipes.frames_equiv(res, want)
    if why is None:
        return None
    return f"{case.helper} on {backend}: result differs from the documented one ({why})"


def cause_of(why):
    if "raised" in why:
        return "raised"
    if "row counts" in why:
        return "row_count"
    if "columns differ" in why:
        return "columns"
    return "value"


def shrink(case, backend):
    def fails(rows):
        return oracle(case.with_rows("d", rows), backend) is not None
    rows = lib.shrink_list(case.tables["d"]["rows"], fails, max_steps=80)
    c2 = case.with_rows("d", rows)
    if "m" in c2.tables:
        def fails_m(rows):
            return oracle(c2.with_rows("m", rows), backend) is not None
        c2 = c2.with_rows("m", lib.shrink_list(c2.tables["m"]["rows"], fails_m, max_steps=60))
    return c2


def report_violation(chk, case, backend, why):
    small = shrink(case, backend)
    why2 = oracle(small, backend) or why
    res, err = small.result(backend)
    cols, rows = REF[small.helper](small)
    rep = {"kind": "impl-violation", "case": small.json(), "backend": backend, "why": why2,
           "observed": None if res is None else pipes.frame_to_json(res), "error": err,
           "documented": {"columns": cols, "rows": [[r[c] for c in cols] for r in rows]}}
    return chk.impl_violation(why2, rep, {"helper": small.helper, "backend": backend, "cause": cause_of(why2)})


# ------------------------------------------------------------------------------------------------ Coq case terms

def call_term(case, ops):
    a = case.args
    d = "(OTable %s %s)" % (cstr("d"), sl([c for c, _ in case.tables["d"]["spec"]]))
    if case.helper == "replicate":
        return "(HRep %s %s %s %s %d%%nat)" % (d, cstr(a["cnt"]), cstr(a["seq"]), cstr(a["jt"]), a["max_count"])
    if case.helper == "rank":
        return "(HRank %s %s %s %s %s)" % (d, sl(a["order_by"]), sl(a["partition_by"] or []), cstr(a["rank"]), cstr(a.get("tb") or "rank_tie_breaker"))
    if case.helper == "locf":
        n = a.get("names") or {}
        return "(HLocf %s %s %s %s %s %s %s)" % (d, sl(a["order_by"]), sl(a["partition_by"] or []), cstr(a["value"]),
                                                cstr(n.get("locf_to_use_column_name", "locf_to_use")),
                                                cstr(n.get("locf_non_null_rank_column_name", "locf_non_null_rank")),
                                                cstr(n.get("locf_tiebreaker_column_name", "locf_tiebreaker")))
    m = "(OTable %s %s)" % (cstr("m"), sl([c for c, _ in case.tables["m"]["spec"]]))
    co = "None" if a.get("coalesce") is None else "(Some %s)" % semconv.cval(a["coalesce"])
    back = "None" if a.get("back") is None else "(Some %s)" % sl(a["back"])
    return "(HMM %s %s %s %s %s %s %s %s %s)" % (d, m, sl(a["keys"]), cstr(a["namec"]), cstr(a["valc"]), cstr(a["mapc"]), sl(a["vcols"]), co, back)


def coq_case(case, results):
    ops, fr = case.build()
    res = clist(["(%s, %s)" % (FLAVOR[b], semconv.ctable(r)) for b, r in results])
    return "mkc %s (Some %s) %s %s" % (call_term(case, ops), xcop(ops), semconv.cenv(fr), res)


def diagnose(term):
    """which part of case_ok fails for one case term (1 tree, 2 returned frame, 3/4 model semantics, 5 validity, 6 spec)"""
    src = PREAMBLE + "Eval vm_compute in diagnose (%s).\n" % term
    os.makedirs(os.path.join(lib.COQ, "cases"), exist_ok=True)
    fn = os.path.join(lib.COQ, "cases", "C21_diag.v")
    open(fn, "w").write(src)
    rc, out, _ = lib.sh(["coqc", "-Q", "theories", "DA", "-Q", "cases", "DAcases", "cases/C21_diag.v"], cwd=lib.COQ, timeout=300)
    for ext in (".v", ".vo", ".vok", ".vos", ".glob"):
        try:
            os.remove(fn[:-2] + ext)
        except OSError:
            pass
    try:
        os.remove(os.path.join(lib.COQ, "cases", ".C21_diag.aux"))
    except OSError:
        pass
    names = {"1": "tree built by the real helper differs from the model's pipeline", "2": "frame returned by replicate_rows_query differs from count_frame",
             "3": "model semantics differs from the backend's result", "4": "model semantics undefined", "5": "generated input is not valid",
             "6": "Coq specification differs from the backend's result", "7": "specification undefined"}
    flat = " ".join(out.split())
    import re
    m = re.search(r"= (\[[^\]]*\]|nil)", flat)
    codes = re.findall(r"\d+", m.group(1)) if m else []
    return [names.get(c, c) for c in codes] or [flat[-300:]]


# ------------------------------------------------------------------------------------------------ the float sweep (subprocess)

FLOAT_PY = "int(numpy.ceil(numpy.log(max_count) / numpy.log(2)))"
FLOAT_DA = "({count_column_name}.log() / (2).log()).ceil().as_int64()"


def _sweep_main():
    """sweep the three real float computations of ceil(log2 n) for all n <= SWEEP_N; prints one JSON object"""
    import inspect, warnings
    warnings.filterwarnings("ignore")
    import numpy
    import data_algebra.solutions as sol
    import data_algebra.SQLite
    from data_algebra.data_ops import TableDescription
    out = {"N": SWEEP_N, "fail": [], "not_exact": {}}
    src = inspect.getsource(sol.replicate_rows_query)
    out["source_ok"] = (FLOAT_PY in src) and (FLOAT_DA in src)
    n_all = numpy.arange(1, SWEEP_N + 1, dtype=numpy.int64)
    exact = numpy.array([(n - 1).bit_length() for n in range(1, SWEEP_N + 1)], dtype=numpy.int64)
    # (1) the helper's own scalar computation of the largest power
    log, ceil, l2 = numpy.log, numpy.ceil, numpy.log(2)
    sca = numpy.array([int(ceil(log(n) / l2)) for n in range(1, SWEEP_N + 1)], dtype=numpy.int64)
    bound = numpy.minimum.accumulate(sca[::-1])[::-1]          # min over max_count >= n of P(max_count)
    # (2) the pipeline's expression on Pandas, through the real executor
    ops = TableDescription(table_name="d", column_names=["n"]).extend({"p": "((n.log() / (2).log()).ceil()).as_int64()"})
    vec = ops.eval({"d": pd.DataFrame({"n": n_all})})["p"].to_numpy().astype(numpy.int64)
    for name, a in (("python_scalar", sca), ("pandas", vec)):
        bad = numpy.nonzero((numpy.left_shift(numpy.int64(1), a) < n_all) | (a > bound))[0]
        out["fail"] += [[name, int(n_all[i]), int(a[i])] for i in bad[:5]]
        out["not_exact"][name] = int(numpy.sum(a != exact))
    # (3) the generated SQL on SQLite (math.log / math.ceil callbacks), aggregated per power
    h = data_algebra.SQLite.example_handle()
    try:
        h.conn.execute(f'CREATE TEMP VIEW "d" AS WITH RECURSIVE c(n) AS (SELECT 1 UNION ALL SELECT n+1 FROM c WHERE n < {SWEEP_N}) SELECT n AS "n" FROM c')
        sql = h.db_model.to_sql(ops)
        got = h.conn.execute(f'SELECT "p", MIN("n"), MAX("n"), COUNT(*) FROM (\n{sql}\n) GROUP BY "p" ORDER BY "p"').fetchall()
    finally:
        h.close()
    total, nex = 0, 0
    for p, lo, hi, cnt in got:
        total += cnt
        if p is None or hi > 2 ** int(p) or int(p) > int(bound[lo - 1]) or int(p) > int(bound[hi - 1]):
            out["fail"].append(["sqlite", int(hi), None if p is None else int(p)])
        if p is None or not (lo == (2 ** (int(p) - 1) + 1 if p > 0 else 1) and hi == 2 ** int(p) and cnt == hi - lo + 1):
            nex += 1
    if total != SWEEP_N:
        out["fail"].append(["sqlite", "rows", total])
    out["not_exact"]["sqlite"] = nex
    print("SWEEP " + json.dumps(out))


def start_sweep():
    env = dict(lib.ENV)
    env["PYTHONPATH"] = lib.REPO + os.pathsep + os.path.join(lib.ROOT, "harness")
    return subprocess.Popen([lib.PY, "-c", "import props.C21 as m; m._sweep_main()"], cwd=os.path.join(lib.ROOT, "harness"), env=env,
                            stdout=subprocess.PIPE, stderr=subprocess.STDOUT, text=True)


def finish_sweep(chk, p):
    try:
        out, _ = p.communicate(timeout=600)
    except subprocess.TimeoutExpired:
        p.kill()
        chk.corr_break("float sweep of ceil(log(n)/log(2)) timed out", "timeout")
        return
    line = [l for l in out.splitlines() if l.startswith("SWEEP ")]
    if not line:
        chk.corr_break("float sweep of ceil(log(n)/log(2)) failed to run", out[-1500:])
        return
    r = json.loads(line[-1][6:])
    chk.cov["float_sweep"] = {"all_n_up_to": r["N"], "hypothesis": "n <= 2^(pw n) and pw n <= P(max_count) for every max_count >= n",
                              "computations": ["numpy scalar (helper, max_count)", "numpy vector through the Pandas executor", "math.log/math.ceil through generated SQL on SQLite"],
                              "violations": r["fail"], "values_differing_from_exact_log2_up": r["not_exact"], "source_expression_found": r["source_ok"]}
    if not r["source_ok"]:
        chk.corr_break("replicate_rows_query no longer contains the float expressions the hypothesis of C21_replicate_rows_correct was swept for",
                       {"expected": [FLOAT_PY, FLOAT_DA]})
    for who, n, p_ in r["fail"][:3]:
        # a count for which the float power is wrong: build the concrete failing input
        if isinstance(n, int):
            c = HCase("replicate", {"cnt": "n", "seq": "i", "jt": "jt", "max_count": n}, {"d": {"spec": [("n", "int")], "rows": [[n]]}})
            found = False
            for b in BACKENDS:
                why = oracle(c, b)
                if why:
                    found = True
                    report_violation(chk, c, b, why)
            if not found:
                chk.corr_break(f"float sweep: {who} computes power {p_} for n={n}: hypothesis of C21_replicate_rows_correct fails", r["fail"][:5])
        else:
            chk.corr_break("float sweep on SQLite did not cover every n", r["fail"][:5])


# ------------------------------------------------------------------------------------------------ run / replay

def run(chk):
    rng = chk.rng
    T0 = time.time()
    timing = {}
    sweep = start_sweep()
    chk.prove([], extra_vo=["theories/Model/SolutionsCases.vo"])
    timing["prove_s"] = round(time.time() - T0, 1)
    chk.cov["trusted_base"] = [
        "Coq 8.16.1 kernel + vm_compute",
        "hand models, modelled not verified, compared with the real code on every run: Model/Sem.v (reference semantics of the operators under the "
        "Pandas / SQLite conventions), Model/Solutions.v (the four helpers' pipelines; the scalar methods where / concat / ceil(log(n)/log(2)).as_int64 "
        "and the one-value-column pivot / unpivot record maps as local extensions sem_x / sem_xop)",
        "the float computation ceil(log(n)/log(2)) is NOT modelled: it is the Section variable pw of C21_replicate_rows_correct, whose hypothesis is "
        "swept against the real numpy / math computations for all n <= 2^20 only",
        "harness/props/C21.py (tree conversion, reference implementations), harness/semconv.py, harness/execcorr.py, harness/pipes.py"]
    chk.assumptions = [
        "valid inputs as the docstrings / assertions state them: counts are integers in 1..max_count; order columns carry no nulls (null placement in "
        "orderings is a listed backend convention, C18); LOCF: the order is total inside each partition and partition keys are not null; "
        "def_multi_column_map: d uniquely keyed by non-null row_keys, mapping table uniquely keyed by non-null (column name, value)",
        "last_observed_carried_forward is modelled with its default selection_predicate is_null()",
        "results are compared as multisets of rows with the suite's 1e-8 relative tolerance; column order is not compared"]
    chk.cov["rule"] = ("per helper N random VALID calls through the real helper on random small tables (0..9 rows quick, up to 18 thorough): replicate: "
                       "max_count from a pool with powers of two and their neighbours, counts forced to include 1 and max_count; rank: 0..2 partition columns "
                       "(25% of cases with null keys), 1..2 order columns over 3-value domains (ties; 25% of cases over edge domains: floats differing in the last ulp, signed zeros, ints beyond 2^53); LOCF: 0..2 partition columns, distinct order values, null runs "
                       "leading / trailing / in the middle / everywhere; multimap: 1..2 row keys, 1..3 mapped columns, unmapped and null values, mapping tables shared "
                       "or not between columns, entries for unlisted columns, optional coalesce / rename; non-trivial = at least 2 input rows; distinct by call+tables")
    cases = []
    for f in sorted(glob.glob(os.path.join(lib.ROOT, "corpus", "C21", "*.json"))):
        try:
            cases.append(case_from_json(json.load(open(f))["case"]))
        except Exception:
            chk.dist("corpus_unreadable")
    big = chk.tier == "thorough"
    for h in HELPERS:
        for _ in range(N[chk.tier]):
            cases.append(GEN[h](rng, big))
    terms, owners = [], []
    for c in cases:
        chk.count(c.key(), nontrivial=len(c.tables["d"]["rows"]) >= 2)
        chk.dist(c.helper)
        chk.dist("rows_%d" % min(len(c.tables["d"]["rows"]), 10))
        if len([s for s in chk.cov["samples"] if s["helper"] == c.helper]) < 1:
            chk.sample(c.json(), maxn=8)
        try:
            c.build()
        except Exception as e:          # noqa
            why = f"{c.helper}: the helper raised {type(e).__name__}: {str(e)[:200]} on a valid call"
            single = c.helper == "multimap" and len(c.args["vcols"]) == 1
            chk.dist("helper_raised_" + c.helper)
            chk.impl_violation(why, {"kind": "impl-violation", "case": c.json(), "why": why, "backend": "build"},
                               {"helper": c.helper, "backend": "build", "cause": "raised", "single_column": single, "exception": type(e).__name__})
            try:                      # the model says when the helper raises, too: compare (built = None)
                terms.append("mkc %s None %s []" % (call_term(c, None), semconv.cenv(c.frames())))
                owners.append(c)
            except semconv.Unsupported:
                pass
            continue
        results = []
        for b in BACKENDS:
            why = oracle(c, b)
            res, err = c.result(b)
            if res is not None:
                results.append((b, res))
            if why:
                chk.dist(f"oracle_fail_{c.helper}_{b}")
                report_violation(chk, c, b, why)
        try:
            terms.append(coq_case(c, results))
            owners.append(c)
        except semconv.Unsupported as u:
            chk.dist("unsupported:" + str(u))
            chk.corr_break(f"the tree built by {c.helper} contains a construct the model does not have: {u}", c.json())
    timing["real_code_and_oracle_s"] = round(time.time() - T0 - timing["prove_s"], 1)
    T1 = time.time()
    failing, errors, nchecked = lib.run_case_files("C21", PREAMBLE, terms, "check_cases", per_file=(10 if chk.tier == "quick" else 25), timeout=1500) if terms else ([], [], 0)
    timing["coq_cases_s"] = round(time.time() - T1, 1)
    chk.cov["correspondence"] = {"cases": len(terms), "checked_in_coq": nchecked, "disagreements": len(failing), "errors": errors[:2],
                                 "what": "tree of the real helper = model pipeline; returned frame = count_frame; per backend: model semantics = real result and Coq spec = real result"}
    chk.cov["traces_validated_against_impl"] = nchecked
    if errors:
        chk.corr_break("correspondence case files failed to compile", errors[0])
    for i in failing[:6]:
        c = owners[i]
        parts = diagnose(terms[i])
        chk.corr_break(f"{c.helper}: model and real code disagree: " + "; ".join(sorted(set(parts))), {"case": c.json(), "parts": parts})
    T2 = time.time()
    finish_sweep(chk, sweep)
    timing["wait_for_sweep_s"] = round(time.time() - T2, 1)
    chk.cov["timing"] = timing
    # a break without a failing input: search further with the oracle on the real code
    if getattr(chk, "pending_breaks", None) and not chk.violations:
        extra = 150 if chk.tier == "quick" else 600
        for h in HELPERS:
            for k in range(extra):
                c = gen_rank(rng, True, edge=True) if (h == "rank" and k % 2 == 0) else GEN[h](rng, True)
                try:
                    c.build()
                except Exception:
                    continue
                for b in BACKENDS:
                    why = oracle(c, b)
                    if why:
                        report_violation(chk, c, b, why)
                if chk.violations:
                    break
            if chk.violations:
                break
        chk.cov["oracle"]["extra_search_cases_per_helper"] = extra


def replay(path):
    r = json.load(open(path))
    if "case" not in r:
        print(json.dumps(r, indent=1, default=str)[:3000])
        return 1
    c = case_from_json(r["case"])
    bad = 0
    try:
        c.build()
    except Exception as e:          # noqa
        print(f"{c.helper}: the helper raised {type(e).__name__}: {str(e)[:200]}")
        return 1
    for b in ([r["backend"]] if r.get("backend") in BACKENDS else BACKENDS):
        why = oracle(c, b)
        print(b, why or "ok")
        bad += 1 if why else 0
    return 1 if bad else 0
