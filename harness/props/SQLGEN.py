"""SQLGEN -- the SQL generator, transcribed step by step, compiles pipelines correctly (pseudo property: deepens C01 C02 C08 C09 C15).
proof:  Props/SQLGEN.v.  Model/SqlGen.v transcribes every `*_to_near_sql` of data_algebra/sql_model.py (how `using` is defaulted /
        extended / checked, the pruning through columns_used_from_sources, which terms are written, the guards of c520ee9 6f11e66
        2bf9832 a22df8b eb42bd0, the view-name counter, the SQL-level extend merge with its contention test and 05d5f06) and the
        SQLite join rewrites of SQLite.py into a TYPED NearSQL tree; Model/SqlSem.v gives that tree its SQL meaning.  Theorems
        (unbounded over pipelines, tables, requests): for table / select_rows / select / drop / rename / map_columns / order_rows /
        project / un-windowed extend incl. the SQL-level merge / concat_rows / natural_join written as a join (INNER, LEFT; RIGHT and
        FULL where the dialect does not rewrite them: PostgreSQLModel, FULL also on SQLiteModel with SQLite >= 3.39; generator as of
        6d4c3d4) / windowed extend for every dialect, incl. the SQL-level extend merge around it (windowed extend folded into the extend below, an
        extend or the id-column extend of concat_rows folded into a windowed step, through select / drop_columns too)
        the generated query asked for any part C of `using` returns exactly the reference table (Model/Sem.v) restricted to C;
        the whole query returns every declared column with the reference rows in the reference order; a request for no column
        keeps the row count; generated view names are pairwise distinct (all node kinds); the pre-c520ee9 / pre-6f11e66
        generators are refuted.  The SQLite rewrites of a join (RIGHT as swapped LEFT, FULL on SQLite < 3.39) are transcribed
        and tied but their semantic theorem is not proved.  SQLGEN_window_merge_partial is the SELECT-level equation of one merge with window
        items (the window_vars contention test), used by the induction; the generator without order columns in window_vars is refuted.
tie:    (a) STRUCTURAL  the REAL NearSQL object graph from ops.to_near_sql_implementation_ (serialised field by field as C04 does;
            annotation / ops_key left out) must be `erase (to_near ...)`, decided inside Coq (Model/SqlGenCases.v CStruct): view names
            canonicalised by first appearance; terms / container columns / declared dependencies as multisets (Python set iteration);
            SQL text character for character, the text of each pipeline expression taken from the real expr_to_sql; with
            allow_extend_merges on and off for SQLiteModel (RIGHT join rewritten, FULL native on SQLite >= 3.39), AND for
            data_algebra.PostgreSQL.PostgreSQLModel() at the dialect record d_generic (RIGHT / FULL native, allow_extend_merges read from
            the real model object -- the other setting too in the thorough tier -- join_carry probed per model class), so that
            SQLGEN_correct_partial instantiated at d_generic is tied to the code that produces PostgreSQL text.  The graph compared is the
            one returned by to_near_sql_implementation_, from which BOTH the WITH form (use_with / CTE elimination) and the nested form
            are rendered: the tie is independent of those options (that the renderings mean the same is C04's theorem);
        (b) BEHAVIOURAL `nsem fl_sqlite` of the MODEL's tree evaluated inside Coq must be the table the REAL SQL text returns from
            SQLite 3.40.1 on the same tables (CSem) -- this validates Model/SqlSem.v against a real engine (all node kinds, joins
            and windows included); the same for the PostgreSQL text (model tree generated at d_generic: native RIGHT / FULL joins)
            executed on SQLite 3.40.1 with execcorr's shims, WITH form in the quick tier, WITH and nested (use_with=False) forms in
            the thorough tier (no PostgreSQL server exists here: what differs between the engines is not covered);
        (c) the generated view names of the model tree are pairwise distinct (CDistinct, the theorem evaluated on the corpus).
oracle: the implementation-level oracle of the property these theorems deepen (Pandas result vs SQLite result) is C01's and is
        not repeated over the whole corpus.  When (a) or (b) breaks, the failing pipelines are ordered (a real Pandas / SQL
        difference first, smaller first), the three first are shrunk to their smallest failing sub-pipeline (one Coq run over
        all sub-pipelines) and the real SQL result is compared with the real Pandas result on it: a difference is reported as
        a failing input of the property; otherwise the break itself is reported (no-failing-input-found)."""
import glob, json, os, re, time, warnings
import lib, pipes, semconv, execcorr as X, semstrict as SS
from lib import clist, cstr, cbool

warnings.filterwarnings("ignore")

N = {"quick": 100, "thorough": 1200}
PRE = ("From Coq Require Import List Bool ZArith QArith String.\nImport ListNotations.\nOpen Scope string_scope.\n"
       "From DA Require Import Base.PyRT Base.Cases Base.Val Model.Sem Model.SemCases Model.SqlGen Model.SqlSem Model.SqlGenCases.\n"
       "Open Scope list_scope.\n")
NAME_RE = re.compile(r'^"(.*)_(\d+)"$')


class Unsupported(Exception):
    pass


# ------------------------------------------------------------------------------------------------ Coq literals
def cs(s):
    if all((32 <= ord(c) < 127) for c in s):
        return '"' + s.replace('"', '""') + '"'
    return lib.cstr(s)


def copt(x, f=cs):
    return "None" if x is None else "(Some %s)" % f(x)


def csl(xs):
    return "[" + "; ".join(cs(x) for x in xs) + "]"


def cvname(q):
    m = NAME_RE.match(q)
    if not m:
        return '(mkvn %s 0%%nat)' % cs(q)
    return "(mkvn %s %d%%nat)" % (cs(m.group(1)), int(m.group(2)))


# ------------------------------------------------------------------------------------------------ the real graph -> enear literal
def ser_terms(t, qq=None):
    """terms dict -> Coq option (list (string * option string)); join aliases replaced by <L> / <R>"""
    if t is None:
        return "None"
    if not isinstance(t, dict):
        if isinstance(t, list) and len(t) == 0:
            return "(Some [])"
        raise Unsupported("terms is a %s" % type(t).__name__)
    items = []
    for k, v in t.items():
        if v is not None and qq:
            v = v.replace(qq[0], "<L>").replace(qq[1], "<R>")
        items.append("(%s, %s)" % (cs(k), copt(v)))
    return "(Some [%s])" % "; ".join(items)


def ser_cols(c):
    return "None" if c.columns is None else "(Some %s)" % csl([str(x) for x in c.columns])


def ser(q, model):
    import data_algebra.near_sql as ns
    if isinstance(q, ns.NearSQLTable):
        t = q.terms
        if t is None:
            keys = None
        elif isinstance(t, dict):
            for k, v in t.items():
                if v != model.quote_identifier(k):
                    raise Unsupported("table term %r -> %r" % (k, v))
            keys = list(t.keys())
        elif isinstance(t, list) and not t:
            keys = []
        else:
            raise Unsupported("table terms")
        nm = q.quoted_query_name
        if not (len(nm) >= 2 and nm[0] == '"' and nm[-1] == '"'):
            raise Unsupported("table name quoting")
        return "(ETable %s %s)" % (cs(nm[1:-1]), copt(keys, csl))
    if isinstance(q, ns.NearSQLUnaryStep):
        deps = q.declared_term_dependencies
        cdeps = "None" if deps is None else "(Some [%s])" % "; ".join("(%s, %s)" % (cs(k), csl(sorted(str(x) for x in v))) for k, v in deps.items())
        c = q.sub_sql
        if c.public_name_quoted is not None:
            raise Unsupported("unary container with a public name")
        return "(EUnary %s %s %s %s %s %s %s %s)" % (cvname(q.quoted_query_name), ser_terms(q.terms), ser(c.near_sql, model), ser_cols(c),
                                                     cbool(c.force_sql), csl(list(q.suffix or [])), cbool(q.mergeable), cdeps)
    if isinstance(q, ns.NearSQLBinaryStep):
        c1, c2 = q.sub_sql1, q.sub_sql2
        qq = None
        if c1.public_name_quoted is not None and c2.public_name_quoted is not None:
            qq = (c1.public_name_quoted, c2.public_name_quoted)
        sfx = [s.replace(qq[0], "<L>").replace(qq[1], "<R>") if qq else s for s in (q.suffix or [])]
        joiner = "INNER JOIN" if q.joiner == "CROSS JOIN" else q.joiner          # the model has no CROSS: INNER without ON (same rows)
        return "(EBinary %s %s %s %s %s %s %s %s %s %s %s %s)" % (
            cvname(q.quoted_query_name), ser_terms(q.terms, qq),
            ser(c1.near_sql, model), ser_cols(c1), cbool(c1.force_sql), copt(c1.public_name_quoted, cvname), cs(joiner),
            ser(c2.near_sql, model), ser_cols(c2), cbool(c2.force_sql), copt(c2.public_name_quoted, cvname), csl(sfx))
    raise Unsupported(type(q).__name__)


def expr_texts(ops, model, acc=None, seen=None):
    """[(Coq expr, real SQL text)] for every expression of the DAG (and the labels of concat_rows)"""
    import data_algebra.expr_rep as er
    acc = {} if acc is None else acc
    seen = set() if seen is None else seen
    if id(ops) in seen:
        return acc
    seen.add(id(ops))

    def put(ce, text):
        if ce in acc and acc[ce] != text:
            raise Unsupported("two texts for one model expression")
        acc[ce] = text
    name = ops.node_name
    if name == "ExtendNode":
        kind = "win" if ops.windowed_situation else "scalar"
        for k, v in ops.ops.items():
            put(semconv.cexpr(v, kind), model.expr_to_sql(v))
    elif name == "ProjectNode":
        for k, v in ops.ops.items():
            put(semconv.cexpr(v, "agg"), model.expr_to_sql(v))
    elif name == "SelectRowsNode":
        put(semconv.cexpr(ops.expr), model.expr_to_sql(ops.expr))
    elif name == "ConcatRowsNode" and ops.id_column is not None:
        for nm in (ops.a_name, ops.b_name):
            put("(EConst %s)" % semconv.cval(nm), model.expr_to_sql(er.Value(nm)))
    for s in ops.sources:
        expr_texts(s, model, acc, seen)
    return acc


_CARRY = {}


def pg_default_merges():
    """PostgreSQLModel().allow_extend_merges as the real model object has it"""
    import data_algebra.PostgreSQL
    return bool(data_algebra.PostgreSQL.PostgreSQLModel().allow_extend_merges)


def make_model(merges=True, dialect="sqlite"):
    """dialect 'sqlite': SQLiteModel with allow_extend_merges set to `merges`; 'pg': PostgreSQLModel (merges=None: as the object has it)"""
    if dialect == "pg":
        import data_algebra.PostgreSQL
        m = data_algebra.PostgreSQL.PostgreSQLModel()
        if merges is not None:
            m.allow_extend_merges = bool(merges)
        return m
    import data_algebra.SQLite
    m = data_algebra.SQLite.SQLiteModel()
    m.allow_extend_merges = bool(merges)
    return m


def join_carry(dialect="sqlite"):
    """does _natural_join_sub_queries let an unused side carry one column (/repo 6d4c3d4)?  Read off the code's behaviour, per model class."""
    if dialect not in _CARRY:
        try:
            from data_algebra.data_ops import TableDescription
            a = TableDescription(table_name="pa", column_names=["x", "y"])
            b = TableDescription(table_name="pb", column_names=["x", "z"])
            ops = a.drop_columns(["x"]).natural_join(b, on=[], jointype="CROSS").select_columns(["x", "z"])
            q = ops.to_near_sql_implementation_(db_model=make_model(True, dialect), using=None, temp_id_source=[0])
            cols = q.sub_sql1.columns
            _CARRY[dialect] = cols is not None and len(list(cols)) > 0
        except Exception:
            _CARRY[dialect] = False
    return _CARRY[dialect]


def dname(merges=True, dialect="sqlite"):
    """the model's dialect record for the model object under test.
    sqlite: allow_extend_merges, RIGHT join rewritten, FULL join emulated only below SQLite 3.39, unused join side carries a column (probed)
    pg    : d_generic -- allow_extend_merges as given (None: read from the real PostgreSQLModel object), RIGHT / FULL native, carry probed"""
    if dialect == "pg":
        mg = pg_default_merges() if merges is None else bool(merges)
        return "(mk_dialect %s false false %s)" % (cbool(mg), cbool(join_carry("pg")))
    import sqlite3
    return "(mk_dialect %s true %s %s)" % (cbool(merges), cbool(sqlite3.sqlite_version_info < (3, 39, 0)), cbool(join_carry()))


def struct_term(case, merges=True, dialect="sqlite"):
    """the CStruct literal of a case (raises Unsupported)"""
    model = make_model(merges, dialect)
    ops = case.ops
    cop = semconv.cop(ops)
    txt = expr_texts(ops, model)
    ctxt = "[" + "; ".join("(%s, %s)" % (e, cs(t)) for e, t in txt.items()) + "]"
    q = None
    try:
        ops.columns_used()
        q = ops.to_near_sql_implementation_(db_model=model, using=None, temp_id_source=[0])
    except Exception as e:          # noqa
        case.gen_error = f"{type(e).__name__}: {str(e)[:120]}"
    obs = "None" if q is None else "(Some %s)" % ser(q, model)
    d = dname(merges, dialect)
    top = case.script["op"] in ("select_columns",)
    return "CStruct %s %s %s %s %s" % (d, cop, ctxt, obs, cbool(top))


def sem_term(case, res, dialect="sqlite"):
    """nsem of the model's tree (generated under the dialect record of `dialect`, merges as the real to_sql uses them) vs the table `res`"""
    ordered = X.order_is_total(case.script, res)
    return "CSem %s %s %s %s %s %s" % (dname(True if dialect == "sqlite" else None, dialect), semconv.cop(case.ops), semconv.cenv(case.frames), semconv.ctable(res), cbool(ordered),
                                            cbool(X.defines_column_order(case.script)))


def unused_join_side(ops, seen=None):
    """some natural_join of the DAG is generated with a side none of whose columns is requested (its container has no columns)"""
    try:
        q = ops.to_near_sql_implementation_(db_model=make_model(True), using=None, temp_id_source=[0])
    except Exception:
        return False
    import data_algebra.near_sql as ns

    def walk(n):
        if isinstance(n, ns.NearSQLBinaryStep):
            if "JOIN" in n.joiner and any(c.columns is not None and len(list(c.columns)) == 0 for c in (n.sub_sql1, n.sub_sql2)):
                return True
            return walk(n.sub_sql1.near_sql) or walk(n.sub_sql2.near_sql)
        if isinstance(n, ns.NearSQLUnaryStep):
            return walk(n.sub_sql.near_sql)
        return False
    return walk(q)


def uses_cross(ops, seen=None):
    seen = set() if seen is None else seen
    if id(ops) in seen:
        return False
    seen.add(id(ops))
    if ops.node_name == "NaturalJoinNode" and ops.jointype == "CROSS" and ops.on_a:
        return True
    return any(uses_cross(s, seen) for s in ops.sources)


# ------------------------------------------------------------------------------------------------ own shapes
def own_shapes(rng, tabs):
    """shapes aimed at the generator's corners: guards against narrowing to nothing, constant extends over joins / concats, final
    order_rows, merges after a narrowing, map_columns with deletions, id column over an extend / an unlimited order_rows"""
    t1, t2 = tabs[0], tabs[1]
    T1, T2 = {"op": "table", "name": t1["name"]}, {"op": "table", "name": t2["name"]}
    c1 = [c for c, _ in t1["spec"]]
    n1 = [c for c, ty in t1["spec"] if ty in ("int", "float")]
    a = rng.choice(n1)
    k0 = c1[0]
    out = []
    size = {"op": "project", "src": T1, "ops": {"n": "_size()"}, "group_by": []}
    out.append(size)
    out.append({"op": "select_columns", "src": {"op": "extend", "src": {"op": "project", "src": T1, "ops": {"s": f"{a}.sum()"}, "group_by": []}, "ops": {"c": "1"}}, "columns": ["c"]})
    out.append({"op": "extend", "src": {"op": "drop_columns", "src": {"op": "project", "src": T1, "ops": {"s": f"{a}.sum()", "m": f"{a}.max()"}, "group_by": [k0]}, "columns": ["s", "m"]}, "ops": {k0: "7"}})
    out.append({"op": "project", "src": {"op": "select_rows", "src": T1, "expr": f"{a} >= 1"}, "ops": {"n": "_size()"}, "group_by": []})
    out.append({"op": "project", "src": {"op": "rename_columns", "src": {"op": "select_rows", "src": T1, "expr": f"{a} >= 1"}, "map": {"zz": k0}}, "ops": {"n": "_size()"}, "group_by": []})
    out.append({"op": "order_rows", "src": T1, "columns": ["uid"], "reverse": rng.choice([[], ["uid"]]), "limit": rng.choice([None, 2])})
    out.append({"op": "order_rows", "src": {"op": "extend", "src": T1, "ops": {"x": f"{a} + 1"}}, "columns": ["x", "uid"], "reverse": ["x"], "limit": 3})
    out.append({"op": "order_rows", "src": T1, "columns": [], "reverse": [], "limit": 2} if False else
               {"op": "select_columns", "src": {"op": "order_rows", "src": T1, "columns": ["uid"], "reverse": [], "limit": 2}, "columns": [k0]})
    cc = {"op": "concat_rows", "src": T1, "b": T1, "id_column": None, "a_name": "a", "b_name": "b"}
    out.append({"op": "select_columns", "src": {"op": "extend", "src": cc, "ops": {"one": "1"}}, "columns": ["one"]})
    out.append({"op": "project", "src": {"op": "concat_rows", "src": T1, "b": T1, "id_column": "src", "a_name": "a", "b_name": "b"}, "ops": {"n": "_size()"}, "group_by": []})
    out.append({"op": "concat_rows", "src": {"op": "extend", "src": T1, "ops": {"x": f"{a} + 1"}}, "b": {"op": "extend", "src": T1, "ops": {"x": f"{a} * 2"}},
                "id_column": "src", "a_name": "l", "b_name": "r"})
    out.append({"op": "concat_rows", "src": T1, "b": {"op": "order_rows", "src": T1, "columns": ["uid"], "reverse": [], "limit": None},
                "id_column": "src", "a_name": "l", "b_name": "r"})
    out.append({"op": "concat_rows", "src": {"op": "select_rows", "src": T1, "expr": "uid >= 1"}, "b": {"op": "select_rows", "src": T1, "expr": "uid <= 2"},
                "id_column": rng.choice([None, "src"]), "a_name": "l", "b_name": "r"})
    if all(dict(t1["spec"])[c] == dict(t2["spec"])[c] for c in c1 if c in [x for x, _ in t2["spec"]]):
        for jt in ("INNER", "LEFT", "RIGHT", "FULL"):
            j = {"op": "natural_join", "src": T1, "b": T2, "on": ["uid"], "jointype": jt}
            out.append(j)
            out.append({"op": "select_columns", "src": {"op": "extend", "src": j, "ops": {"one": "1"}}, "columns": ["one"]})
            out.append({"op": "project", "src": j, "ops": {"n": "_size()"}, "group_by": []})
    if len(c1) >= 3:
        g2 = [c for c in c1 if c != "uid"][:2]
        if len(g2) == 2:          # two group / partition / order keys (a generator that writes only the first one must be seen)
            out.append({"op": "project", "src": T1, "ops": {"n": "_size()", "m": "uid.max()"}, "group_by": g2})
            out.append({"op": "select_columns", "src": {"op": "project", "src": T1, "ops": {"n": "_size()"}, "group_by": g2}, "columns": ["n", g2[1]]})
            out.append({"op": "extend", "src": T1, "ops": {"r": "_row_number()"}, "partition_by": g2, "order_by": ["uid"], "reverse": ["uid"]})
            out.append({"op": "order_rows", "src": T1, "columns": g2 + ["uid"], "reverse": [g2[1]], "limit": rng.choice([None, 3])})
    c2 = [c for c, _ in t2["spec"]]
    shared = [c for c in c1 if c in c2 and c != "uid"]
    if shared and len(c1) >= 2 and all(dict(t1["spec"])[c] == dict(t2["spec"])[c] for c in shared):
        # a join side nothing of which is used, with a dropped column the other side also has (finding SQLGEN-join-unused-side-...)
        out.append({"op": "select_columns", "src": {"op": "natural_join", "src": {"op": "drop_columns", "src": T1, "columns": [shared[0]]}, "b": T2,
                                                    "on": [], "jointype": "CROSS"}, "columns": [shared[0]]})
    e1 = {"op": "extend", "src": T1, "ops": {"x": f"{a} + 1"}}
    out.append({"op": "extend", "src": {"op": "select_columns", "src": e1, "columns": ["x", "uid"]}, "ops": {"y": "uid + 1"}})
    out.append({"op": "extend", "src": {"op": "drop_columns", "src": e1, "columns": [a]}, "ops": {"y": "uid + 1"}})
    out.append({"op": "extend", "src": {"op": "extend", "src": e1, "ops": {"x": "x + 1"}}, "ops": {"z": "uid * 2"}})
    out.append({"op": "extend", "src": {"op": "extend", "src": e1, "ops": {"y": "x + 1"}}, "ops": {"x": "uid * 2"}})
    out.append({"op": "extend", "src": {"op": "extend", "src": e1, "ops": {"y": f"{a} * 3"}}, "ops": {a: "uid * 2"}})
    w = {"op": "extend", "src": T1, "ops": {"r": f"{a}.cumsum()"}, "partition_by": [k0], "order_by": ["uid"], "reverse": []}
    out.append({"op": "extend", "src": {"op": "drop_columns", "src": w, "columns": [k0]}, "ops": {"y": "uid + 1"}})
    out.append({"op": "extend", "src": {"op": "select_columns", "src": w, "columns": ["r", "uid"]}, "ops": {"y": "uid + 1"}})
    if len(c1) >= 3:
        out.append({"op": "map_columns", "src": T1, "map": {c1[1]: "mm"}, "deletions": [c1[2]]} if False else
                   {"op": "rename_columns", "src": T1, "map": {"mm": c1[1]}})
        out.append({"op": "select_columns", "src": {"op": "rename_columns", "src": T1, "map": {"mm": c1[1], "nn": c1[2]}}, "columns": ["nn", k0]})
    return out


def generate(rng, n):
    cases = SS.generate(rng, int(n * 0.7))
    tries = 0
    while len(cases) < n and tries < 50:
        tries += 1
        tabs = SS.gen_tables(rng, rng.choice([0.0, 0.1, 0.3]), types=("int", "float"), empty=rng.random() < 0.08)
        ss = own_shapes(rng, tabs)
        rng.shuffle(ss)
        for s in ss[:10]:
            try:
                cases.append(SS.make_case(s, tabs, "own"))
            except Exception:
                pass
    return cases[:n]


# ------------------------------------------------------------------------------------------------ the run
def pandas_vs_sqlite(case):
    """None, or why the real SQL result differs from the real Pandas result (the property the theorems deepen)"""
    ra, ea = case.result("pandas")
    rb, eb = case.result("sqlite")
    if ra is None:
        return None
    if rb is None:
        return "the SQL path raises (%s) where Pandas returns a table" % eb
    ordered = X.order_is_total(case.script, ra)
    reason = pipes.frames_equiv(ra, rb, check_col_order=X.defines_column_order(case.script), check_row_order=ordered)
    if reason is not None:
        return "the SQL result differs from the Pandas result: " + reason
    return None


def run(chk):
    rng = chk.rng
    chk.prove([], extra_vo=["theories/Model/SqlGenCases.vo"])
    chk.cov["trusted_base"] = [
        "Coq 8.16.1 kernel + vm_compute",
        "Model/SqlGen.v: hand transcription of the *_to_near_sql methods of sql_model.py and of SQLite.py's join rewrites (and of the two builder "
        "calls the generator itself makes) -- tied to the code by the structural correspondence on every run (real NearSQL graph = erase of the model's tree)",
        "Model/SqlSem.v: hand semantics of the generated SQL fragment (modelled, not verified) -- tied to SQLite 3.40.1 by the behavioural correspondence "
        "on every run; scalar / aggregate / window primitives are those of Model/Sem.v (eval_expr fl_sqlite, agg_fn, win_fn)",
        "Model/ColumnsUsed.v (C10) for columns_used_from_sources; Model/Sem.v as the reference semantics the theorems compare with",
        "harness/semconv.py (operator DAG -> Coq term), harness/pipes.py + harness/semstrict.py (generators), harness/execcorr.py (SQLite backend)"]
    chk.assumptions = [
        "the text of a pipeline EXPRESSION (expr_to_sql) is not generated by the model: it is looked up from the real code; that this text means "
        "eval_expr fl_sqlite is C05's theorem about the templates plus the behavioural tie here",
        "annotation and ops_key of NearSQL steps are not modelled (C04 models them); WITH-form / CTE elimination is C04's theorem",
        "stored tables have exactly the declared columns (wf_env); SELECT-list order built from Python sets is compared as a multiset",
        "the semantic theorems cover the fragment `stage1` (see Props/SQLGEN.v): a natural_join the dialect REWRITES (SQLiteModel: RIGHT as the swapped LEFT "
        "join; FULL on SQLite < 3.39) and an id-column concat_rows over an unlimited order_rows are covered by the "
        "two ties only; natural_join written as a join is covered by the theorems for the generator since /repo 6d4c3d4 (d_join_carry = true, probed here)",
        "the list-based SQL semantics fixes one row order (input order kept by every step but ORDER BY); real engines may return another "
        "order where SQL leaves it open -- rows are compared as multisets unless the pipeline ends in a total order_rows",
        "a NATURAL JOIN with jointype CROSS is compared as INNER without ON (same rows); CROSS with keys is skipped"]
    chk.cov["dialects"] = {
        "sqlite": {"model": "SQLiteModel", "record": dname(True), "struct": "allow_extend_merges on and off", "sem": "to_sql() default options on SQLite 3.40.1"},
        "postgresql": {"model": "PostgreSQLModel", "record": dname(None, "pg"), "allow_extend_merges_of_model_object": pg_default_merges(),
                       "struct": "graph of to_near_sql_implementation_ (before WITH / CTE rendering: covers use_with on and off alike); merges as the model object has "
                                 "them" + ("" if chk.tier == "quick" else " and the other setting"),
                       "sem": "PostgreSQL text run on SQLite 3.40.1 with shims: WITH form" + ("" if chk.tier == "quick" else " and nested form (use_with=False)")}}
    chk.cov["rule"] = ("C01's case stream (random pipelines depth 1..5 over 2 tables, C01's shape families: mergeable / non-mergeable extend chains, pruning, shared "
                       "sub-pipelines, joins of all types, concat of filtered copies, limits, windows re-keyed by the extend below, empty tables) plus own shapes aimed at "
                       "the generator's guards (every output pruned, constant extend over join / concat, final order_rows, merge after a narrowing, id column over an "
                       "extend / an unlimited order_rows); every case generated with merges on and off; non-trivial = depth >= 2; distinct by script + tables")
    cases = []
    for f in sorted(glob.glob(os.path.join(lib.ROOT, "corpus", "SQLGEN", "*.json"))):
        try:
            c = X.case_from_json(json.load(open(f))["case"])
            c.stream = "corpus"
            cases.append(c)
        except Exception:
            chk.dist("corpus_unreadable")
    for f in chk.known:                                   # the stored witnesses of the listed findings run on every invocation
        w = f.get("witness")
        if isinstance(w, dict) and "script" in w:
            try:
                c = X.case_from_json(w)
                c.stream = "finding_witness"
                cases.append(c)
            except Exception:
                chk.dist("finding_witness_unreadable")
    cases += generate(rng, N[chk.tier])
    terms, index = [], []
    for ci, c in enumerate(cases):
        chk.count(c.key(), nontrivial=pipes.script_depth(c.script) >= 2)
        chk.dist("stream_" + getattr(c, "stream", "?"))
        for o in set(pipes.script_ops(c.script)):
            chk.dist("op_" + o)
        if uses_cross(c.ops):
            chk.dist("skipped_cross_join_with_keys")
            continue
        try:
            for merges in (True, False):
                terms.append(struct_term(c, merges))
                index.append((ci, "struct", merges))
            terms.append("CDistinct %s %s" % (dname(True), semconv.cop(c.ops)))
            index.append((ci, "distinct", True))
            # the same correspondence for PostgreSQLModel (d_generic: RIGHT / FULL joins native); the other merge setting in the thorough tier
            for merges in ((None,) if chk.tier == "quick" else (None, not pg_default_merges())):
                terms.append(struct_term(c, merges, "pg"))
                index.append((ci, "struct_pg", merges))
        except (Unsupported, semconv.Unsupported) as u:
            chk.dist("unsupported:" + str(u).split()[0])
            continue
        if getattr(c, "gen_error", None):
            chk.dist("real_generator_raised")
            continue
        res, err = c.result("sqlite")
        if res is None:
            chk.dist("sqlite_raised")
            ra, _ = c.result("pandas")
            if ra is not None:
                try:
                    X.eval_backend(c.ops, c.frames, "sqlite")
                except Exception as ex:          # noqa  (Case.result keeps only the head of the message)
                    err = f"{type(ex).__name__}: {str(ex)[-200:]}"
            if ra is not None and "ambiguous column name" in (err or ""):
                rep = {"kind": "impl-violation", "case": c.json(), "why": "the SQL path raises (%s) where Pandas returns a table" % err,
                       "pandas": pipes.frame_to_json(ra), "sqlite_error": err, "tie": "sql-raises"}
                chk.impl_violation("the generated SQL is rejected by SQLite (ambiguous column name) where Pandas returns a table", rep,
                                   {"tie": "sql-raises", "cause": "ambiguous_column_unused_join_side" if unused_join_side(c.ops) else "ambiguous_column"})
            continue
        try:
            terms.append(sem_term(c, res))
            index.append((ci, "sem", True))
        except semconv.Unsupported as u:
            chk.dist("sem_unsupported:" + str(u).split()[0])
        # PostgreSQL text (WITH form; in the thorough tier also the nested form use_with=False) executed on SQLite 3.40 with execcorr's shims
        for uw in ((True,) if chk.tier == "quick" else (True, False)):
            try:
                if uw:
                    rp, ep = c.result("pgtext")
                else:
                    import data_algebra.sql_format_options as sfo
                    rp = X.eval_sql(c.ops, c.frames, "postgres", options=sfo.SQLFormatOptions(use_with=False))
            except Exception:
                rp = None
            if rp is None:
                chk.dist("pgtext_raised" if uw else "pgtext_nested_raised")
                continue
            try:
                terms.append(sem_term(c, rp, "pg"))
                index.append((ci, "sem_pg", uw))
            except semconv.Unsupported as u:
                chk.dist("sem_unsupported:" + str(u).split()[0])
        if len(chk.cov["samples"]) < 3:
            chk.sample({"case": c.json()})
    failing, errors, nchecked = lib.run_case_files("SQLGEN", PRE, terms, "check_cases", per_file=24, timeout=1500)
    kinds = {}
    for (ci, kind, merges) in index:
        kinds[kind] = kinds.get(kind, 0) + 1
    chk.cov["correspondence"] = {"cases": len(terms), "checked_in_coq": nchecked, "by_kind": kinds, "disagreements": len(failing), "errors": errors[:2]}
    chk.cov["traces_validated_against_impl"] = nchecked
    if errors:
        chk.corr_break("correspondence case files failed to compile", errors[0])
    todo, seen = [], set()
    for i in failing:
        ci, kind, merges = index[i]
        if (ci, kind) not in seen:
            seen.add((ci, kind))
            todo.append((ci, kind, merges))
    chk.cov["correspondence"]["failing_cases"] = len(todo)

    def differs(t):
        try:
            return pandas_vs_sqlite(cases[t[0]]) is not None
        except Exception:
            return False
    todo.sort(key=lambda t: (0 if differs(t) else 1, pipes.script_depth(cases[t[0]].script)))
    for ci, kind, merges in todo[:3]:          # the smallest failing inputs, real Pandas/SQL differences first
        report(chk, cases[ci], kind, merges)


def case_term(case, kind, merges):
    if uses_cross(case.ops):
        return None
    if kind == "struct":
        return struct_term(case, merges)
    if kind == "struct_pg":
        return struct_term(case, merges, "pg")
    if kind == "sem_pg":
        rp, ep = case.result("pgtext")
        return None if rp is None else sem_term(case, rp, "pg")
    if kind == "distinct":
        return "CDistinct %s %s" % (dname(True), semconv.cop(case.ops))
    res, err = case.result("sqlite")
    if res is None:
        return None
    return sem_term(case, res)


def shrink_batch(case, kind, merges):
    """the smallest sub-pipeline of `case` on which the same correspondence still fails (ONE Coq run over all candidates)"""
    cands = []
    for s in sorted(X.sub_scripts(case.script), key=pipes.script_depth):
        if s is case.script or s["op"] == "table":
            continue
        try:
            c2 = X.Case(s, case.tabs, pipes.build(s, case.tables))
            t = case_term(c2, kind, merges)
            if t is not None:
                cands.append((c2, t))
        except Exception:
            continue
    if not cands:
        return case
    failing, errors, n = lib.run_case_files("SQLGEN_shrink", PRE, [t for _, t in cands], "check_cases", per_file=12, timeout=600)
    for k in sorted(failing):
        if k < len(cands):
            return cands[k][0]
    return case


def still_fails(kind, merges):
    def f(case):
        try:
            t = case_term(case, kind, merges)
            if t is None:
                return False
            failing, errors, n = lib.run_case_files("SQLGEN_shrink", PRE, [t], "check_cases", per_file=5, timeout=300)
            return bool(failing)
        except Exception:
            return False
    return f


def search_tables(rng, case, tries=30):
    """(case', why) for the pipeline of `case` on freshly drawn rows of the same tables, when some draw makes Pandas and SQL differ"""
    for _ in range(tries):
        tabs2 = []
        for t in case.tabs:
            spec = [tuple(x) for x in t["spec"]]
            n = rng.choice([4, 6, 8])
            rows = []
            for i in range(n):
                rows.append([(i if c == "uid" else pipes.gen_value(rng, ty, 0.1)) if True else None for c, ty in spec])
            if any(c == "uid" for c, _ in spec):
                perm = list(range(n)); rng.shuffle(perm)
                j = [c for c, _ in spec].index("uid")
                for i, r in enumerate(rows):
                    r[j] = perm[i]
            tabs2.append(dict(t, rows=rows))
        try:
            c2 = X.Case(case.script, tabs2, pipes.build(case.script, {x["name"]: x for x in tabs2}))
            why = pandas_vs_sqlite(c2)
            if why:
                return c2, why
        except Exception:
            continue
    return case, None


def report(chk, case, kind, merges):
    what = {"struct": "the real NearSQL graph is not the one Model/SqlGen.v generates (allow_extend_merges=%s)" % merges,
            "sem": "the real SQL text executed on SQLite does not return what Model/SqlSem.v computes for the model's tree",
            "struct_pg": "the real NearSQL graph of PostgreSQLModel is not the one Model/SqlGen.v generates at d_generic (allow_extend_merges=%s)" % merges,
            "sem_pg": "the PostgreSQL text executed on SQLite (shims) does not return what Model/SqlSem.v computes for the d_generic tree (use_with=%s)" % merges,
            "distinct": "the generated view names are not pairwise distinct"}[kind]
    small = case
    try:
        small = shrink_batch(case, kind, merges)
    except Exception:
        pass
    why = None
    try:
        why = pandas_vs_sqlite(small)
        if not why and pandas_vs_sqlite(case):
            small, why = case, pandas_vs_sqlite(case)
        if not why:                      # the same pipeline on fresh random tables
            small, why = search_tables(chk.rng, small)
    except Exception:
        pass
    detail = {"case": small.json(), "kind": kind, "allow_extend_merges": merges, "generator_error": getattr(small, "gen_error", None)}
    try:
        detail["sql"] = (make_model(None, "pg") if kind.endswith("_pg") else make_model(merges)).to_sql(small.ops)
    except Exception as e:      # noqa
        detail["sql_error"] = f"{type(e).__name__}: {str(e)[:200]}"
    if why:
        rep = dict(detail, **{"kind": "impl-violation", "why": why, "tie": kind})
        ra, _ = small.result("pandas")
        rb, eb = small.result("sqlite")
        rep["pandas"] = None if ra is None else pipes.frame_to_json(ra)
        rep["sqlite"] = None if rb is None else pipes.frame_to_json(rb)
        rep["sqlite_error"] = eb
        chk.impl_violation(f"{why} ({what})", rep, {"tie": kind})
    else:
        chk.corr_break(what, detail)


def replay(path):
    r = json.load(open(path))
    if "case" not in r:
        print(json.dumps(r, indent=1)[:3000])
        return 1
    c = X.case_from_json(r["case"])
    kind = r.get("tie") or r.get("kind")
    if kind in ("struct", "sem", "distinct", "struct_pg", "sem_pg"):
        bad = still_fails(kind, r.get("allow_extend_merges", True))(c)
        print("model/implementation disagreement persists" if bad else "model and implementation agree")
        why = pandas_vs_sqlite(c)
        print(why or "Pandas and SQLite agree on this case")
        return 1 if (bad or why) else 0
    why = pandas_vs_sqlite(c)
    print(why or "ok")
    return 1 if why else 0
