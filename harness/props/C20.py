"""C20 -- data spaces behave like a keyed store of tables.
proof: Props/C20.v about the hand models Model/DataSpace.v (DataModelSpace and DBSpace as state machines)
tie:   correspondence: random histories run on the real classes and on the models (vm_compute)
oracle: real classes vs. a plain dict"""
import json, os, warnings
import lib
from lib import clist, cstr, cz, cbool, copt

warnings.filterwarnings("ignore")
N = {"quick": (700, 150), "thorough": (12000, 2500)}     # histories on DataModelSpace, on DBSpace
KEYS = ["t", "u", "da_temp_1", "da_temp_2", "da_temp_3", "da_temp_10", "weird key", 'q"uote']


def gen_history(rng, maxlen, kind="m"):
    ops = []
    pool = KEYS if kind == "m" else KEYS[:7]      # a DB table name cannot contain the identifier quote (C14's guard)
    for _ in range(rng.randint(1, maxlen)):
        r = rng.random()
        key = rng.choice(KEYS[:6]) if rng.random() < 0.95 else rng.choice(pool)
        if r < 0.3:
            ops.append(["insert", key if rng.random() < 0.6 else None, [rng.randint(-3, 3) for _ in range(rng.choice([0, 1, 1, 2, 3]))], rng.random() < 0.6])      # also tables without rows
        elif r < 0.45:
            ops.append(["remove", key])
        elif r < 0.7:
            ops.append(["execute", [rng.choice(KEYS[:6]), rng.randint(-2, 2)], key if rng.random() < 0.6 else None, rng.random() < 0.5])
        elif r < 0.82:
            ops.append(["retrieve", key])
        elif r < 0.9:
            ops.append(["describe", key])
        else:
            ops.append(["keys"])
    return ops


def run_impl(kind, ops):
    import pandas as pd
    from data_algebra.data_ops import TableDescription
    if kind == "m":
        from data_algebra.data_model_space import DataModelSpace
        sp = DataModelSpace()
    else:
        from data_algebra.db_space import DBSpace
        sp = DBSpace()
    outs = []
    try:
        for o in ops:
            try:
                if o[0] == "insert":
                    td = sp.insert(key=o[1], value=pd.DataFrame({"x": o[2]}) if len(o[2]) else pd.DataFrame({"x": pd.Series([], dtype="int64")}), allow_overwrite=o[3])
                    outs.append(["key", td.table_name])
                elif o[0] == "remove":
                    sp.remove(o[1]); outs.append(["unit"])
                elif o[0] == "execute":
                    src, c = o[1]
                    p = TableDescription(table_name=src, column_names=["x"]).extend({"x": f"x + {c}" if c >= 0 else f"x - {-c}"})
                    td = sp.execute(p, key=o[2], allow_overwrite=o[3])
                    outs.append(["key", td.table_name])
                elif o[0] == "retrieve":
                    d = sp.retrieve(o[1]); outs.append(["val", [int(v) for v in d["x"]]])
                elif o[0] == "describe":
                    td = sp.describe(o[1]); outs.append(["key", td.table_name])
                else:
                    outs.append(["keys", sorted(sp.keys())])
            except Exception as e:
                outs.append(["fail"])
    finally:
        try:
            sp.close()
        except Exception:
            pass
    return outs


def run_ref(ops):
    """a plain dict; automatic keys are checked separately (must be new), so they are taken from the observed run"""
    d, outs = {}, []
    for o in ops:
        if o[0] in ("insert", "execute"):
            key, ow = (o[1], o[3]) if o[0] == "insert" else (o[2], o[3])
            if o[0] == "execute":
                src, c = o[1]
                val = [v + c for v in d[src]] if src in d else None
            else:
                val = list(o[2])
            if key is None:
                outs.append(["auto", val])        # resolved by the comparer
                continue
            if (not ow and key in d) or val is None:
                outs.append(["fail"])
            else:
                d[key] = val; outs.append(["key", key])
        elif o[0] == "remove":
            if o[1] in d:
                del d[o[1]]; outs.append(["unit"])
            else:
                outs.append(["fail"])
        elif o[0] == "retrieve":
            outs.append(["val", d[o[1]]] if o[1] in d else ["fail"])
        elif o[0] == "describe":
            outs.append(["key", o[1]] if o[1] in d else ["fail"])
        else:
            outs.append(["keys", sorted(d)])
    return outs


def oracle(kind, ops, obs, known=None):
    """replay against a plain dict, using the observed automatic keys; returns (index, reason) of the first divergence or None.
    `known` (a list) collects indices where the listed finding `failed overwriting execute loses the entry` occurred; the
    reference then follows the implementation there, so that the rest of the history is still checked."""
    d = {}
    for i, (o, r) in enumerate(zip(ops, obs)):
        if (known is not None and kind == "d" and o[0] == "execute" and o[2] is not None and o[3] and o[2] in d and r == ["fail"]):
            src, c = o[1]
            if src not in d or src == o[2]:
                known.append(i)
                del d[o[2]]
                continue
        if o[0] in ("insert", "execute"):
            key, ow = (o[1], o[3]) if o[0] == "insert" else (o[2], o[3])
            if o[0] == "execute":
                src, c = o[1]
                val = [v + c for v in d[src]] if src in d else None
            else:
                val = list(o[2])
            if key is None:
                if val is None:
                    if r != ["fail"]:
                        return i, "execute of a pipeline over a missing table did not fail"
                    continue
                if r[0] != "key":
                    return i, "write under an automatic key failed"
                if r[1] in d:
                    return i, f"automatic key {r[1]} replaced an existing entry"
                d[r[1]] = val
                continue
            exp = ["fail"] if ((not ow and key in d) or val is None) else ["key", key]
            if r != exp:
                return i, f"{o[0]} returned {r}, a keyed store gives {exp}"
            if exp[0] == "key":
                d[key] = val
        elif o[0] == "remove":
            exp = ["unit"] if o[1] in d else ["fail"]
            if r != exp:
                return i, f"remove returned {r}, expected {exp}"
            d.pop(o[1], None)
        elif o[0] == "retrieve":
            exp = ["val", d[o[1]]] if o[1] in d else ["fail"]
            if r != exp:
                return i, f"retrieve returned {r}, expected {exp}"
        elif o[0] == "describe":
            exp = ["key", o[1]] if o[1] in d else ["fail"]
            if r != exp:
                return i, f"describe returned {r}, expected {exp}"
        else:
            if r != ["keys", sorted(d)]:
                return i, f"keys() returned {r}, expected {sorted(d)}"
    return None


def sig_of(kind, ops, obs):
    """describe the divergence for known-finding matching: the cause is looked up in the history"""
    d = set()
    cause = "other"
    for o, r in zip(ops, obs):
        if o[0] == "execute" and o[2] is not None and o[3] and o[2] in d and r == ["fail"]:
            cause = "failed_overwriting_execute"
        if o[0] == "insert" and r[0] == "key":
            d.add(r[1])
        if o[0] == "execute" and r[0] == "key":
            d.add(r[1])
        if o[0] == "remove" and r == ["unit"]:
            d.discard(o[1])
    return {"space": kind, "cause": cause}


def cop(o):
    if o[0] == "insert":
        return "DInsert %s %s %s" % (copt(cstr(o[1])) if o[1] is not None else "None", clist([cz(v) for v in o[2]]), cbool(o[3]))
    if o[0] == "remove":
        return "DRemove " + cstr(o[1])
    if o[0] == "execute":
        return "DExecute (%s, %s) %s %s" % (cstr(o[1][0]), cz(o[1][1]), copt(cstr(o[2])) if o[2] is not None else "None", cbool(o[3]))
    if o[0] == "retrieve":
        return "DRetrieve " + cstr(o[1])
    if o[0] == "describe":
        return "DDescribe " + cstr(o[1])
    return "DKeys"


def cout(r):
    if r[0] == "key":
        return "OKey " + cstr(r[1])
    if r[0] == "val":
        return "OVal " + clist([cz(v) for v in r[1]])
    if r[0] == "keys":
        return "OKeys " + clist([cstr(k) for k in r[1]])
    if r[0] == "unit":
        return "OUnit"
    return "OFail"


def run(chk):
    rng = chk.rng
    nm, nd = N[chk.tier]
    chk.prove([], extra_vo=["theories/Model/DataSpaceCases.vo"])
    chk.cov["trusted_base"] = ["Coq 8.16.1 kernel + vm_compute", "hand models Model/DataSpace.v of DataModelSpace and DBSpace (state machines; the database handle is a map from table names to tables, "
                               "pipeline evaluation an abstract function of the current contents)", "f\"da_temp_{n}\" injective in n (theorem hypothesis name_of_inj)",
                               "correspondence harness harness/props/C20.py; SQLite 3.40 in-memory database behind DBSpace", "DBSpace.close()/drop_tables_on_close and model_table() are not modelled"]
    chk.assumptions = ["tables in histories are one integer column with 0..3 rows; pipelines are `read table k, x := x + c`", "DBSpace starts from an empty database (tables unknown to the space are outside the property)"]
    chk.cov["rule"] = ("random histories of 1..12 (quick) / 1..40 (thorough) operations insert/remove/execute/retrieve/describe/keys over user keys that include da_temp_1..3,10 "
                       "(40% automatic keys), run on DataModelSpace and on DBSpace(SQLite); non-trivial = >=3 operations incl. a write; distinct by content")
    maxlen = 12 if chk.tier == "quick" else 40
    terms, meta = [], []
    for kind, n in (("m", nm), ("d", nd)):
        for i in range(n):
            ops = gen_history(rng, maxlen, kind)
            obs = run_impl(kind, ops)
            chk.count((kind, json.dumps(ops)), nontrivial=len(ops) >= 3 and any(o[0] in ("insert", "execute") for o in ops))
            for o, r in zip(ops, obs):
                chk.dist(f"{kind}:{o[0]}:{'fail' if r == ['fail'] else 'ok'}")
            if i < 2:
                chk.sample({"space": kind, "ops": ops, "outputs": obs})
            known = []
            bad = oracle(kind, ops, obs, known)
            if known:
                k0 = known[0]
                chk.impl_violation("failed overwriting execute loses the entry", {"kind": "impl-violation", "space": kind, "ops": ops[:k0 + 1] + [["keys"]],
                                   "observed": obs[:k0 + 1]}, {"space": kind, "cause": "failed_overwriting_execute"})
            if bad is not None:
                idx, why = bad
                sub = ops[:idx + 1]

                def fails(cand, last=ops[idx]):
                    h = cand + [last]
                    return oracle(kind, h, run_impl(kind, h), []) is not None
                small = lib.shrink_list(ops[:idx], fails) + [ops[idx]]
                o2 = run_impl(kind, small)
                b2 = oracle(kind, small, o2, [])
                chk.impl_violation(f"data space ({'DataModelSpace' if kind == 'm' else 'DBSpace'}) diverges from a keyed store: {b2[1] if b2 else why}",
                                   {"kind": "impl-violation", "space": kind, "ops": small, "observed": o2, "reason": b2[1] if b2 else why},
                                   {"space": kind, "cause": "other"})
            terms.append("(%s, %s, %s)" % (cbool(kind == "d"), clist([cop(o) for o in ops]), clist([cout(r) for r in obs])))
            meta.append({"space": kind, "ops": ops, "observed": obs})
    if os.path.exists(os.path.join(lib.COQ, "theories/Model/DataSpaceCases.vo")):
        pre = ("From Coq Require Import List ZArith Bool String.\nImport ListNotations.\nOpen Scope string_scope.\n"
               "From DA Require Import Base.PyRT Base.Cases Model.DataSpace Model.DataSpaceCases.\nOpen Scope list_scope.\n")
        failing, errors, nchecked = lib.run_case_files("C20", pre, terms, "check_cases", per_file=200)
        chk.cov["correspondence"] = {"cases": len(terms), "checked_in_coq": nchecked, "disagreements": len(failing), "errors": errors[:2]}
        chk.cov["traces_validated_against_impl"] = nchecked
        if errors:
            chk.corr_break("correspondence case files failed to compile", errors[0])
        for i in failing[:3]:
            chk.corr_break("Model/DataSpace.v disagrees with the implementation", meta[i])
    else:
        chk.corr_break("Model/DataSpaceCases.vo not built", "")


def replay(path):
    r = json.load(open(path))
    if "ops" in r:
        obs = run_impl(r["space"], r["ops"])
        bad = oracle(r["space"], r["ops"], obs)
        print("observed", obs); print("divergence", bad)
        return 0 if bad is None else 1
    print(json.dumps(r, indent=1)[:3000])
    return 1
