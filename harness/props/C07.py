"""C07 -- pipeline composition equals sequential application and is associative.
proof:  Props/C07.v over Model/Compose.v (hand model of every <Node>.replace_leaves with the arguments it forwards to
        the re-run builder, ViewRepresentation.act_on, DataOpArrow.__init__/act_on/dom/cod) and Model/Sem.v
tie:    (1) each real replace_leaves is called with recording sources: builder method + bound arguments vs fw_code;
        (2) real composed DAGs (replace_leaves / eval with a map of pipelines / a >> b) vs the model's tree, semantic
            comparison where the real builder simplified while re-running; (3) DataOpArrow composition: accept/reject,
            free key, incoming and outgoing columns; (4) the implies-windowed name set
oracle: on the real code, for random composable pairs/triples over all operator kinds and random inputs: every
        composition route equals b.eval({leaf: a.eval(x)}); associativity; dom/cod; must-not-raise when the boundary
        matches, must raise when it does not"""
import glob, inspect, json, os, warnings
import lib
from lib import clist, cstr, cbool, copt

warnings.filterwarnings("ignore")

# pairs, triples, mismatch probes, spy cases per node kind, extra search after a break
N = {"quick": (90, 30, 24, 8, 260), "thorough": (2200, 700, 400, 60, 3000)}

ALL_FEATURES = ["extend", "wextend", "project", "select_rows", "select_columns", "drop_columns", "rename_columns", "map_columns",
                "order_rows", "natural_join", "concat_rows"]
ROUTES = ["rshift", "call", "arrow", "replace_leaves", "eval_map", "dict_rshift", "frame", "eval_map_pipes", "dict_rshift_pipes", "eval_map_pipes_rev", "dict_rshift_pipes_rev"]


# ------------------------------------------------------------------------------------------- problems (JSON-able)

def chain(script):
    """steps of the main (src) chain, leaf first"""
    steps = []
    while script["op"] != "table":
        steps.append({k: v for k, v in script.items() if k != "src"})
        script = script["src"]
    return script, list(reversed(steps))


def rebuild(leaf, steps):
    s = leaf
    for st in steps:
        s = dict(st, src=s)
    return s


def e_columns(mode, cols):
    cols = list(cols)
    if mode == "same":
        return cols
    if mode == "reversed":
        return list(reversed(cols))
    if mode == "drop_last":
        return cols[:-1]
    if mode == "add_extra":
        return cols + ["zz_extra"]
    raise ValueError(mode)


def leaf_table(name, cols):
    return {"name": name, "spec": [[c, "float"] for c in cols], "rows": []}


class Built:
    """everything derived from a problem by the real code"""
    pass


def derive(p):
    """build a, its result, b (over a leaf declaring a's columns, possibly permuted / mismatched), the sequential result"""
    import pipes
    r = Built()
    r.tables = {t["name"]: t for t in p["tables"]}
    r.frames = {n: pipes.table_frame(t) for n, t in r.tables.items()}
    r.a = pipes.build(p["a"], r.tables)
    r.ra = pipes.eval_pandas(r.a, r.frames)
    r.acols = list(r.a.column_names)
    r.ecols = e_columns(p.get("e_mode", "same"), r.acols)
    r.leaf = p.get("leaf", "e")
    tb = dict(r.tables)
    tb[r.leaf] = leaf_table(r.leaf, r.ecols)
    r.tb = tb
    r.b = pipes.build(p["b"], tb)
    r.match = set(r.ecols) == set(r.acols)
    r.b_tables = sorted(r.b.get_tables().keys())
    r.a_tables = sorted(r.a.get_tables().keys())
    return r


def other_pipeline(r, k):
    """the pipeline substituted for b's other table k in the several-entries routes: a filter over k itself"""
    from data_algebra.data_ops import TableDescription
    cols = [c for c, _ in r.tables[k]["spec"]]
    return TableDescription(table_name=k, column_names=cols).select_rows("uid >= 1")


def seq_frames(r, inner):
    fr = {k: v for k, v in r.frames.items() if k != r.leaf}
    fr[r.leaf] = inner
    return fr


def last_order_total(script, res):
    """exact row order is claimed only when the pipeline ends in order_rows and the result's sort keys are pairwise distinct"""
    if script["op"] != "order_rows":
        return False
    keys = [c for c in script["columns"] if c in res.columns]
    if len(keys) != len(script["columns"]):
        return False
    sub = res[keys]
    if sub.isnull().any().any():
        return False
    return not sub.duplicated().any()


def route_results(r, routes=ROUTES):
    """{route: ("ok", frame) | ("raise", "Class: msg") | ("n/a", why)} for composing a into b's leaf"""
    from data_algebra.arrow import DataOpArrow
    from data_algebra.data_ops import TableDescription
    out = {}
    a, b, leaf = r.a, r.b, r.leaf
    fr = dict(r.frames)

    def run(name, f):
        try:
            out[name] = ("ok", f())
        except Exception as e:        # noqa
            out[name] = ("raise", f"{type(e).__name__}: {str(e)[:160]}")
    single_b = r.b_tables == [leaf]
    single_a = len(r.a_tables) == 1
    for name in routes:
        if name == "rshift":
            if single_b or (a.node_name == "TableDescription" and a.key == leaf):
                run(name, lambda: (a >> b).eval(fr))
            else:
                out[name] = ("n/a", "b has several tables and a is not a table")
        elif name == "call":
            if single_b:
                run(name, lambda: b(a).eval(fr))
            else:
                out[name] = ("n/a", "b has several tables")
        elif name == "arrow":
            def f():
                arr = DataOpArrow(a, free_table_key=r.a_tables[0] if single_a else "d1") >> DataOpArrow(b, free_table_key=leaf)
                if len(arr.pipeline.get_tables()) == 1:
                    return arr.transform(fr[arr.free_table_key])
                return arr.pipeline.eval(fr)
            run(name, f)
        elif name == "replace_leaves":
            run(name, lambda: b.replace_leaves({leaf: a}).eval(fr))
        elif name == "eval_map":
            def f():
                m = {leaf: a}
                for k in r.b_tables:
                    if k != leaf:
                        m[k] = TableDescription(table_name=k, column_names=[c for c, _ in r.tables[k]["spec"]])
                return b.eval(m).eval(fr)
            run(name, f)
        elif name == "dict_rshift":
            run(name, lambda: ({leaf: a} >> b).eval(fr))      # b.__rrshift__(dict) -> act_on(dict of pipelines) -> replace_leaves
        elif name in ("eval_map_pipes", "dict_rshift_pipes", "eval_map_pipes_rev", "dict_rshift_pipes_rev"):
            # a map with SEVERAL pipeline entries, substituted simultaneously: b's other tables k are replaced by pipelines that
            # read k themselves, and a may read k too (a's k must stay the raw table)
            others = [k for k in r.b_tables if k != leaf]
            if not others:
                out[name] = ("n/a", "b has a single table")
            else:
                def f(name=name):
                    m = {}
                    if not name.endswith("_rev"):
                        m[leaf] = a                      # both dictionary orders: the substitution must be simultaneous
                    for k in others:
                        m[k] = other_pipeline(r, k)
                    m[leaf] = a
                    if name.startswith("eval_map_pipes"):
                        return b.eval(m).eval(fr)
                    return (m >> b).eval(fr)
                run(name, f)
        elif name == "frame":
            if single_a and single_b:
                run(name, lambda: fr[r.a_tables[0]] >> a >> b)
            else:
                out[name] = ("n/a", "several tables")
    return out


def check_problem(p, routes=ROUTES):
    """-> ("skip", why) or ("checked", failures, info); failures: list of {oracle, route, what}"""
    import pipes
    try:
        r = derive(p)
    except Exception as e:                      # the generator's own scripts did not build / evaluate: not a composition
        return ("skip", f"derive: {type(e).__name__}: {str(e)[:120]}")
    fails = []
    info = {"match": r.match, "e_mode": p.get("e_mode", "same")}
    if not r.match:
        # boundary does not match: >> , b(a) and arrow composition are documented as strict and must raise
        from data_algebra.arrow import DataOpArrow
        for name, f in (("rshift", lambda: r.a >> r.b), ("call", lambda: r.b(r.a)),
                        ("arrow", lambda: DataOpArrow(r.a, free_table_key=r.a_tables[0] if len(r.a_tables) == 1 else "d1") >> DataOpArrow(r.b, free_table_key=r.leaf))):
            if name in ("rshift", "call") and r.b_tables != [r.leaf]:
                continue
            if name not in routes:
                continue
            try:
                f()
                fails.append({"oracle": "boundary-reject", "route": name,
                              "what": f"{name}: composition accepted although the leaf declares {r.ecols} and a produces {r.acols}"})
            except Exception:
                pass
        return ("checked", fails, info)
    try:
        seq = r.b.eval(seq_frames(r, r.ra))
    except Exception as e:
        return ("skip", f"sequential evaluation: {type(e).__name__}: {str(e)[:120]}")
    ordered = last_order_total(p["b"], seq)
    info["ordered"] = ordered
    info["seq_rows"] = int(seq.shape[0])
    res = route_results(r, routes)
    info["routes"] = {k: v[0] for k, v in res.items()}
    for name, (st, val) in res.items():
        if st == "n/a":
            continue
        if st == "raise":
            fails.append({"oracle": "compose-raises", "route": name, "what": f"{name}: composing/evaluating raised {val} although the boundary columns match"})
            continue
        want = seq
        if name in ("eval_map_pipes", "dict_rshift_pipes", "eval_map_pipes_rev", "dict_rshift_pipes_rev"):
            try:
                fr2 = seq_frames(r, r.ra)
                for k in r.b_tables:
                    if k != r.leaf:
                        fr2[k] = other_pipeline(r, k).eval({k: r.frames[k]})
                want = r.b.eval(fr2)
            except Exception:
                continue
        d = pipes.frames_equiv(val, want, check_row_order=ordered and want is seq)
        if d is not None:
            fails.append({"oracle": "sequential", "route": name, "what": f"{name}: composed result differs from b.eval(a.eval(x)): {d}",
                          "composed": pipes.frame_to_json(val), "sequential": pipes.frame_to_json(want)})
    # arrows: dom / cod describe input and output columns
    if "arrow" in routes:
        fails += arrow_oracle(r, seq)
    # associativity on a triple
    if p.get("c") is not None:
        fails += triple_oracle(p, r, seq, info)
    return ("checked", fails, info)


def arrow_oracle(r, seq):
    from data_algebra.arrow import DataOpArrow
    fails = []
    try:
        fa = r.a_tables[0] if len(r.a_tables) == 1 else "d1"
        A, B = DataOpArrow(r.a, free_table_key=fa), DataOpArrow(r.b, free_table_key=r.leaf)
        C = A >> B
    except Exception as e:
        return [{"oracle": "compose-raises", "route": "arrow", "what": f"arrow composition raised {type(e).__name__}: {str(e)[:120]}"}]
    dom_cols, cod_cols = list(C.dom().incoming_columns), list(C.cod().outgoing_columns)
    if dom_cols != list(A.dom().incoming_columns) or set(dom_cols) != set(c for c, _ in r.tables[fa]["spec"]):
        fails.append({"oracle": "dom", "route": "arrow", "what": f"dom of the composed arrow is {dom_cols}, dom of the first arrow {A.incoming_columns}"})
    if cod_cols != list(B.cod().outgoing_columns) or set(cod_cols) != set(seq.columns):
        fails.append({"oracle": "cod", "route": "arrow", "what": f"cod of the composed arrow is {cod_cols}, cod of the second arrow {B.outgoing_columns}, result columns {list(seq.columns)}"})
    if C.free_table_key != A.free_table_key:
        fails.append({"oracle": "dom", "route": "arrow", "what": "free table key of the composed arrow is not the first arrow's"})
    return fails


def triple_oracle(p, r, seq, info):
    """(a >> b) >> c  vs  a >> (b >> c): defined together, equal results, equal to c on (b on (a on x))"""
    import pipes
    from data_algebra.arrow import DataOpArrow
    fails = []
    leaf2 = p.get("leaf2", "f")
    tc = dict(r.tables)
    tc[leaf2] = leaf_table(leaf2, list(r.b.column_names))
    try:
        c = pipes.build(p["c"], tc)
        fr2 = {k: v for k, v in r.frames.items() if k != leaf2}
        fr2[leaf2] = seq
        seq2 = c.eval(fr2)
    except Exception as e:
        info["triple"] = f"skip: {type(e).__name__}"
        return fails
    if sorted(c.get_tables().keys()) != [leaf2] or r.b_tables != [r.leaf]:
        info["triple"] = "skip: several tables"
        return fails
    ordered = last_order_total(p["c"], seq2)
    outs = {}
    for name, f in (("left", lambda: (r.a >> r.b) >> c), ("right", lambda: r.a >> (r.b >> c))):
        try:
            outs[name] = ("ok", f())
        except Exception as e:
            outs[name] = ("raise", f"{type(e).__name__}: {str(e)[:120]}")
    info["triple"] = {k: v[0] for k, v in outs.items()}
    if outs["left"][0] != outs["right"][0]:
        fails.append({"oracle": "assoc-defined", "route": "rshift", "what": f"(a >> b) >> c and a >> (b >> c) are not defined together: {outs['left'][0]} {outs['left'][1] if outs['left'][0]=='raise' else ''} / {outs['right'][0]} {outs['right'][1] if outs['right'][0]=='raise' else ''}"})
        return fails
    if outs["left"][0] == "raise":
        fails.append({"oracle": "compose-raises", "route": "rshift", "what": f"triple composition raised {outs['left'][1]} although the boundary columns match"})
        return fails
    info["triple_same_tree"] = bool(outs["left"][1] == outs["right"][1])
    try:
        rl, rr = outs["left"][1].eval(r.frames), outs["right"][1].eval(r.frames)
    except Exception as e:
        fails.append({"oracle": "compose-raises", "route": "rshift", "what": f"evaluating a triple composition raised {type(e).__name__}: {str(e)[:120]}"})
        return fails
    for nm, x in (("(a >> b) >> c", rl), ("a >> (b >> c)", rr)):
        d = pipes.frames_equiv(x, seq2, check_row_order=ordered)
        if d is not None:
            fails.append({"oracle": "assoc", "route": "rshift", "what": f"{nm} differs from c.eval(b.eval(a.eval(x))): {d}"})
    # the same through arrows
    if len(r.a_tables) == 1:
        try:
            A, B, C = DataOpArrow(r.a), DataOpArrow(r.b), DataOpArrow(c)
            x = r.frames[r.a_tables[0]]
            r1, r2 = ((A >> B) >> C).transform(x), (A >> (B >> C)).transform(x)
            for nm, y in (("(A >> B) >> C", r1), ("A >> (B >> C)", r2)):
                d = pipes.frames_equiv(y, seq2, check_row_order=ordered)
                if d is not None:
                    fails.append({"oracle": "assoc", "route": "arrow", "what": f"arrows: {nm} differs from sequential application: {d}"})
        except Exception as e:
            fails.append({"oracle": "compose-raises", "route": "arrow", "what": f"arrow triple raised {type(e).__name__}: {str(e)[:120]}"})
    return fails


# ------------------------------------------------------------------------------------------- generation

def frame_rows(df):
    import pipes
    _, rows = pipes.canon(df, keep_col_order=True)
    return [list(x) for x in rows]


def gen_steps(rng, g, leafname, depth, *, del_rate=0.15, p1_rate=0.06):
    """random chain on the table leafname; map_columns steps with deletions and whole-table windows (partition_by=1)
    are added here (pipes draws the former never and the latter rarely)"""
    s, colty, order = g.table(leafname)
    n = tries = 0
    while n < depth and tries < depth * 6:
        tries += 1
        if rng.random() < p1_rate:
            k = g.newcol(colty)
            nums = [c for c, t in colty.items() if t in ("int", "float")]
            e = rng.choice(["_size()", "_size()", "(1).sum()"] + ([rng.choice(nums) + ".max()"] if nums else []))
            s, colty, order = {"op": "extend", "src": s, "ops": {k: e}, "partition_by": 1}, dict(colty, **{k: "float"}), order + [k]
            n += 1
            continue
        if len(order) >= 2 and rng.random() < del_rate:
            dels = rng.sample(order, rng.randint(1, min(2, len(order) - 1)))
            keep = [c for c in order if c not in dels]
            m = {d: None for d in dels}
            if rng.random() < 0.7:
                o = rng.choice(keep)
                m[o] = g.newcol({c: 1 for c in order})
            items = list(m.items())
            rng.shuffle(items)
            m = dict(items)
            order2 = [m.get(c, c) for c in keep]
            colty2 = {m.get(c, c): colty[c] for c in keep}
            s, colty, order = {"op": "map_columns", "src": s, "map": m}, colty2, order2
            n += 1
            continue
        r = g.step(s, colty, order)
        if r is None:
            continue
        s, colty, order = r
        n += 1
    return s, colty, order


def typed_leaf(name, cols, colty, frame):
    """leaf table carrying a's actual result, so that the generator knows which columns make an order total"""
    rows = frame_rows(frame[cols]) if len(cols) else []
    return {"name": name, "spec": [[c, colty.get(c, "float")] for c in cols], "rows": rows}


def gen_problem(rng, *, triple=False, e_mode="same", features=None, depth_b=None, del_rate=0.15, p1_rate=0.06):
    import pipes
    feats = features or ALL_FEATURES
    tables = [pipes.gen_table(rng, "d1", unique_col="uid"), pipes.gen_table(rng, "d2", unique_col="uid")]
    tmap = {t["name"]: t for t in tables}
    ga = pipes.Gen(rng, tables, features=feats if rng.random() < 0.5 else [f for f in feats if f != "natural_join"] or feats)
    a, acolty, aorder = gen_steps(rng, ga, "d1", rng.choice([0, 1, 1, 2, 3, 4]))
    try:
        a_ops = pipes.build(a, tmap)
        frames = {n: pipes.table_frame(t) for n, t in tmap.items()}
        ra = pipes.eval_pandas(a_ops, frames)
    except Exception:
        return None
    acols = list(a_ops.column_names)
    if set(acols) != set(ra.columns):
        return None
    leaf = "e" if rng.random() < 0.8 else "d1"        # sometimes b's leaf has the NAME of a's own table
    et = typed_leaf(leaf, acols, acolty, ra)
    btables = [et] + ([tables[1]] if rng.random() < 0.45 else [])
    gb = pipes.Gen(rng, btables, features=feats)
    b, bcolty, border = gen_steps(rng, gb, leaf, depth_b or rng.choice([1, 1, 2, 3, 4, 5]), del_rate=del_rate, p1_rate=p1_rate)
    if b["op"] == "table":
        return None
    p = {"tables": pipes.to_json(tables), "a": pipes.to_json(a), "b": pipes.to_json(b), "leaf": leaf, "e_mode": e_mode, "c": None}
    if triple:
        try:
            tb = dict(tmap)
            tb[leaf] = et
            b_ops = pipes.build(b, tb)
            fr = {k: v for k, v in frames.items() if k != leaf}
            fr[leaf] = ra
            rb = b_ops.eval(fr)
        except Exception:
            return None
        bcols = list(b_ops.column_names)
        if set(bcols) != set(rb.columns):
            return None
        ft = typed_leaf("f", bcols, bcolty, rb)
        gc = pipes.Gen(rng, [ft], features=feats)
        c, _, _ = gen_steps(rng, gc, "f", rng.choice([1, 2, 3]))
        if c["op"] == "table":
            return None
        p["c"] = pipes.to_json(c)
        p["leaf2"] = "f"
    return p


def gen_merge_hazard(rng):
    """a ends in an extend assigning y and z, b starts with an extend that assigns y again AND reads z: re-running the builder
    during composition may merge the two extends; the merged step must not read the OLD z"""
    import pipes
    tables = [pipes.gen_table(rng, "d1", ncols=rng.randint(2, 4), types=("int", "float"), null_rate=0.0, unique_col="uid"),
              pipes.gen_table(rng, "d2", unique_col="uid")]
    cols = [c for c, _ in tables[0]["spec"] if c != "uid"]
    x = rng.choice(cols)
    z = rng.choice([c for c in cols if c != x] or ["zn"]) if rng.random() < 0.7 else "zn"
    y = rng.choice(["yn", rng.choice(cols)]) if rng.random() < 0.5 else "yn"
    if y == z or y == x:
        y = "yn"
    a = {"op": "extend", "src": {"op": "table", "name": "d1"}, "ops": {y: f"{x} + 1", z: f"{x} * 2"}}
    if rng.random() < 0.3:
        a = {"op": "extend", "src": {"op": "select_rows", "src": {"op": "table", "name": "d1"}, "expr": "uid >= 0"}, "ops": a["ops"]}
    b = {"op": "extend", "src": {"op": "table", "name": "e"}, "ops": {y: str(rng.choice([9, 0.5, 3])), "wn": f"{z} + {rng.choice([1, 100])}"}}
    if rng.random() < 0.4:
        b = {"op": "select_columns", "src": b, "columns": ["wn", y, "uid"]}
    return {"tables": pipes.to_json(tables), "a": a, "b": b, "leaf": "e", "e_mode": "same", "c": None}


def gen_map_cross(rng):
    """a reads d2 and b has d2 as a second table: a map {e: a, d2: <pipeline over d2>} must be substituted simultaneously"""
    import pipes
    tables = [pipes.gen_table(rng, "d1", ncols=rng.randint(2, 3), types=("int", "float"), null_rate=0.1, nrows=rng.choice([3, 4, 5, 6]), unique_col="uid"),
              pipes.gen_table(rng, "d2", ncols=rng.randint(2, 3), types=("int", "float"), null_rate=0.1, nrows=rng.choice([3, 4, 5, 6]),
                              colnames=["p", "q", "r"], unique_col="uid")]
    jt = rng.choice(["INNER", "LEFT", "FULL"])
    a = {"op": "natural_join", "src": {"op": "table", "name": "d1"}, "b": {"op": "table", "name": "d2"}, "on": ["uid"], "jointype": jt}
    if rng.random() < 0.5:
        a = {"op": "extend", "src": a, "ops": {"s1": "uid + 1"}}
    b = {"op": "natural_join", "src": {"op": "table", "name": "e"},
         "b": {"op": "rename_columns", "src": {"op": "table", "name": "d2"}, "map": {"p2": "p"}} if rng.random() < 0.5 else {"op": "table", "name": "d2"},
         "on": ["uid"], "jointype": rng.choice(["INNER", "LEFT"])}
    if rng.random() < 0.5:
        b = {"op": "extend", "src": b, "ops": {"t1": "uid * 2"}}
    return {"tables": pipes.to_json(tables), "a": a, "b": b, "leaf": "e", "e_mode": "same", "c": None}


def problem_kinds(p):
    import pipes
    ks = set(pipes.script_ops(p["b"]))
    if any(st["op"] == "map_columns" and any(v is None for v in st["map"].values()) for st in all_steps(p["b"])):
        ks.add("map_columns_deletions")
    if any(st["op"] == "order_rows" and st.get("limit") is not None for st in all_steps(p["b"])):
        ks.add("order_rows_limit")
    if any(st["op"] == "extend" and st.get("partition_by") == 1 for st in all_steps(p["b"])):
        ks.add("extend_partition_one")
    return ks


def all_steps(s, acc=None):
    acc = [] if acc is None else acc
    if s["op"] != "table":
        acc.append(s)
        all_steps(s["src"], acc)
        if "b" in s:
            all_steps(s["b"], acc)
    return acc


# ------------------------------------------------------------------------------------------- shrinking, reporting

def shrink_problem(p, sig):
    """smaller problem on which a failure with the same oracle/route still occurs"""
    def still(q):
        r = check_problem(q, routes=[sig["route"]] if sig["oracle"] in ("sequential", "compose-raises", "boundary-reject") and sig["route"] in ROUTES else ROUTES)
        return r[0] == "checked" and any(f["oracle"] == sig["oracle"] and f["route"] == sig["route"] for f in r[1])
    q = json.loads(json.dumps(p))
    if sig["oracle"] not in ("assoc", "assoc-defined") and q.get("c") is not None:
        q2 = dict(q, c=None)
        if still(q2):
            q = q2
    for key in (["c"] if q.get("c") else []) + ["b", "a"]:
        leaf, steps = chain(q[key])
        best = lib.shrink_list(steps, lambda cand: (len(cand) > 0 or key == "a") and still(dict(q, **{key: rebuild(leaf, cand)})), max_steps=60)
        q[key] = rebuild(leaf, best)
    for t in q["tables"]:
        rows = lib.shrink_list(t["rows"], lambda cand: still(dict(q, tables=[dict(x, rows=cand) if x["name"] == t["name"] else x for x in q["tables"]])), max_steps=40)
        t["rows"] = rows
    return q


def describe(p):
    import pipes
    try:
        r = derive(p)
        return {"a": str(r.a), "b": str(r.b), "leaf": r.leaf, "leaf_columns": r.ecols, "a_columns": r.acols}
    except Exception as e:
        return {"error": repr(e)}


def cause_of(f):
    """coarse root-cause key of a failure: oracle + the message without route, names and values"""
    import re
    w = f["what"].split(":", 1)[1] if ":" in f["what"] else f["what"]
    w = re.sub(r"\[[^\]]*\]|\{[^}]*\}|'[^']*'|\d+(\.\d+)?", "_", w)
    w = re.sub(r"row _ column \S+", "row _ column _", w)
    return f["oracle"] + "|" + w.strip()[:70]


def report(chk, p, fails):
    """one replay per distinct root cause (repeats are counted in the distribution), shrunk before it is reported"""
    causes = chk.__dict__.setdefault("c07_causes", {})
    for f in fails:
        sig = {"oracle": f["oracle"], "route": f["route"]}
        key = cause_of(f)
        if key in causes:
            causes[key] += 1
            chk.dist("violation repeated: " + key)
            continue
        causes[key] = 1
        try:
            q = shrink_problem(p, sig)
            rr = check_problem(q)
            ff = [x for x in rr[1] if x["oracle"] == f["oracle"] and x["route"] == f["route"]] if rr[0] == "checked" else []
            if not ff:
                q, ff = p, [f]
        except Exception:
            q, ff = p, [f]
        chk.impl_violation(ff[0]["what"], {"kind": "impl-violation", "problem": q, "failure": ff[0], "pipelines": describe(q)},
                           dict(sig, ops=sorted(problem_kinds(q))))


# ------------------------------------------------------------------------------------------- Coq terms

def c_ops(d, kind="any"):
    import semconv
    return clist(["(%s, %s)" % (cstr(k), semconv.cexpr(v, kind)) for k, v in d.items()])


def sl(xs):
    return clist([cstr(x) for x in xs])


def c_pairs(items):
    return clist(["(%s, %s)" % (cstr(a), cstr(b)) for a, b in items])


JT = {"INNER": "JInner", "LEFT": "JLeft", "RIGHT": "JRight", "FULL": "JFull", "OUTER": "JFull"}


class Src:
    """stands for a source of the node under test: its replace_leaves returns a recorder"""
    def __init__(self, tag, log):
        self.tag, self.log = tag, log

    def replace_leaves(self, m):
        return Recv(self.tag, self.log)


class Recv:
    def __init__(self, tag, log):
        self.da_tag, self.da_log = tag, log

    def __getattr__(self, name):
        def call(*args, **kwargs):
            self.da_log.append((self.da_tag, name, args, kwargs))
            return ("result", self.da_tag)
        return call


def spy_call(node):
    """call the real node.replace_leaves with recording sources -> (receiver tag, method, bound arguments) or None"""
    from data_algebra.view_representations import ViewRepresentation
    log = []
    saved = node.sources
    node.sources = tuple(Src(i, log) for i in range(len(saved)))
    try:
        node.replace_leaves({})
    except Exception as e:
        return None, f"raised {type(e).__name__}: {e}"
    finally:
        node.sources = saved
    if len(log) != 1:
        return None, f"{len(log)} builder calls recorded"
    tag, name, args, kwargs = log[0]
    try:
        sig = inspect.signature(getattr(ViewRepresentation, name))
        ba = sig.bind(None, *args, **kwargs)        # an unknown keyword is a TypeError here, exactly as in the real call
        ba.apply_defaults()
    except Exception as e:
        return None, f"{name}: {type(e).__name__}: {e}"
    d = dict(ba.arguments)
    d.pop("self", None)
    return (tag, name, d), None


def lst(x):
    if x is None:
        return []
    if isinstance(x, str):
        return [x]
    return list(x)


def spy_term(node):
    """Coq fwcase for one real node + a JSON description"""
    obs, err = spy_call(node)
    nm = node.node_name
    desc = {"node": nm, "observed": None if obs is None else {"receiver": obs[0], "method": obs[1], "arguments": {k: repr(v)[:200] for k, v in obs[2].items()}}, "error": err}

    def got(method):
        return obs is not None and obs[1] == method and (obs[0] == 0 or method in ("natural_join", "concat_rows"))
    if nm == "ExtendNode":
        o = "None"
        if got("extend_parsed_"):
            a = obs[2]
            pb = a["partition_by"]
            part = "PartOne" if (isinstance(pb, int) and not isinstance(pb, bool) and pb == 1) else "(PartCols %s)" % sl(lst(pb))
            o = "(Some (mk_extend_args %s %s %s %s))" % (c_ops(a["parsed_ops"]), part, sl(lst(a["order_by"])), sl(lst(a["reverse"])))
        t = "FwExtend %s %s (mkwin %s %s %s) %s" % (c_ops(node.ops), cbool(bool(node.windowed_situation)), sl(node.partition_by), sl(node.order_by), sl(node.reverse), o)
    elif nm == "ProjectNode":
        o = "None"
        if got("project_parsed_"):
            a = obs[2]
            o = "(Some (mk_project_args %s %s))" % (c_ops(a["parsed_ops"] or {}), sl(lst(a["group_by"])))
        t = "FwProject %s %s %s" % (c_ops(node.ops), sl(node.group_by), o)
    elif nm == "SelectRowsNode":
        import semconv
        o = "None"
        if got("select_rows_parsed_") and isinstance(obs[2]["parsed_expr"], dict) and list(obs[2]["parsed_expr"]) == ["expr"]:
            o = "(Some (mk_select_rows_args %s))" % semconv.cexpr(obs[2]["parsed_expr"]["expr"], "any")
        t = "FwSelectRows %s %s" % (semconv.cexpr(node.expr, "any"), o)
    elif nm == "SelectColumnsNode":
        o = "(Some (mk_select_columns_args %s))" % sl(lst(obs[2]["columns"])) if got("select_columns") else "None"
        t = "FwSelectCols %s %s" % (sl(node.column_selection), o)
    elif nm == "DropColumnsNode":
        o = "(Some (mk_drop_columns_args %s))" % sl(lst(obs[2]["column_deletions"])) if got("drop_columns") else "None"
        t = "FwDropCols %s %s" % (sl(node.column_deletions), o)
    elif nm == "OrderRowsNode":
        o = "None"
        if got("order_rows"):
            a = obs[2]
            o = "(Some (mk_order_rows_args %s %s %s))" % (sl(lst(a["columns"])), sl(lst(a["reverse"])), copt(None if a["limit"] is None else "%d%%nat" % a["limit"]))
        t = "FwOrder %s %s %s %s" % (sl(node.order_columns), sl(node.reverse), copt(None if node.limit is None else "%d%%nat" % node.limit), o)
    elif nm == "MapColumnsNode":
        o = "None"
        if got("map_columns") and isinstance(obs[2]["column_remapping"], dict):
            o = "(Some (mk_map_columns_args %s))" % clist(["(%s, %s)" % (cstr(k), copt(None if v is None else cstr(v))) for k, v in obs[2]["column_remapping"].items()])
        t = "FwMap %s %s %s" % (c_pairs([(n, o_) for o_, n in node.column_remapping.items()]), sl(node.column_deletions or []), o)
    elif nm == "RenameColumnsNode":
        o = "None"
        if got("rename_columns") and isinstance(obs[2]["column_remapping"], dict):
            o = "(Some (mk_rename_columns_args %s))" % c_pairs(list(obs[2]["column_remapping"].items()))
        t = "FwRename %s %s" % (c_pairs(list(node.column_remapping.items())), o)
    elif nm == "NaturalJoinNode":
        o = "None"
        if got("natural_join"):
            a = obs[2]
            other = a["b"]
            on = a["on"] if a.get("by") is None else a["by"]
            pairs = []
            for v in (on or []):
                pairs.append((v, v) if isinstance(v, str) else (list(v)[0], list(v)[1]))
            jt = JT.get(str(a["jointype"]).upper())
            if isinstance(other, Recv) and jt is not None:
                o = "(Some (%d%%nat, %d%%nat, %s, %s))" % (obs[0], other.da_tag, c_pairs(pairs), jt)
        t = "FwJoin %s %s %s %s" % (sl(node.on_a), sl(node.on_b), JT[node.jointype], o)
    elif nm == "ConcatRowsNode":
        o = "None"
        if got("concat_rows"):
            a = obs[2]
            other = a["b"]
            if isinstance(other, Recv):
                o = "(Some (%d%%nat, %d%%nat, %s, %s, %s))" % (obs[0], other.da_tag, copt(None if a["id_column"] is None else cstr(a["id_column"])), cstr(a["a_name"]), cstr(a["b_name"]))
        t = "FwConcat %s %s %s %s" % (copt(None if node.id_column is None else cstr(node.id_column)), cstr(node.a_name), cstr(node.b_name), o)
    else:
        return None, desc
    return "CFw (%s)" % t, desc


def spy_nodes(rng, per_kind):
    """real nodes of every kind with random field values (built through the public builders)"""
    from data_algebra.data_ops import TableDescription
    cols = ["a", "b", "c", "g", "h", "k"]
    t = TableDescription(table_name="d", column_names=cols)
    t2 = TableDescription(table_name="d2", column_names=["g", "h", "v", "w"])
    nodes = []

    def some(xs, lo, hi):
        return rng.sample(xs, rng.randint(lo, min(hi, len(xs))))
    for _ in range(per_kind):
        # extend: plain, windowed by partition / order / partition_by=1 / operator
        r = rng.random()
        if r < 0.25:
            nodes.append(t.extend({"x": "a + 1", rng.choice(["y", "c"]): "b * 2"}))
        elif r < 0.5:
            nodes.append(t.extend({"x": rng.choice(["_size()", "_count()", "a.sum()", "(1).sum()"])}, partition_by=1))
        elif r < 0.75:
            ob = some(["a", "b", "c"], 1, 2)
            nodes.append(t.extend({"x": rng.choice(["a.cumsum()", "_row_number()", "c.shift()"]) if "a" not in ob and "c" not in ob else "_row_number()"},
                                  partition_by=some(["g", "h"], 0, 2), order_by=ob, reverse=[c for c in ob if rng.random() < 0.5]))
        else:
            nodes.append(t.extend({"x": rng.choice(["a.max()", "b.mean()", "_size()"])}, partition_by=some(["g", "h", "k"], 1, 2)))
        gb = some(["g", "h"], 0, 2)
        nodes.append(t.project({"m": "a.max()", "n": "_size()"} if rng.random() < 0.7 or not gb else {}, group_by=gb))
        nodes.append(t.select_rows(rng.choice(["a > 1", "(b == 2) or (c < 3)", "g.is_null()"])))
        nodes.append(t.select_columns(some(cols, 1, 5)))
        nodes.append(t.drop_columns(some(cols, 1, 4)))
        oc = some(cols, 1, 3)
        nodes.append(t.order_rows(oc, reverse=[c for c in oc if rng.random() < 0.5], limit=rng.choice([None, 1, 3, 7])))
        olds = some(cols, 1, 4)
        m = {}
        for i, o in enumerate(olds):
            m[o] = None if rng.random() < 0.45 else "n%d" % i
        if all(v is None for v in m.values()) and rng.random() < 0.5:
            m[olds[0]] = "n0"
        nodes.append(t.map_columns(m))
        olds = some(cols, 1, 3)
        nodes.append(t.rename_columns({"r%d" % i: o for i, o in enumerate(olds)}))
        keys = some(["g", "h"], 1, 2)
        on = keys if rng.random() < 0.5 else [(k, k) for k in keys]
        nodes.append(t.natural_join(t2, on=on, jointype=rng.choice(["INNER", "LEFT", "RIGHT", "FULL"])))
        nodes.append(t.concat_rows(t.select_rows("a > 0"), id_column=rng.choice([None, "src", "source_name"]),
                                   a_name=rng.choice(["a", "left"]), b_name=rng.choice(["b", "right"])))
    return nodes


def convert_records_tie(chk):
    """ConvertRecordsNode is outside Model/Sem.v: only its forwarding is checked (Python level)"""
    try:
        import pandas as pd
        from data_algebra.cdata import RecordMap, RecordSpecification
        from data_algebra.data_ops import TableDescription
        rm = RecordMap(blocks_out=RecordSpecification(pd.DataFrame({"k": ["x", "y"], "v": ["x", "y"]}), control_table_keys=["k"], record_keys=["id"]))
        node = TableDescription(table_name="d", column_names=["id", "x", "y"]).convert_records(rm)
        obs, err = spy_call(node)
        ok = obs is not None and obs[0] == 0 and obs[1] == "convert_records" and obs[2].get("record_map") is node.record_map
        chk.cov["convert_records_forwarding"] = "ok" if ok else f"MISMATCH {obs} {err}"
        if not ok:
            chk.corr_break("ConvertRecordsNode.replace_leaves does not call convert_records(record_map=self.record_map)", {"observed": repr(obs), "error": err})
    except Exception as e:
        chk.cov["convert_records_forwarding"] = f"not run: {type(e).__name__}: {e}"


def comp_terms(p, r, route):
    """CComp / CArrow terms for one matched or mismatched problem"""
    import semconv
    from data_algebra.arrow import DataOpArrow
    terms = []
    ca, cb = semconv.cop(r.a), semconv.cop(r.b)
    env = semconv.cenv(r.frames)
    try:
        comp = r.b.replace_leaves({r.leaf: r.a}) if route == 0 else (r.a >> r.b)
        obs = "(Some %s)" % semconv.cop(comp)
        otxt = str(comp)
    except semconv.Unsupported:
        raise
    except Exception as e:
        obs, otxt = "None", f"raised {type(e).__name__}: {str(e)[:120]}"
    terms.append(("CComp (mk_compcase [(%s, %s)] %s %d%%nat %s %s)" % (cstr(r.leaf), ca, cb, route, obs, env),
                  {"kind": "composition", "route": ["replace_leaves", "rshift"][route], "a": str(r.a), "b": str(r.b), "leaf": r.leaf, "observed": otxt}))
    fa = r.a_tables[0] if len(r.a_tables) == 1 else "d1"
    use_default = len(r.a_tables) == 1 and r.b_tables == [r.leaf]
    try:
        if use_default:
            C = DataOpArrow(r.a) >> DataOpArrow(r.b)
        else:
            C = DataOpArrow(r.a, free_table_key=fa) >> DataOpArrow(r.b, free_table_key=r.leaf)
        aobs = "(Some (%s, %s, %s))" % (cstr(C.free_table_key), sl(C.incoming_columns), sl(C.outgoing_columns))
        atxt = {"free": C.free_table_key, "incoming": list(C.incoming_columns), "outgoing": list(C.outgoing_columns)}
    except Exception as e:
        aobs, atxt = "None", f"raised {type(e).__name__}: {str(e)[:120]}"
    fopt = ("None", "None") if use_default else ("(Some %s)" % cstr(fa), "(Some %s)" % cstr(r.leaf))
    terms.append(("CArrow (mk_arrowcase %s %s %s %s %s)" % (ca, fopt[0], cb, fopt[1], aobs),
                  {"kind": "arrow", "a": str(r.a), "b": str(r.b), "leaf": r.leaf, "observed": atxt}))
    return terms


PRE = ("From Coq Require Import List Bool ZArith QArith String.\nImport ListNotations.\nOpen Scope string_scope.\n"
       "From DA Require Import Base.PyRT Base.Cases Base.Val Model.Sem Model.SemCases Model.Compose Model.ComposeCases.\nOpen Scope list_scope.\n")


def run_cases(name, terms, per_file=120, timeout=1200):
    """like lib.run_case_files, but one coqc start per file answers both questions (failing cases, simplified compositions):
    -> (failing indices, structurally different indices, errors, number checked)"""
    import re, subprocess, time
    cdir = os.path.join(lib.COQ, "cases")
    os.makedirs(cdir, exist_ok=True)
    files = []
    for k in range(0, max(1, (len(terms) + per_file - 1) // per_file)):
        chunk = terms[k * per_file:(k + 1) * per_file]
        fn = os.path.join(cdir, f"{name}_p{os.getpid()}_{k}.v")
        with open(fn, "w") as f:
            f.write(PRE + "\nDefinition cases : list c07case := [\n" + ";\n".join(chunk) + "\n].\n")
            f.write("Eval vm_compute in check_cases cases.\nEval vm_compute in check_structural cases.\nEval vm_compute in List.length cases.\n")
        files.append(fn)
    procs = [subprocess.Popen(["coqc", "-Q", "theories", "DA", "-Q", "cases", "DAcases", os.path.relpath(fn, lib.COQ)], cwd=lib.COQ,
                              stdout=subprocess.PIPE, stderr=subprocess.STDOUT, text=True, env=lib.ENV) for fn in files]
    failing, simplified, errors, nchecked = [], [], [], 0
    t0 = time.time()
    for k, pr in enumerate(procs):
        try:
            out, _ = pr.communicate(timeout=max(1, timeout - (time.time() - t0)))
            rc = pr.returncode
        except subprocess.TimeoutExpired:
            pr.kill()
            out, rc = "TIMEOUT", 124
        out = "\n".join(l for l in out.splitlines() if "conda" not in l)
        flat = " ".join(out.split())
        lists = re.findall(r"= (\[[^\]]*\]|nil)\s*: list nat", flat)
        m2 = re.search(r"= (\d+)(?:%nat)?\s*: nat", flat)
        if rc != 0 or len(lists) != 2 or not m2:
            errors.append(f"{os.path.basename(files[k])}: rc={rc}\n{out[-2000:]}")
            continue
        nchecked += int(m2.group(1))
        failing += [k * per_file + int(i) for i in re.findall(r"\d+", lists[0])]
        simplified += [k * per_file + int(i) for i in re.findall(r"\d+", lists[1])]
    for fn in files:
        for ext in (".v", ".vo", ".vok", ".vos", ".glob"):
            try:
                os.remove(fn[:-2] + ext)
            except OSError:
                pass
        try:
            os.remove(os.path.join(os.path.dirname(fn), "." + os.path.basename(fn)[:-2] + ".aux"))
        except OSError:
            pass
    return failing, simplified, errors, nchecked


# ------------------------------------------------------------------------------------------- the run

def run_problems(chk, problems, terms, meta, tag):
    import semconv
    for i, p in enumerate(problems):
        res = check_problem(p)
        if res[0] == "skip":
            chk.dist(f"{tag}:skip:" + ":".join(x.strip() for x in res[1].split(":")[:2])[:60])
            continue
        _, fails, info = res
        kinds = problem_kinds(p)
        chk.count((tag, json.dumps(p, sort_keys=True, default=str)), nontrivial=len(kinds) >= 1 and len(p["tables"][0]["rows"]) > 0)
        for k in kinds:
            chk.dist("b-op:" + k)
        chk.dist(f"{tag}:boundary " + ("matches" if info["match"] else "mismatch:" + info["e_mode"]))
        for k, v in (info.get("routes") or {}).items():
            chk.dist(f"route:{k}:{v}")
        if isinstance(info.get("triple"), dict):
            chk.dist("triple:" + "/".join(sorted(set(info["triple"].values()))))
            chk.dist("triple:same tree " + str(info.get("triple_same_tree")))
        elif info.get("triple"):
            chk.dist("triple:" + str(info["triple"]))
        if info.get("ordered"):
            chk.dist("row order checked exactly")
        if len(chk.cov["samples"]) < 4 and info["match"]:
            chk.sample({"problem": describe(p), "info": {k: v for k, v in info.items() if k != "routes"}})
        if fails:
            report(chk, p, fails)
        # correspondence terms for the same problem (the oracle above has already run on it)
        try:
            r = derive(p)
            if info["match"] and p.get("e_mode", "same") == "same":
                route = i % 2
                if route == 1 and r.b_tables != [r.leaf]:
                    route = 0
                ts = comp_terms(p, r, route)
            elif not info["match"] and r.b_tables == [r.leaf]:
                ts = comp_terms(p, r, 1)            # act_on and arrow composition must reject; replace_leaves is outside the property
            elif info["match"] and r.b_tables == [r.leaf]:
                ts = comp_terms(p, r, 1)            # permuted boundary: accepted by the set test
            else:
                ts = []
            for t, d in ts:
                terms.append(t)
                meta.append(dict(d, problem=p))
        except semconv.Unsupported as u:
            chk.dist("correspondence:unsupported by semconv")
        except Exception as e:
            chk.dist("correspondence:not converted:" + type(e).__name__)


def corpus_problems():
    ps = []
    for f in sorted(glob.glob(os.path.join(lib.ROOT, "corpus", "C07", "*.json"))):
        try:
            ps.append(json.load(open(f))["problem"])
        except Exception:
            pass
    return ps


def run(chk):
    import pipes
    import time
    n_pairs, n_triples, n_mis, n_spy, n_extra = N[chk.tier]
    t0 = time.time()
    n0 = len(getattr(chk, "pending_breaks", []))
    if not chk.prove([], extra_vo=["theories/Model/ComposeCases.vo"]):
        # several agents build in /verif/coq at once; a genuine proof break is deterministic, so one retry cannot hide it
        first = [b["what"] for b in getattr(chk, "pending_breaks", [])[n0:]]
        chk.pending_breaks = getattr(chk, "pending_breaks", [])[:n0]
        time.sleep(5)
        chk.prove([], extra_vo=["theories/Model/ComposeCases.vo"])
        chk.cov["prove_retried_after"] = first[:2]
    timing = {"prove_s": round(time.time() - t0, 1)}
    chk.cov["timing"] = timing
    chk.cov["trusted_base"] = [
        "Coq 8.16.1 kernel + vm_compute",
        "Model/Sem.v: reference semantics of the operators (shared; validated against the executors by its own correspondence)",
        "Model/Compose.v: hand transcription of every <Node>.replace_leaves (builder called, arguments forwarded), ExtendNode window bookkeeping, "
        "get_tables, ViewRepresentation.act_on, DataOpArrow.__init__/act_on/dom/cod -- tied to the code on every run by the recorded builder calls, "
        "the composed-tree correspondence and the arrow correspondence",
        "the re-run builders are modelled UN-SIMPLIFIED: extend merging, skipping of an intermediate order_rows without limit and select_columns collapsing "
        "are property C06 (Props/C06.v) and are compared semantically here (counted in correspondence.simplified_by_builder)",
        "builder-side validation (unknown columns, table-definition clashes inside natural_join) is not modelled: replace_leaves is total in the model",
        "ConvertRecordsNode / SQLNode are outside Model/Sem.v; ConvertRecordsNode's forwarding is checked at Python level only",
        "harness/semconv.py cop (real DAG -> Coq term), harness/pipes.py generator and comparator",
    ]
    chk.assumptions = [
        "built_ok: ExtendNode.windowed_situation covers what operators/partition/order imply; NaturalJoinNode has len(on_a) == len(on_b) (checked on every real tree of the correspondence)",
        "column names of a node are unique (ViewRepresentation.__init__ asserts it): nodupb hypotheses",
        "exact equality of tables needs the leaf to declare the replacement's columns in the same ORDER (boundary_ok); under the set test of act_on / "
        "DataOpArrow.act_on (boundary_sets_ok) the theorem is equality up to column order (otab_eqv), and exact equality is refuted by a witness; the oracle compares modulo column order",
        "renames_okb: no rename_columns / map_columns step merges two input columns (checked on every real tree of the correspondence); Sem's map_columns = rename, then delete, "
        "which is the implementation's meaning as long as no new name equals a deleted column (the generator never draws that)",
        "associativity with checks (C07_rshift_assoc) is stated for single-table pipelines b and c",
    ]
    chk.cov["rule"] = ("pairs (a, b) and triples (a, b, c) of random pipelines from harness/pipes.py over ALL operator kinds plus map_columns with deletions; b's (c's) leaf "
                       "declares exactly the columns a (b) produces and carries a's actual result so that generated orders are total; leaf named e or, 20%, like a's own table; "
                       "45% of the b's also read an untouched second table; two random input tables (0-8 rows, nulls, duplicates); mismatch probes drop/add a leaf column, "
                       "permuted probes reverse the leaf's column order; non-trivial = non-empty input and at least one step in b; distinct by content")
    chk.cov["oracle"] = {"routes": ROUTES, "what": "each route == b.eval({leaf: a.eval(x)}) (row multiset modulo column order; exact row order when b ends in order_rows with distinct keys); "
                         "(a >> b) >> c vs a >> (b >> c) defined together and both == sequential; arrow dom/cod/free key; boundary mismatch must raise on >>, b(a), arrows"}
    rng = chk.rng
    terms, meta = [], []

    # (0) corpus of minimised past failures runs first
    cp = corpus_problems()
    chk.cov["corpus_cases"] = len(cp)
    run_problems(chk, cp, terms, meta, "corpus")

    # (1) recorded builder calls of every replace_leaves
    from data_algebra.expr_rep import fn_names_that_imply_windowed_situation
    terms.append("CNames %s" % sl(sorted(fn_names_that_imply_windowed_situation)))
    meta.append({"kind": "names"})
    nspy = 0
    for node in spy_nodes(rng, n_spy):
        try:
            t, d = spy_term(node)
        except Exception as e:
            chk.dist("spy:not converted:" + type(e).__name__)
            continue
        if t is None:
            continue
        terms.append(t)
        meta.append(dict(d, kind="forwarding", node_text=str(node)))
        chk.dist("forwarding:" + d["node"])
        chk.count(("fw", t), nontrivial=True)
        nspy += 1
    convert_records_tie(chk)

    # (2) problems
    problems = []
    tries = 0
    while len(problems) < n_pairs and tries < n_pairs * 5:
        tries += 1
        p = gen_problem(rng)
        if p is not None:
            problems.append(p)
    for _ in range(6 if chk.tier == "quick" else 80):          # targeted shapes (see gen_merge_hazard, gen_map_cross)
        problems.append(gen_merge_hazard(rng))
        problems.append(gen_map_cross(rng))
    k = tries = 0
    while k < n_triples and tries < n_triples * 6:
        tries += 1
        p = gen_problem(rng, triple=True, features=[f for f in ALL_FEATURES if f != "natural_join"])
        if p is not None:
            problems.append(p)
            k += 1
    k = tries = 0
    while k < n_mis and tries < n_mis * 6:
        tries += 1
        p = gen_problem(rng, e_mode=rng.choice(["drop_last", "add_extra", "reversed", "reversed"]))
        if p is not None:
            problems.append(p)
            k += 1
    t1 = time.time()
    run_problems(chk, problems, terms, meta, "pair")
    timing["oracle_s"] = round(time.time() - t1, 1)
    t2 = time.time()

    # (3) correspondence inside Coq
    if os.path.exists(os.path.join(lib.COQ, "theories/Model/ComposeCases.vo")):
        failing, simp, errors, nchecked = run_cases("C07", terms, per_file=max(40, (len(terms) + 11) // 12))
        errors2 = []
        comp_idx = [i for i, m in enumerate(meta) if m.get("kind") == "composition"]
        chk.cov["correspondence"] = {"what": "recorded builder calls vs fw_code; real composed DAGs vs replace_leaves / rshift; DataOpArrow composition vs arrow_rshift; name set",
                                     "cases": len(terms), "checked_in_coq": nchecked, "disagreements": len(failing),
                                     "forwarding_cases": nspy, "composition_cases": len(comp_idx), "arrow_cases": sum(1 for m in meta if m.get("kind") == "arrow"),
                                     "simplified_by_builder": len(simp), "errors": (errors + errors2)[:2]}
        chk.cov["traces_validated_against_impl"] = nchecked
        timing["coq_cases_s"] = round(time.time() - t2, 1)
        if errors or errors2:
            chk.corr_break("correspondence case files failed to compile", (errors + errors2)[0])
        broken_kinds = set()
        for i in failing[:6]:
            m = dict(meta[i])
            m.pop("problem", None)
            chk.corr_break(f"Model/Compose.v disagrees with the implementation ({meta[i].get('kind')}: {meta[i].get('node') or meta[i].get('route') or ''})", m)
        for i in failing:
            broken_kinds.add(meta[i].get("node") or meta[i].get("kind"))
        # (4) a break is not a violation: search for a failing input, biased to the disagreeing node kinds
        if failing or getattr(chk, "pending_breaks", None):
            extra_search(chk, sorted(k for k in broken_kinds if k), n_extra)
    else:
        chk.corr_break("Model/ComposeCases.vo not built", "")
        extra_search(chk, [], n_extra)


BIAS = {"ExtendNode": ["extend", "wextend", "wextend"], "ProjectNode": ["project"], "SelectRowsNode": ["select_rows"], "SelectColumnsNode": ["select_columns"],
        "DropColumnsNode": ["drop_columns"], "OrderRowsNode": ["order_rows"], "MapColumnsNode": ["map_columns"], "RenameColumnsNode": ["rename_columns"],
        "NaturalJoinNode": ["natural_join"], "ConcatRowsNode": ["concat_rows"]}


def extra_search(chk, kinds, n):
    """a model/implementation disagreement is not yet a violation: look for a concrete failing input, biased towards
    pipelines b that contain the node kinds whose replace_leaves disagrees"""
    kinds = [k for k in kinds if k in BIAS] or [None]
    per = max(20, n // len(kinds))
    for kind in kinds:
        feats = list(ALL_FEATURES) + (BIAS[kind] * 8 if kind else [])
        before = len(chk.__dict__.get("c07_causes", {}))
        for i in range(per):
            mode = "same" if (i % 5 or kind) else chk.rng.choice(["drop_last", "add_extra"])
            p = gen_problem(chk.rng, features=feats, e_mode=mode, triple=(i % 4 == 3 and not kind), depth_b=chk.rng.choice([1, 2, 3]),
                            del_rate=0.5 if kind == "MapColumnsNode" else 0.15, p1_rate=0.4 if kind == "ExtendNode" else 0.06)
            if p is None:
                continue
            res = check_problem(p)
            chk.dist("extra_search:" + res[0])
            if res[0] == "checked" and res[1]:
                report(chk, p, res[1])
                if len(chk.__dict__.get("c07_causes", {})) > before + 1:
                    break


def replay(path):
    r = json.load(open(path))
    if "problem" not in r:
        print(json.dumps(r, indent=1, default=str)[:4000])
        return 1
    p = r["problem"]
    print(json.dumps(describe(p), indent=1))
    res = check_problem(p)
    if res[0] == "skip":
        print("not evaluated:", res[1])
        return 0
    for f in res[1]:
        print("FAIL", f["oracle"], f["route"], "--", f["what"])
    print("info:", json.dumps(res[2], default=str))
    return 1 if res[1] else 0
