"""C08 -- results have exactly the columns the pipeline declares.
proof:  Props/C08.v over the reference semantics Model/Sem.v: for EVERY pipeline, backend flavour and environment the
        result has exactly `column_names p` in that order, every row has that width, and evaluation is defined whenever
        the tables are bound (no step can lose or leak a column).
tie:    Model/Sem.v is a hand model of what each backend computes; on every run each backend's result (Pandas, SQLite SQL,
        PostgreSQL-dialect SQL executed on SQLite, Polars eager and lazy) is compared with sem_gen <flavour> inside Coq, and the
        declared `column_names` of the real node objects with the model's `column_names`.
oracle: on the real code, for every backend: set(result.columns) == set(ops.column_names), equal as lists after a final
        select_columns; generator stresses empty inputs, steps replacing/dropping every non-key column, renames and swaps."""
import json, os, glob
import lib, pipes, execcorr as X

N = {"quick": 110, "thorough": 1500}
BACKENDS = ("pandas", "sqlite", "pgtext", "polars", "pllazy")


def column_oracle(case, backend, res):
    """None if fine else text"""
    decl = list(case.ops.column_names)
    got = [str(c) for c in res.columns]
    if len(got) != len(set(got)):
        return f"duplicate result columns {got}"
    if set(got) != set(decl):
        return f"declared {decl} but {backend} returned {got}"
    if X.defines_column_order(case.script) and got != decl:
        return f"select_columns declares order {decl} but {backend} returned {got}"
    return None


def special_cases(rng):
    """hand-shaped scripts for the corner named in the property: empty inputs, every non-key column replaced / dropped"""
    out = []
    t = pipes.gen_table(rng, "d1", ncols=3, colnames=["k", "a", "b"], types=("int",), unique_col="uid")
    t0 = dict(t, rows=[])
    T = {"op": "table", "name": "d1"}
    shapes = [
        {"op": "extend", "src": T, "ops": {"a": "k + 1", "b": "k * 2", "uid": "k"}},
        {"op": "drop_columns", "src": T, "columns": ["a", "b", "uid"]},
        {"op": "project", "src": T, "ops": {"a": "a.sum()"}, "group_by": ["k"]},
        {"op": "project", "src": T, "ops": {}, "group_by": ["k", "a"]},
        {"op": "select_columns", "src": {"op": "extend", "src": T, "ops": {"z": "a + b"}}, "columns": ["z", "k"]},
        {"op": "select_columns", "src": {"op": "project", "src": T, "ops": {"s": "a.sum()", "m": "b.max()"}, "group_by": ["k"]}, "columns": ["m"]},
        {"op": "rename_columns", "src": T, "map": {"a": "b", "b": "a"}},
        {"op": "map_columns", "src": T, "map": {"a": "q", "k": "a"}},
        {"op": "extend", "src": T, "ops": {"r": "_row_number()"}, "partition_by": ["k"], "order_by": ["uid"]},
        {"op": "natural_join", "src": T, "b": {"op": "select_columns", "src": T, "columns": ["k", "a"]}, "on": ["k"], "jointype": "LEFT"},
        {"op": "concat_rows", "src": T, "b": T, "id_column": "src", "a_name": "x", "b_name": "y"},
        {"op": "order_rows", "src": {"op": "select_columns", "src": T, "columns": ["uid", "b"]}, "columns": ["uid"], "reverse": ["uid"], "limit": 2},
    ]
    tw = dict(t, extra=[["zz_undeclared", "int", [7] * len(t["rows"])]])         # stored table wider than its description
    shapes_w = [{"op": "order_rows", "src": T, "columns": ["uid"], "reverse": [], "limit": None},
                {"op": "order_rows", "src": T, "columns": ["k", "uid"], "reverse": ["k"], "limit": 2},
                {"op": "select_rows", "src": T, "expr": "k >= 0"}, {"op": "drop_columns", "src": T, "columns": ["a"]},
                {"op": "rename_columns", "src": T, "map": {"q": "a"}}, {"op": "concat_rows", "src": T, "b": T, "id_column": None, "a_name": "x", "b_name": "y"},
                {"op": "natural_join", "src": T, "b": T, "on": ["uid"], "jointype": "INNER"}]
    for s in shapes_w:
        try:
            out.append(X.Case(s, [tw], pipes.build(s, {"d1": tw})))
        except Exception:
            pass
    # joins on differently named key pairs where a name is a key on BOTH sides without being paired with itself (crossed / chained
    # pairs), where the left key name is a non-key column of the right side, and mixed same-named + renamed keys: the executors'
    # suffixed copies of the right-hand columns must all be folded back
    ta = pipes.gen_table(rng, "d1", ncols=3, colnames=["a", "b", "x"], types=("int",), unique_col="uid", nrows=4)
    tb = pipes.gen_table(rng, "d2", ncols=3, colnames=["a", "b", "y"], types=("int",), unique_col=None, nrows=4)
    tc = pipes.gen_table(rng, "d2", ncols=3, colnames=["b", "c", "y"], types=("int",), unique_col=None, nrows=4)
    TA, TB = {"op": "table", "name": "d1"}, {"op": "table", "name": "d2"}
    for right, on in ((tb, [["a", "b"], ["b", "a"]]), (tc, [["a", "b"], ["b", "c"]]), (tb, [["a", "b"]]), (tb, ["a", ["b", "a"]]), (tc, ["b", ["a", "c"]])):
        for jt in ("INNER", "LEFT", "RIGHT", "FULL"):
            sj = {"op": "natural_join", "src": TA, "b": TB, "on": on, "jointype": jt}
            try:
                out.append(X.Case(sj, [ta, right], pipes.build(sj, {"d1": ta, "d2": right})))
            except Exception:
                pass
    for tab in (t, t0):
        for s in shapes:
            try:
                out.append(X.Case(s, [tab], pipes.build(s, {"d1": tab})))
            except Exception:
                pass
    return out


def run(chk):
    rng = chk.rng
    chk.prove([], extra_vo=["theories/Model/SemCases.vo"])
    chk.cov["trusted_base"] = [
        "Coq 8.16.1 kernel + vm_compute",
        "hand model Model/Sem.v: what each backend computes for a pipeline (sem_gen <flavour>) -- modelled, not verified; compared with every backend's real result on every run",
        "harness/semconv.py (real operator DAG -> Coq term), harness/pipes.py (generator), harness/execcorr.py (backends; PostgreSQL-dialect text is executed on SQLite 3.40.1, no PostgreSQL server exists here)",
        "convert_records is outside Model/Sem.v (its columns are covered by the oracle of C17 only)"]
    chk.assumptions = ["the tables bound in the environment have at least the declared columns (TableDescription selects them)",
                       "backends that raise are not counted as violations of C08 (raising is not returning wrong columns)"]
    chk.cov["rule"] = ("random pipelines depth 1..4 (quick) / 1..6 (thorough) over 2 random tables (0..8 rows, nulls, duplicates; 15% of cases with "
                       "all tables empty; 40% of stored tables carry a column their description does not declare) built through the public API, plus 31 hand-shaped corner pipelines (every non-key column replaced / dropped, "
                       "empty input); each evaluated on Pandas, SQLite, PostgreSQL-text-on-SQLite, Polars eager and lazy; non-trivial = depth >= 2; distinct by script+tables")
    cases = []
    for f in sorted(glob.glob(os.path.join(lib.ROOT, "corpus", "C08", "*.json"))):
        try:
            cases.append(X.case_from_json(json.load(open(f))["case"]))
        except Exception as e:
            chk.dist("corpus_unreadable")
    cases += special_cases(rng)
    n = N[chk.tier]
    while len(cases) < n + 31:
        c = X.gen_case(rng, depth=(1, 4) if chk.tier == "quick" else (1, 6), nrows=0 if rng.random() < 0.15 else None, extra_rate=0.4)
        if c is not None:
            cases.append(c)
    items = []
    for c in cases:
        chk.count(c.key(), nontrivial=pipes.script_depth(c.script) >= 2)
        chk.dist("depth_%d" % pipes.script_depth(c.script))
        chk.dist("final_" + pipes.script_ops(c.script)[-1])
        if len(chk.cov["samples"]) < 3:
            chk.sample(c.json())
        for b in BACKENDS:
            res, err = c.result(b)
            if res is None:
                chk.dist(f"{b}_raised")
                continue
            chk.dist(f"{b}_ok")
            items.append((c, b, res))
            why = column_oracle(c, b, res)
            if why:
                def fails(cc, b=b):
                    r, e = cc.result(b)
                    return r is not None and column_oracle(cc, b, r) is not None
                small = X.shrink_case(c, fails)
                r2, _ = small.result(b)
                chk.impl_violation(f"result columns differ from the declared columns on {b}: {column_oracle(small, b, r2)}",
                                   {"kind": "impl-violation", "case": small.json(), "backend": b, "declared": list(small.ops.column_names),
                                    "observed_columns": [str(x) for x in r2.columns]},
                                   {"backend": b, "final": pipes.script_ops(small.script)[-1], "cause": "columns"})
    failing, nchecked, errors = X.sem_correspondence(chk, "C08", items)
    chk.cov["correspondence"] = {"cases": len(items), "checked_in_coq": nchecked, "disagreements": len(failing), "errors": errors[:2]}
    chk.cov["traces_validated_against_impl"] = nchecked
    if errors:
        chk.corr_break("correspondence case files failed to compile", errors[0])
    for i in failing:
        c, b, res = items[i]
        # a disagreement on VALUES is another property's business (C01/C03/C16...); C08 is about the columns
        cols_model_ok = set(str(x) for x in res.columns) == set(c.ops.column_names)
        if cols_model_ok:
            chk.dist(f"value_only_disagreement_{b}")
            continue
        chk.corr_break(f"Model/Sem.v and the {b} backend disagree on result columns", X.describe(c, b, res, None))


def replay(path):
    r = json.load(open(path))
    if "case" not in r:
        print(json.dumps(r, indent=1)[:3000]); return 1
    c = X.case_from_json(r["case"])
    b = r.get("backend", "pandas")
    res, err = c.result(b)
    if res is None:
        print("backend raised:", err); return 0
    why = column_oracle(c, b, res)
    print("declared", list(c.ops.column_names), "observed", list(res.columns), "->", why or "ok")
    return 1 if why else 0
