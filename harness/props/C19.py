"""C19 -- evaluation never modifies the caller's tables and is repeatable.
proof:  Props/C19.v about the store model Model/Store.v (heap of frame objects; which objects each `_*_step` of pandas_base.py /
        polars_model.py creates and which it writes in place): writes only reach objects allocated by the evaluation itself,
        caller frames are unchanged, a second evaluation returns the same content (pipelines without random functions).
tie:    pandas is instrumented from outside /repo (DataFrame.__setitem__/__delitem__/inplace=True methods/`columns`,`index`
        setters/.loc/.iloc/.at/.iat writes/insert/pop/update) and the executor's dispatch table is wrapped, during `ops.eval`;
        per evaluated node: step kind, returned object new / same as a source / a caller frame, rows, columns, default index;
        and the set of in-place operations (step kind, kind, target caller-owned?) -- compared with the model inside Coq
        (Model/StoreCases.v).
oracle: deep snapshot (values incl. NaN positions, dtypes, column Index, row Index, attrs) of every caller frame before / after
        eval, transform, ex, >>, act_on, __call__, DataOpArrow.transform on Pandas and eval on Polars (eager, lazy), with
        non-default indexes, unusual dtypes, unused extra columns, one frame under two table names, shared sub-pipelines; and a
        second evaluation must equal the first."""
import contextlib, copy, glob, json, math, os, sys, warnings
import lib
from lib import clist, cstr, cbool

warnings.filterwarnings("ignore")
N = {"quick": 220, "thorough": 3000}
DA_DIR = os.path.join(os.path.realpath(lib.REPO), "data_algebra") + os.sep

STEP_KIND = {"_table_step": "KTable", "_extend_step": "KExtend", "_project_step": "KProject", "_select_rows_step": "KSelectRows",
             "_select_columns_step": "KSelectCols", "_drop_columns_step": "KDropCols", "_order_rows_step": "KOrderRows",
             "_map_columns_step": "KMapCols", "_rename_columns_step": "KRename", "_natural_join_step": "KJoin",
             "_concat_rows_step": "KConcat", "_convert_records_step": "KConvert"}
NODE_KIND = {"TableDescription": "KTable", "ExtendNode": "KExtend", "ProjectNode": "KProject", "SelectRowsNode": "KSelectRows",
             "SelectColumnsNode": "KSelectCols", "DropColumnsNode": "KDropCols", "OrderRowsNode": "KOrderRows",
             "MapColumnsNode": "KMapCols", "RenameColumnsNode": "KRename", "NaturalJoinNode": "KJoin", "ConcatRowsNode": "KConcat",
             "ConvertRecordsNode": "KConvert"}
WKIND = {"setitem": "WSetItem", "delitem": "WDelItem", "reset_index": "WResetIndex", "loc_setitem": "WLocSet", "set_columns": "WSetColumns"}


# ------------------------------------------------------------------------------------------------ snapshots

def cell(v):
    import numpy as np, pandas as pd
    if v is None:
        return "None"
    if v is pd.NA:
        return "NA"
    if v is pd.NaT:
        return "NaT"
    if isinstance(v, (float, np.floating)):
        if math.isnan(v):
            return "NaN"
        return ["f", repr(float(v))]
    if isinstance(v, (bool, np.bool_)):
        return ["b", bool(v)]
    if isinstance(v, (int, np.integer)):
        return ["i", int(v)]
    return [type(v).__name__, repr(v)]


def index_snap(ix):
    return {"type": type(ix).__name__, "dtype": str(getattr(ix, "dtype", "")), "names": [repr(n) for n in ix.names],
            "values": [cell(v) if not isinstance(v, tuple) else [cell(x) for x in v] for v in ix.tolist()]}


def snap_pandas(df):
    """everything the property names: values (with NaN / None / NA positions), dtypes, column Index, row Index; plus attrs and flags"""
    return {"shape": list(df.shape), "columns": index_snap(df.columns), "index": index_snap(df.index),
            "dtypes": [str(t) for t in df.dtypes], "attrs": copy.deepcopy(df.attrs),
            "dup_labels": bool(df.flags.allows_duplicate_labels),
            "values": [[cell(v) for v in df.iloc[:, j].tolist()] for j in range(df.shape[1])]}


def snap_polars(df):
    import polars as pl
    if isinstance(df, pl.LazyFrame):
        return {"lazy": True, "plan": df.explain(optimized=False), "collected": snap_polars(df.collect())}
    return {"columns": list(df.columns), "dtypes": [str(t) for t in df.dtypes], "shape": list(df.shape),
            "values": [[cell(v) for v in df.get_column(c).to_list()] for c in df.columns]}


def snap(df):
    import pandas as pd
    return snap_pandas(df) if isinstance(df, pd.DataFrame) else snap_polars(df)


def snap_diff(a, b, path=""):
    """first difference between two snapshots, as text (None when equal)"""
    if type(a) != type(b):
        return f"{path}: {a!r} -> {b!r}"
    if isinstance(a, dict):
        for k in sorted(set(a) | set(b)):
            if k not in a or k not in b:
                return f"{path}.{k}: present before={k in a} after={k in b}"
            d = snap_diff(a[k], b[k], f"{path}.{k}")
            if d:
                return d
        return None
    if isinstance(a, list):
        if len(a) != len(b):
            return f"{path}: length {len(a)} -> {len(b)}"
        for i, (x, y) in enumerate(zip(a, b)):
            d = snap_diff(x, y, f"{path}[{i}]")
            if d:
                return d
        return None
    return None if a == b else f"{path}: {a!r} -> {b!r}"


def close_cell(x, y):
    if isinstance(x, list) and isinstance(y, list) and len(x) == 2 and x[0] == "f" and y[0] == "f":
        a, b = float(x[1]), float(y[1])
        if math.isinf(a) or math.isinf(b):
            return a == b
        return abs(a - b) <= 1e-8 * max(abs(a), abs(b), 1.0)
    return x == y


def results_differ(r1, r2, ordered=True):
    """a second evaluation must give the same result: same columns, dtypes, index, same cells (floats by the 1e-8 relative rule);
    rows as a multiset when `ordered` is False (Polars group_by / join output order is not defined)"""
    a = r1 if isinstance(r1, dict) else snap(r1)
    b = r2 if isinstance(r2, dict) else snap(r2)
    for k in ("shape", "columns", "dtypes", "index"):
        if a.get(k) != b.get(k):
            return f"{k}: {a.get(k)!r} vs {b.get(k)!r}"
    ra = list(zip(*a["values"])) if a["values"] else []
    rb = list(zip(*b["values"])) if b["values"] else []
    if not ordered:
        ra, rb = sorted(ra, key=repr), sorted(rb, key=repr)
    for i, (x, y) in enumerate(zip(ra, rb)):
        for j, (u, v) in enumerate(zip(x, y)):
            if not close_cell(u, v):
                return f"row {i} column {j}: {u!r} vs {v!r}"
    return None


# ------------------------------------------------------------------------------------------------ input frames

INDEX_KINDS = ["default", "shuffled", "string", "duplicate", "negative", "offset", "float", "named", "multi", "datetime"]


def gen_decor(rng, t):
    """JSON-able description of how the plain generator frame is made unusual"""
    n = len(t["rows"])
    perm = list(range(n))
    rng.shuffle(perm)
    dt = {}
    for c, ty in t["spec"]:
        vals = [r[[x for x, _ in t["spec"]].index(c)] for r in t["rows"]]
        has_null = any(v is None for v in vals)
        if ty == "int":
            dt[c] = rng.choice(["int64", "Int64", "int32", "float64"] if not has_null else ["float64", "Int64", "float64"])
        elif ty == "float":
            dt[c] = rng.choice(["float64", "float64", "float32", "Float64"])
        elif ty == "str":
            dt[c] = rng.choice(["object", "object", "category", "string"])
        else:
            dt[c] = rng.choice(["bool", "boolean"] if not has_null else ["object", "boolean"])
    return {"index": rng.choice(INDEX_KINDS), "perm": perm, "dtypes": dt if rng.random() < 0.5 else {},
            "extra": rng.random() < 0.5, "attrs": rng.random() < 0.5, "colname": rng.random() < 0.2}


def make_frame(t, decor, extras=True):
    import numpy as np, pandas as pd
    import pipes
    df = pipes.table_frame(t)
    n = df.shape[0]
    for c, d in (decor.get("dtypes") or {}).items():
        try:
            col = df[c]
            if d in ("Int64", "boolean", "Float64", "string"):
                col = pd.Series([pd.NA if (v is None or (isinstance(v, float) and math.isnan(v))) else v for v in col.tolist()], dtype=d)
            else:
                col = col.astype(d)
            df[c] = col
        except Exception:
            pass
    if extras and decor.get("extra"):
        df["unused extra"] = [f"e{i}" for i in range(n)]
        df["zz_extra_num"] = np.arange(n, dtype="float64") * 0.5
    kind, perm = decor.get("index", "default"), decor.get("perm") or list(range(n))
    if kind == "shuffled":
        df.index = pd.Index(perm, dtype="int64")
    elif kind == "string":
        df.index = pd.Index([f"r{p}" for p in perm], dtype=object)
    elif kind == "duplicate":
        df.index = pd.Index([p % 2 for p in perm], dtype="int64")
    elif kind == "negative":
        df.index = pd.Index([-p - 1 for p in perm], dtype="int64")
    elif kind == "offset":
        df.index = pd.RangeIndex(5, 5 + n)
    elif kind == "float":
        df.index = pd.Index([p + 0.5 for p in perm], dtype="float64")
    elif kind == "named":
        df.index = pd.Index(perm, dtype="int64", name="a")         # an index NAMED like a column
    elif kind == "multi":
        df.index = pd.MultiIndex.from_arrays([[p % 2 for p in perm], perm], names=["k1", "k2"])
    elif kind == "datetime":
        df.index = pd.DatetimeIndex([pd.Timestamp("2020-01-01") + pd.Timedelta(days=p) for p in perm])
    if decor.get("colname"):
        df.columns.name = "cols"
    if decor.get("attrs"):
        df.attrs = {"source": "caller", "nested": {"k": [1, 2, 3]}}
    return df


def make_polars(t):
    import polars as pl
    cols, schema = {}, {}
    for j, (c, ty) in enumerate(t["spec"]):
        cols[c] = [r[j] for r in t["rows"]]
        schema[c] = {"int": pl.Int64, "float": pl.Float64, "str": pl.Utf8, "bool": pl.Boolean}[ty]
    return pl.DataFrame(cols, schema=schema)


# ------------------------------------------------------------------------------------------------ instrumentation

class Tracer:
    """logs in-place operations on pandas / polars frames performed by data_algebra code (or by anyone, on a caller's frame)
    and what each executor step returned; patches live only inside `with tracer.active():`"""

    def __init__(self, callers):
        self.callers = {id(f): n for n, f in callers.items()}
        self.keep = list(callers.values())
        self.writes = []          # (step function name | None, operation, caller_owned)
        self.root = None
        self.stack = []
        self.on = False

    def log(self, obj, opname):
        if not self.on:
            return
        fr = sys._getframe(2)
        owned = id(obj) in self.callers
        if not owned and not os.path.realpath(fr.f_code.co_filename).startswith(DA_DIR):
            return                # library-internal operation on an object made during the evaluation
        step, f = None, fr
        while f is not None:
            if f.f_code.co_name.endswith("_step") and os.path.realpath(f.f_code.co_filename).startswith(DA_DIR):
                step = f.f_code.co_name
                break
            f = f.f_back
        self.writes.append((step, opname, owned))

    def wrap_dispatch(self, model):
        table = model._method_dispatch_table
        new = {}
        for name, fn in table.items():
            def wrapped(*, op, data_map, _fn=fn):
                rec = {"op": op, "children": [], "res": None}
                if self.stack:
                    self.stack[-1]["children"].append(rec)
                else:
                    self.root = rec
                self.stack.append(rec)
                try:
                    res = _fn(op=op, data_map=data_map)
                finally:
                    self.stack.pop()
                rec["res"] = res
                rec["nrows"], rec["cols"], rec["range"] = int(res.shape[0]), [str(c) for c in res.columns], is_range_index(res)   # at return time
                self.keep.append(res)          # keep ids unambiguous
                return res
            new[name] = wrapped
        return table, new

    @contextlib.contextmanager
    def active(self, model=None):
        import pandas as pd
        from pandas.core import indexing
        saved = []

        def patch(cls, name, make):
            orig = cls.__dict__.get(name)
            if orig is None:
                orig_attr = getattr(cls, name)
            else:
                orig_attr = orig
            saved.append((cls, name, orig))
            setattr(cls, name, make(orig_attr))
        t = self

        def simple(opname):
            def make(orig):
                def f(self, *a, **k):
                    t.log(self, opname)
                    return orig(self, *a, **k)
                return f
            return make

        def inplace(opname):
            def make(orig):
                def f(self, *a, **k):
                    if k.get("inplace") is True:
                        t.log(self, opname)
                    return orig(self, *a, **k)
                return f
            return make

        def setattr_make(orig):
            def f(self, name, value):
                if name == "columns":
                    t.log(self, "set_columns")
                elif name == "index":
                    t.log(self, "set_index_attr")
                return orig(self, name, value)
            return f

        def indexer_make(orig):
            def f(self, key, value):
                if isinstance(self.obj, pd.DataFrame):
                    t.log(self.obj, "loc_setitem")
                return orig(self, key, value)
            return f
        patch(pd.DataFrame, "__setitem__", simple("setitem"))
        patch(pd.DataFrame, "__delitem__", simple("delitem"))
        patch(pd.DataFrame, "insert", simple("insert"))
        patch(pd.DataFrame, "pop", simple("pop"))
        patch(pd.DataFrame, "update", simple("update"))
        patch(pd.DataFrame, "__setattr__", setattr_make)
        for m in ("reset_index", "drop", "sort_values", "sort_index", "rename", "fillna", "set_index", "drop_duplicates", "dropna",
                  "replace", "ffill", "bfill", "interpolate", "clip", "where", "mask", "eval", "query", "set_axis", "rename_axis"):
            if hasattr(pd.DataFrame, m):
                patch(pd.DataFrame, m, inplace("reset_index" if m == "reset_index" else m + "_inplace"))
        patch(indexing._LocationIndexer, "__setitem__", indexer_make)
        patch(indexing._ScalarAccessIndexer, "__setitem__", indexer_make)
        try:
            import polars as pl
            patch(pl.DataFrame, "__setitem__", simple("setitem"))
            for m in ("insert_column", "replace_column", "drop_in_place", "extend"):
                if hasattr(pl.DataFrame, m):
                    patch(pl.DataFrame, m, simple(m))
            for m in ("hstack", "vstack", "shrink_to_fit", "rechunk"):
                if hasattr(pl.DataFrame, m):
                    def make_ip(orig, _m=m):
                        def f(self, *a, **k):
                            if k.get("in_place") is True:
                                t.log(self, _m + "_in_place")
                            return orig(self, *a, **k)
                        return f
                    patch(pl.DataFrame, m, make_ip)
            prop = pl.DataFrame.__dict__.get("columns")
            if isinstance(prop, property) and prop.fset is not None:
                def fset(self, value, _o=prop.fset):
                    t.log(self, "set_columns")
                    return _o(self, value)
                saved.append((pl.DataFrame, "columns", prop))
                pl.DataFrame.columns = property(prop.fget, fset, prop.fdel, prop.__doc__)
        except ImportError:
            pass
        old_table = None
        if model is not None and hasattr(model, "_method_dispatch_table"):
            old_table, new_table = self.wrap_dispatch(model)
            model._method_dispatch_table = new_table
        self.on = True
        try:
            yield self
        finally:
            self.on = False
            if old_table is not None:
                model._method_dispatch_table = old_table
            for cls, name, orig in reversed(saved):
                if orig is None:
                    try:
                        delattr(cls, name)
                    except AttributeError:
                        pass
                else:
                    setattr(cls, name, orig)


# ------------------------------------------------------------------------------------------------ Coq terms from an observed run

def cstrs(xs):
    return clist([cstr(str(x)) for x in xs])


def is_range_index(df):
    import pandas as pd
    ix = df.index
    return isinstance(ix, pd.RangeIndex) and ix.start == 0 and ix.step == 1 and ix.name is None


def c_frame(df, i):
    return "(mkframe %s %s %d (PIn %d))" % ("IxRange" if is_range_index(df) else "IxOther", cstrs(df.columns), df.shape[0], i)


def temp_cols(op, prefix):
    import data_algebra.expr_rep as er
    seen, names = {}, []
    for k, opk in op.ops.items():
        if len(opk.args) > 0 and isinstance(opk.args[0], er.Value):
            key = str(opk.args[0].value)
            if key not in seen:
                seen[key] = prefix + str(len(seen))
                names.append(seen[key])
    return names


def c_op(rec):
    """the Coq operator tree of an evaluated node, annotated with the row counts observed in this run"""
    import data_algebra.expr_rep as er
    op, ch = rec["op"], rec["children"]
    nr = rec["nrows"]
    k = op.node_name
    if k == "TableDescription":
        return "(Table %s %s)" % (cstr(op.table_name), cstrs(op.column_names))
    src = c_op(ch[0])
    if k == "ExtendNode":
        win = bool(op.windowed_situation) or len(op.partition_by) > 0 or len(op.order_by) > 0
        if win:
            consts = temp_cols(op, "data_algebra_extend_temp_col_")
            cols = list(dict.fromkeys(list(op.partition_by) + list(op.order_by)))
            sorted_ = len(cols) > 0
            for opk in op.ops.values():
                if len(opk.args) > 0 and isinstance(opk.args[0], er.ColumnReference) and opk.args[0].column_name not in cols:
                    cols.append(opk.args[0].column_name)
            w = "(Some (mkw %s %s %s))" % (cstrs(consts), cstrs(cols + consts), cbool(sorted_))
        else:
            w = "None"
        rnd = any("uniform" in str(v) for v in op.ops.values())
        return "(Extend %s \"\" %s %s %s)" % (src, cstrs(op.ops.keys()), w, cbool(rnd))
    if k == "ProjectNode":
        return "(Project %s \"\" %s %s %s %d)" % (src, cstrs(op.group_by), cstrs(op.ops.keys()), cstrs(temp_cols(op, "data_algebra_project_temp_col_")), nr)
    if k == "SelectRowsNode":
        return "(SelectRows %s \"\" %d)" % (src, nr)
    if k == "SelectColumnsNode":
        return "(SelectCols %s %s)" % (src, cstrs(op.column_selection))
    if k == "DropColumnsNode":
        return "(DropCols %s %s)" % (src, cstrs(op.column_deletions))
    if k == "OrderRowsNode":
        return "(OrderRows %s %s %s %s)" % (src, cstrs(op.order_columns), cstrs(op.reverse), "None" if op.limit is None else "(Some %d)" % op.limit)
    if k == "MapColumnsNode":
        m = clist(["(%s, %s)" % (cstr(a), cstr(b)) for a, b in op.column_remapping.items()])
        return "(MapCols %s %s %s)" % (src, m, cstrs(op.column_deletions or []))
    if k == "RenameColumnsNode":
        m = clist(["(%s, %s)" % (cstr(a), cstr(b)) for a, b in op.reverse_mapping.items()])
        return "(Rename %s %s)" % (src, m)
    if k == "NaturalJoinNode":
        # data-dependent branch of _natural_join_step: both sides have a row with a null key (the key columns of the two
        # source results are not touched by the step, so this can be read off the objects afterwards)
        nullkeys = False
        try:
            lf, rf = ch[0].get("res"), ch[1].get("res")
            if lf is not None and rf is not None and len(op.on_a) > 0 and not (lf.shape[0] == 0 and rf.shape[0] == 0):
                nullkeys = bool(lf[list(op.on_a)].isnull().any(axis=1).any() and rf[list(op.on_b)].isnull().any(axis=1).any())
        except Exception:
            nullkeys = False
        return "(NaturalJoin %s %s %s %s %s %s %d)" % (src, c_op(ch[1]), cstrs(op.on_a), cstrs(op.on_b), cstr(op.jointype), cbool(nullkeys), nr)
    if k == "ConcatRowsNode":
        return "(ConcatRows %s %s %s)" % (src, c_op(ch[1]), "None" if op.id_column is None else "(Some %s)" % cstr(op.id_column))
    if k == "ConvertRecordsNode":
        rm = op.record_map
        hi, ho = rm.blocks_in is not None, rm.blocks_out is not None
        src_rows = ch[0]["nrows"]
        if hi and ho:
            mid, nmid = list(rm.blocks_in.row_columns), (1 if src_rows > 0 else 0)
        else:
            mid, nmid = list(rec["cols"]), nr
        return "(ConvertRecords %s %s %s %s %s %d %d)" % (src, cbool(hi), cbool(ho), cstrs(mid), cstrs(rec["cols"]), nmid, nr)
    raise ValueError(k)


def c_nodes(rec, callers, acc):
    for c in rec["children"]:
        c_nodes(c, callers, acc)
    res, ids = rec["res"], [id(c["res"]) for c in rec["children"]]
    if id(res) in callers:
        ret = "RCaller"
    elif ids and id(res) == ids[0]:
        ret = "RSrc0"
    elif len(ids) > 1 and id(res) == ids[1]:
        ret = "RSrc1"
    else:
        ret = "RNew"
    acc.append("(%s, %s, %d, %s, %s)" % (NODE_KIND[rec["op"].node_name], ret, rec["nrows"], cstrs(rec["cols"]), cbool(rec["range"])))
    return acc


def c_writes(writes):
    out = []
    for step, opname, owned in sorted(set(writes), key=repr):
        out.append("(%s, %s, %s)" % (STEP_KIND.get(step, "KTable"), ("OW " + WKIND[opname]) if (opname in WKIND and step in STEP_KIND) else "OOther", cbool(owned)))
    return clist(out)


def traced_eval(ops, frames):
    """ops.eval under the tracer -> (result, tracer) ; Pandas frames"""
    import data_algebra.data_model
    model = data_algebra.data_model.default_data_model()
    tr = Tracer(frames)
    with tr.active(model):
        res = ops.eval(frames)
    return res, tr


def pandas_case(ops, frames):
    res, tr = traced_eval(ops, frames)
    names = sorted(frames)
    tables = clist(["(%s, %s)" % (cstr(n), c_frame(frames[n], i + 1)) for i, n in enumerate(names)])
    term = "(mkcase false %s %s %s %s)" % (tables, c_op(tr.root), clist(c_nodes(tr.root, tr.callers, [])), c_writes(tr.writes))
    return term, tr, res


def polars_case(ops, pframes, script_ops_tree):
    import data_algebra.data_model
    tr = Tracer(pframes)
    with tr.active(None):
        res = ops.eval(pframes)
    names = sorted(pframes)
    tables = clist(["(%s, (mkframe IxRange %s %d (PIn %d)))" % (cstr(n), cstrs(pframes[n].columns), pframes[n].shape[0] if hasattr(pframes[n], "shape") else 0, i + 1)
                    for i, n in enumerate(names)])
    term = "(mkcase true %s %s [] %s)" % (tables, script_ops_tree, c_writes(tr.writes))
    return term, tr, res


def c_op_static(op):
    """operator tree without observed row counts (Polars cases: only the write pattern is compared)"""
    def build(o):
        return {"op": o, "children": [build(s) for s in o.sources], "res": None, "nrows": 1, "cols": [], "range": True}
    return c_op(build(op))


# ------------------------------------------------------------------------------------------------ building pipelines

def build(script, leaf, memo=None):
    """pipes.build with a caller-supplied leaf constructor (shared sub-scripts become shared nodes)"""
    import pipes
    memo = {} if memo is None else memo
    if id(script) in memo:
        return memo[id(script)]
    if script["op"] == "table":
        r = leaf(script["name"])
    else:
        r = pipes.apply_step(build(script["src"], leaf, memo), script, lambda b: build(b, leaf, memo))
    memo[id(script)] = r
    return r


def gen_case(rng, i):
    """(script, tables, decor) ; every third case passes ONE frame under two table names"""
    import pipes
    same = (i % 3 == 0)
    t1 = pipes.gen_table(rng, "d1", unique_col="uid", types=("int", "float", "str", "bool") if rng.random() < 0.3 else ("int", "float", "str"))
    if same:
        t2 = dict(t1, name="d2")
    else:
        t2 = pipes.gen_table(rng, "d2", unique_col="uid")
    tables = [t1, t2]
    g = pipes.Gen(rng, tables)
    mode = i % 6
    if same:
        a, colty, order = g.table("d1")
        for _ in range(rng.randint(0, 2)):
            r = g.step(a, colty, order)
            if r is not None and r[0]["op"] not in ("natural_join", "concat_rows"):
                a, colty, order = r
        b = {"op": "table", "name": "d2"}
        if rng.random() < 0.5:
            keys = [c for c in order if c in dict(t1["spec"]) and colty.get(c) == dict(t1["spec"])[c]] or ["uid"]
            keys = [k for k in keys if k in order] or None
            if keys is None:
                s = a
            else:
                s = {"op": "natural_join", "src": a, "b": b, "on": rng.sample(keys, rng.randint(1, min(2, len(keys)))), "jointype": rng.choice(["INNER", "LEFT", "RIGHT", "FULL"])}
        else:
            s = {"op": "concat_rows", "src": {"op": "table", "name": "d1"}, "b": b, "id_column": rng.choice([None, "src_name"]), "a_name": "a", "b_name": "b"}
    elif mode in (1, 4):                      # one table only (possibly referenced twice): transform / >> / act_on / arrows apply
        s, _, _ = pipes.Gen(rng, [t1]).pipeline(rng.randint(1, 4))
    else:
        s, _, _ = g.pipeline(rng.randint(2, 6))
    if rng.random() < 0.04:                  # a random function: inputs must still be untouched, repeatability is not claimed
        s = {"op": "extend", "src": s, "ops": {"rnd_u": "_uniform()"}}
    decor = {t["name"]: gen_decor(rng, t) for t in tables}
    if same:
        decor["d2"] = decor["d1"]
    return s, tables, decor, same


def frames_for(tables, decor, same, extras=True):
    fr = {}
    for t in tables:
        if same and t["name"] == "d2":
            fr["d2"] = fr["d1"]
        else:
            fr[t["name"]] = make_frame(t, decor[t["name"]], extras=extras)
    return fr


# ------------------------------------------------------------------------------------------------ the oracle

class Violation(Exception):
    def __init__(self, what, sig, detail):
        Exception.__init__(self, what)
        self.what, self.sig, self.detail = what, sig, detail


def check_unchanged(before, frames, entry, raised):
    seen = set()
    for n, f in frames.items():
        if id(f) in seen:
            continue
        seen.add(id(f))
        d = snap_diff(before[n], snap(f))
        if d:
            raise Violation(f"{entry} modified the caller's frame '{n}': {d}", {"oracle": "unchanged", "entry": entry, "raised": raised}, d)


def entries_pandas(s, tables, decor, same, stats=None):
    """run every Pandas entry point on fresh caller frames; raises Violation on the first failure of the property"""
    import pipes, pandas as pd
    from data_algebra.data_ops import data as da_data, ex as da_ex, descr as da_descr
    from data_algebra.arrow import DataOpArrow
    tmap = {t["name"]: t for t in tables}
    ops = pipes.build(s, tmap)
    used = sorted(pipes.script_tables(s))
    results = {}

    def attempt(entry, frames, thunk):
        before = {n: snap(f) for n, f in frames.items()}
        try:
            r = thunk()
            raised = False
        except Violation:
            raise
        except Exception as e:
            r, raised = None, True
            if stats is not None:
                stats(f"{entry}:raised:{type(e).__name__}")
        check_unchanged(before, frames, entry, raised)
        if not raised:
            if stats is not None:
                stats(f"{entry}:ok")
            results[entry] = r
        return r
    # eval with a data_map holding every frame (used or not), extra unused columns included
    fr = frames_for(tables, decor, same)
    r1 = attempt("eval", fr, lambda: ops.eval(fr))
    if r1 is not None and not has_random(s):
        r1snap = snap(r1)                      # taken BEFORE the second evaluation (the two results may share objects)
        r2 = attempt("eval_again", fr, lambda: ops.eval(fr))
        if r2 is None:
            raise Violation("a second eval on the same inputs raised although the first succeeded", {"oracle": "repeat", "entry": "eval", "raised": True}, "")
        d = results_differ(r1snap, r2)
        if d:
            raise Violation("a second eval on the same inputs gives a different result: " + d, {"oracle": "repeat", "entry": "eval", "raised": False}, d)
    fr = frames_for(tables, decor, same)
    attempt("eval_strict_false_subset", {n: fr[n] for n in used}, lambda: ops.eval({n: fr[n] for n in used}, strict=False))
    # ex(): tables captured in the pipeline (all rows kept)
    fr = frames_for(tables, decor, same, extras=False)
    try:
        ops_ex = build(s, lambda n: da_data(**{n: fr[n]}))
    except Exception:
        ops_ex = None
    if ops_ex is not None:
        attempt("ex", fr, lambda: ops_ex.ex())
        attempt("ex_fn", fr, lambda: da_ex(ops_ex))
    fr = frames_for(tables, decor, same, extras=False)
    try:
        ops_d = build(s, lambda n: da_descr(**{n: fr[n]}))      # keeps head(7) only: ex() refuses larger tables
    except Exception:
        ops_d = None
    if ops_d is not None:
        attempt("descr_ex", fr, lambda: ops_d.ex())
    if len(used) == 1:
        n = used[0]
        fr = frames_for(tables, decor, same)
        attempt("transform", {n: fr[n]}, lambda: ops.transform(fr[n]))
        fr = frames_for(tables, decor, same, extras=False)
        attempt("rshift", {n: fr[n]}, lambda: fr[n] >> ops)
        attempt("act_on", {n: fr[n]}, lambda: ops.act_on(fr[n]))
        attempt("call", {n: fr[n]}, lambda: ops(fr[n]))
        attempt("arrow_transform", {n: fr[n]}, lambda: DataOpArrow(ops).transform(fr[n]))
        attempt("arrow_rshift", {n: fr[n]}, lambda: fr[n] >> DataOpArrow(ops))
    return ops, results


def entries_polars(s, tables, same, stats=None):
    import pipes, polars as pl
    tmap = {t["name"]: t for t in tables}
    ops = pipes.build(s, tmap)
    ordered = False      # Polars group_by / join / sort-with-ties output order is not deterministic: rows compared as a multiset
    for lazy in (False, True):
        pf = {}
        for t in tables:
            pf[t["name"]] = pf["d1"] if (same and t["name"] == "d2") else (make_polars(t).lazy() if lazy else make_polars(t))
        entry = "polars_lazy_eval" if lazy else "polars_eval"
        before = {n: snap(f) for n, f in pf.items()}
        try:
            r1 = ops.eval(pf)
            raised = False
        except Exception as e:
            r1, raised = None, True
            if stats is not None:
                stats(f"{entry}:raised:{type(e).__name__}")
        check_unchanged(before, pf, entry, raised)
        if raised or has_random(s):
            continue
        if stats is not None:
            stats(f"{entry}:ok")
        r1 = snap(r1)
        try:
            r2 = ops.eval(pf)
        except Exception as e:
            raise Violation(f"a second {entry} on the same inputs raised {type(e).__name__}", {"oracle": "repeat", "entry": entry, "raised": True}, repr(e))
        check_unchanged(before, pf, entry + "_again", False)
        d = results_differ(r1, r2, ordered=ordered)
        if d:
            raise Violation(f"a second {entry} on the same inputs gives a different result: " + d, {"oracle": "repeat", "entry": entry, "raised": False}, d)
    return ops


def has_random(s):
    if s["op"] == "table":
        return False
    if s["op"] == "extend" and any("uniform" in str(e) for e in s["ops"].values()):
        return True
    return has_random(s["src"]) or ("b" in s and has_random(s["b"]))


def oracle(s, tables, decor, same, stats=None, polars=True):
    """None, or a Violation"""
    try:
        entries_pandas(s, tables, decor, same, stats)
        if polars:
            entries_polars(s, tables, same, stats)
    except Violation as v:
        return v
    return None


def shrink(s, tables, decor, same, polars):
    """smaller script (sub-pipelines), fewer rows, plainer decoration on which the oracle still fails"""
    import pipes

    def fails(s2, tb, dc):
        try:
            return oracle(s2, tb, dc, same, None, polars) is not None
        except Exception:
            return False
    changed = True
    while changed:
        changed = False
        cands = []
        if s["op"] != "table":
            cands.append(s["src"])
            if "b" in s:
                cands.append(s["b"])
            if s["src"]["op"] != "table":
                cands.append(dict(s, src=s["src"]["src"]))
        for c in cands:
            try:
                if c["op"] != "table" and fails(c, tables, decor):
                    s, changed = c, True
                    break
            except Exception:
                pass
    for k in range(len(tables)):
        t = tables[k]
        rows = lib.shrink_list(t["rows"], lambda rs: fails(s, [dict(t, rows=rs) if j == k else tables[j] for j in range(len(tables))],
                                                           {n: dict(d, perm=list(range(len(rs)))) for n, d in decor.items()}), max_steps=60)
        if len(rows) < len(t["rows"]):
            tables = [dict(t, rows=rows) if j == k else tables[j] for j in range(len(tables))]
            if same:
                tables = [tables[0], dict(tables[0], name="d2")]
            decor = {n: dict(d, perm=list(range(len({x["name"]: x for x in tables}[n]["rows"])))) for n, d in decor.items()}
    for field, plain in (("dtypes", {}), ("extra", False), ("attrs", False), ("colname", False), ("index", "default")):
        d2 = {n: dict(d, **{field: plain}) for n, d in decor.items()}
        if fails(s, tables, d2):
            decor = d2
    return s, tables, decor


def report(chk, v, s, tables, decor, same, polars=True):
    import pipes
    s2, t2, d2 = shrink(s, tables, decor, same, polars)
    v2 = oracle(s2, t2, d2, same, None, polars) or v
    try:
        text = str(pipes.build(s2, {t["name"]: t for t in t2}))
    except Exception:
        text = ""
    chk.impl_violation(v2.what, {"kind": "impl-violation", "script": pipes.to_json(s2), "tables": t2, "decor": d2, "same_frame_twice": same,
                                 "pipeline": text, "detail": v2.detail, "signature": v2.sig}, dict(v2.sig, ops=sorted(set(pipes.script_ops(s2)))))


# ------------------------------------------------------------------------------------------------ convert_records pipelines (not in pipes.Gen)

def convert_cases(rng, n):
    """(ops, frames) with a record transform: unpivot / pivot / both"""
    import pandas as pd
    from data_algebra.data_ops import TableDescription
    import data_algebra.cdata as cdata
    out = []
    for i in range(n):
        nr = rng.choice([0, 1, 2, 3, 4])
        d = pd.DataFrame({"id": list(range(nr)), "x": [rng.randint(0, 5) * 0.5 for _ in range(nr)], "y": [rng.randint(0, 5) * 1.0 for _ in range(nr)]})
        if rng.random() < 0.6:
            perm = list(range(nr)); rng.shuffle(perm)
            d.index = pd.Index([p + 10 for p in perm], dtype="int64")
        to_blocks = cdata.unpivot_specification(row_keys=["id"], col_name_key="k", col_value_key="v", value_cols=["x", "y"])
        to_rows = cdata.pivot_specification(row_keys=["id"], col_name_key="k", col_value_key="v", value_cols=["x", "y"])
        td = TableDescription(table_name="d", column_names=["id", "x", "y"])
        kind = i % 3
        if kind == 0:
            ops = td.convert_records(to_blocks)
        elif kind == 1:
            ops = td.convert_records(to_blocks).extend({"v": "v + 1"}).convert_records(to_rows)
        else:
            ops = td.extend({"x": "x * 2"}).convert_records(to_blocks).order_rows(["id", "k"])
        out.append((ops, {"d": d}))
    return out


# ------------------------------------------------------------------------------------------------ run / replay

def corpus_cases():
    out = []
    for f in sorted(glob.glob(os.path.join(lib.ROOT, "corpus", "C19", "*.json"))):
        r = json.load(open(f))
        out.append((r["script"], r["tables"], r["decor"], bool(r.get("same_frame_twice"))))
    return out


def run(chk):
    import pipes
    rng = chk.rng
    n = N[chk.tier]
    import time
    t0 = time.time()
    chk.prove([], extra_vo=["theories/Model/StoreCases.vo"])
    t_prove = time.time() - t0
    chk.cov["trusted_base"] = ["Coq 8.16.1 kernel + vm_compute",
                               "hand model Model/Store.v: heap of frame objects, per `_*_step` of pandas_base.py / polars_model.py the objects created and the in-place writes "
                               "(transcribed by hand; tied by the instrumented correspondence run)",
                               "pandas 3 API model (copy-on-write): df[c]=v, del df[c], df.loc[m,c]=v, reset_index(inplace=True), df.columns=... write in place; "
                               "loc/iloc/[] selection, reset_index(drop=True), sort_values, rename, drop(inplace=False), merge, concat, DataFrame(...) return new objects that share no later write "
                               "(modelled, not verified; sampled by the snapshot oracle)",
                               "instrumentation harness/props/C19.py (monkey-patched pandas / polars methods, wrapped executor dispatch table)",
                               "ViewRepresentation.eval/transform/ex/act_on/>> hand the caller's objects unchanged to data_model.eval (read in view_representations.py; exercised by the oracle)"]
    chk.assumptions = ["data-dependent outcomes (row counts) are oracle annotations: theorems hold for every outcome",
                       "frame values are opaque symbolic payloads: library primitives are deterministic functions of their arguments' contents",
                       "random functions (_uniform) excluded from repeatability (guard no_random; refuted without it)",
                       "SQLNode / database-backed leaves are outside the model"]
    chk.cov["rule"] = ("random pipelines from pipes.Gen (1-6 steps, all operator kinds, shared sub-pipelines; every third case passes ONE frame object under two table names "
                       "through natural_join / concat_rows) over random tables whose caller frames get a non-default index (10 kinds), unusual dtypes, unused columns, attrs; "
                       "each evaluated through eval (twice), ex, transform, >>, act_on, __call__, DataOpArrow on Pandas and eval on Polars eager + lazy; "
                       "plus convert_records pipelines; non-trivial = >=2 steps and >=1 row; distinct by script and data")
    stats = lambda k: chk.dist("entry:" + k)
    terms, meta = [], []
    cases = [(c, True) for c in corpus_cases()]
    chk.cov["corpus_cases"] = len(cases)
    i = 0
    while len(cases) < n + chk.cov["corpus_cases"]:
        cases.append((gen_case(rng, i), False))
        i += 1
    nwrites = {}
    for idx, ((s, tables, decor, same), from_corpus) in enumerate(cases):
        kinds = pipes.script_ops(s)
        chk.count((json.dumps(pipes.to_json(s), sort_keys=True), json.dumps([t["rows"] for t in tables], default=str), json.dumps(decor, sort_keys=True)),
                  nontrivial=len(kinds) >= 2 and any(len(t["rows"]) > 0 for t in tables))
        for k in kinds:
            chk.dist("step:" + k)
        chk.dist("index:" + decor["d1"]["index"])
        if same:
            chk.dist("same_frame_under_two_names")
        if has_random(s):
            chk.dist("random_function_pipeline")
        try:
            v = oracle(s, tables, decor, same, stats)
        except Exception as e:                      # builder rejected the script etc.
            chk.dist("not_built:" + type(e).__name__)
            continue
        if v is not None:
            report(chk, v, s, tables, decor, same)
            continue
        # instrumented run for the correspondence
        try:
            ops = pipes.build(s, {t["name"]: t for t in tables})
            fr = frames_for(tables, decor, same)
            before = {nm: snap(f) for nm, f in fr.items()}
            term, tr, res = pandas_case(ops, fr)
        except Exception as e:
            chk.dist("traced_eval_raised:" + type(e).__name__)
            continue
        d = None
        for nm, f in fr.items():
            d = d or snap_diff(before[nm], snap(f))
        if d or any(w[2] for w in tr.writes):
            vv = Violation("eval wrote into a caller's frame (instrumented run): " + str(d or [w for w in tr.writes if w[2]][:3]),
                           {"oracle": "unchanged", "entry": "eval", "raised": False}, str(d))
            report(chk, vv, s, tables, decor, same)
        for w in set(tr.writes):
            nwrites[(w[0], w[1])] = nwrites.get((w[0], w[1]), 0) + 1
        terms.append(term)
        meta.append({"script": pipes.to_json(s), "tables": tables, "decor": decor, "same_frame_twice": same, "pipeline": str(ops),
                     "observed_writes": sorted(set(map(str, tr.writes)))})
        if idx < 3:
            chk.sample({"pipeline": str(ops), "index": decor["d1"]["index"], "writes": sorted(set(map(str, tr.writes))), "result_rows": int(res.shape[0])})
        # Polars write pattern (when the Polars executor evaluates the pipeline at all)
        if idx % 4 == 0:
            try:
                pf = {t["name"]: make_polars(t) for t in tables}
                if same:
                    pf["d2"] = pf["d1"]
                pterm, ptr, _ = polars_case(ops, pf, c_op_static(ops))
                terms.append(pterm)
                meta.append({"script": pipes.to_json(s), "tables": tables, "backend": "polars", "observed_writes": sorted(set(map(str, ptr.writes)))})
                if any(w[2] for w in ptr.writes):
                    report(chk, Violation("Polars eval wrote into a caller's frame: " + str(ptr.writes[:3]), {"oracle": "unchanged", "entry": "polars_eval", "raised": False}, ""), s, tables, decor, same)
            except Exception as e:
                chk.dist("polars_traced_raised:" + type(e).__name__)
    # record transforms
    for ops, fr in convert_cases(rng, 12 if chk.tier == "quick" else 200):
        before = {nm: snap(f) for nm, f in fr.items()}
        try:
            term, tr, res = pandas_case(ops, fr)
        except Exception as e:
            chk.dist("convert_raised:" + type(e).__name__)
            continue
        chk.count(("convert", str(ops), snap(fr["d"])["values"].__repr__()), nontrivial=fr["d"].shape[0] > 0)
        chk.dist("step:convert_records")
        d = snap_diff(before["d"], snap(fr["d"]))
        if d or any(w[2] for w in tr.writes):
            chk.impl_violation("convert_records pipeline modified the caller's frame: " + str(d), {"kind": "impl-violation", "pipeline": str(ops), "frame": fr["d"].to_dict(orient="list"),
                                                                                                  "index": [repr(x) for x in fr["d"].index], "detail": d}, {"oracle": "unchanged", "entry": "eval", "ops": ["convert_records"]})
        res_snap = snap(res)
        r2 = ops.eval(fr)
        dd = results_differ(res_snap, r2)
        if dd:
            chk.impl_violation("convert_records pipeline is not repeatable: " + dd, {"kind": "impl-violation", "pipeline": str(ops), "frame": fr["d"].to_dict(orient="list"), "detail": dd},
                               {"oracle": "repeat", "entry": "eval", "ops": ["convert_records"]})
        for w in set(tr.writes):
            nwrites[(w[0], w[1])] = nwrites.get((w[0], w[1]), 0) + 1
        terms.append(term)
        meta.append({"pipeline": str(ops), "frame": fr["d"].to_dict(orient="list"), "observed_writes": sorted(set(map(str, tr.writes)))})
    t_run = time.time() - t0 - t_prove
    chk.cov["timing_s"] = {"prove": round(t_prove, 1), "oracle_and_traces": round(t_run, 1)}
    chk.cov["oracle"] = {"what": "deep snapshot of caller frames before/after every entry point; second evaluation equal", "cases": len(cases)}
    chk.cov["observed_in_place_operations"] = {f"{k[0]}:{k[1]}": v for k, v in sorted(nwrites.items(), key=repr)}
    if os.path.exists(os.path.join(lib.COQ, "theories/Model/StoreCases.vo")):
        pre = ("From Coq Require Import List Bool Arith String.\nImport ListNotations.\nOpen Scope string_scope.\n"
               "From DA Require Import Base.Cases Model.Store Model.StoreCases.\nOpen Scope list_scope.\n")
        failing, errors, nchecked = lib.run_case_files("C19", pre, terms, "check_cases", per_file=60 if chk.tier == "quick" else 300, timeout=1500)
        chk.cov["correspondence"] = {"what": "per node: step kind, returned object new/same-as-source/caller, rows, columns, default index; set of in-place operations per step kind "
                                             "(both directions); instrumented ops.eval vs Model/Store.v", "cases": len(terms), "checked_in_coq": nchecked,
                                     "disagreements": len(failing), "errors": errors[:2]}
        chk.cov["traces_validated_against_impl"] = nchecked
        if errors:
            chk.corr_break("correspondence case files failed to compile", errors[0])
        for k in failing[:3]:
            chk.corr_break("Model/Store.v disagrees with the instrumented evaluation (objects created / written in place)", dict(meta[k], coq_case=terms[k][:3000]))
        if failing or errors:
            search_after_break(chk, [meta[k] for k in failing[:10]])
    else:
        chk.corr_break("Model/StoreCases.vo not built", "")
        search_after_break(chk, [])


def search_after_break(chk, metas):
    """a proof / correspondence broke: look for a concrete failing input of the property itself (disagreeing cases first, then a larger random search)"""
    if any(v[2] for v in chk.violations):
        return
    for m in metas:
        if "script" in m and "decor" in m:
            v = oracle(m["script"], m["tables"], m["decor"], bool(m.get("same_frame_twice")))
            if v is not None:
                report(chk, v, m["script"], m["tables"], m["decor"], bool(m.get("same_frame_twice")))
                return
    import random
    rng = random.Random(chk.seed + 77)
    for i in range(600 if chk.tier == "quick" else 4000):
        s, tables, decor, same = gen_case(rng, i)
        try:
            v = oracle(s, tables, decor, same, None, polars=False)
        except Exception:
            continue
        if v is not None:
            report(chk, v, s, tables, decor, same, polars=False)
            return


def replay(path):
    r = json.load(open(path))
    if "script" in r and "decor" in r:
        v = oracle(r["script"], r["tables"], r["decor"], bool(r.get("same_frame_twice")))
        print("pipeline:", r.get("pipeline", ""))
        print("oracle:", None if v is None else v.what)
        return 0 if v is None else 1
    print(json.dumps(r, indent=1, default=str)[:3000])
    return 1
