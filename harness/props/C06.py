"""C06 -- builder simplifications never change what a pipeline means.
proof: Props/C06.v over Gen/G_MergeOps.v (try_to_merge_ops regenerated each run)
tie:   translator + correspondence of try_to_merge_ops (real function vs generated Gallina on random dict pairs)
       + tree correspondence of the builders: the REAL tree returned for prefix + step (public API) vs Model/Simplify.build_step
         (order_rows skipping with the forwarded arguments, select_columns collapsing, extend merging, "nothing to do" exits)
oracle: chained pipeline vs. step-by-step materialisation on Pandas; accept/reject agreement of a simplified prefix
        with an unsimplified table description of the same columns"""
import json, os, warnings
import lib
from lib import clist, cstr, cz

warnings.filterwarnings("ignore")
N = {"quick": (600, 250, 300), "thorough": (12000, 4000, 5000)}     # merge cases, chain scripts, accept/reject probes
NG = {"quick": 600, "thorough": 9000}                                 # guard cases (two chained extends)
NB = {"quick": 500, "thorough": 8000}                                 # builder tree cases (prefix in a simplifiable form + one step)


def cpair_list(d, ids):
    return clist(["(%s, (%s, %s))" % (cstr(k), cz(ids[id(v)]), clist([cstr(c) for c in sorted(cols_of_term(v))])) for k, v in d.items()])


def cols_of_term(t):
    s = set()
    t.get_column_names(s)
    return s


def gen_ops_pair(rng):
    import data_algebra.expr_rep as er
    pool = ["a", "b", "c", "x", "y", "z"]

    def term():
        r = rng.random()
        if r < 0.2:
            return er.Value(rng.randint(0, 5))
        t = er.ColumnReference(rng.choice(pool))
        for _ in range(rng.randint(0, 2)):
            t = t + (er.ColumnReference(rng.choice(pool)) if rng.random() < 0.7 else er.Value(1))
        return t

    def ops():
        ks = rng.sample(pool, rng.randint(1, 3))
        return {k: term() for k in ks}
    return ops(), ops()


def merge_correspondence(chk, n):
    from data_algebra.data_ops_utils import try_to_merge_ops
    terms, meta = [], []
    for i in range(n):
        o1, o2 = gen_ops_pair(chk.rng)
        ids = {}
        for d in (o1, o2):
            for v in d.values():
                ids[id(v)] = len(ids)
        try:
            m = try_to_merge_ops(o1, o2)
        except Exception as e:
            chk.corr_break("try_to_merge_ops raised", {"o1": str(o1), "o2": str(o2), "error": repr(e)})
            continue
        obs = "None" if m is None else "(Some %s)" % clist(["(%s, %s)" % (cstr(k), cz(ids[id(v)])) for k, v in m.items()])
        terms.append("(%s, %s, %s)" % (cpair_list(o1, ids), cpair_list(o2, ids), obs))
        desc = {"ops1": {k: str(v) for k, v in o1.items()}, "ops2": {k: str(v) for k, v in o2.items()}, "merged": None if m is None else {k: str(v) for k, v in m.items()}}
        meta.append(desc)
        chk.count(("merge", json.dumps(desc, sort_keys=True)), nontrivial=True)
        chk.dist("merge:" + ("merged" if m is not None else "refused"))
        if i < 2:
            chk.sample(desc)
    pre = "From Coq Require Import List ZArith Bool String.\nImport ListNotations.\nOpen Scope string_scope.\nFrom DA Require Import Base.PyRT Base.Cases Model.MergeCases.\nOpen Scope list_scope.\n"
    failing, errors, nchecked = lib.run_case_files("C06", pre, terms, "check_cases", per_file=300)
    chk.cov["correspondence"] = {"what": "try_to_merge_ops real vs generated", "cases": len(terms), "checked_in_coq": nchecked, "disagreements": len(failing), "errors": errors[:2]}
    if errors:
        chk.corr_break("correspondence case files failed to compile", errors[0])
    for i in failing[:3]:
        chk.corr_break("generated try_to_merge_ops disagrees with the implementation", meta[i])


def c_wargs(one, part, order, rev):
    return "(mkwargs %s %s %s %s)" % (lib.cbool(one), clist([cstr(c) for c in part]), clist([cstr(c) for c in order]), clist([cstr(c) for c in rev]))


def c_wnode(n):
    return "(mkwnode %s %s %s %s)" % (lib.cbool(bool(n.windowed_situation)), clist([cstr(c) for c in n.partition_by]),
                                      clist([cstr(c) for c in n.order_by]), clist([cstr(c) for c in n.reverse]))


def guard_correspondence(chk, n):
    """two chained extend calls on the real builder: Model/MergeGuard.v must predict the window bookkeeping of the
    nodes and whether extend_parsed_ merged the calls into one node"""
    from data_algebra.data_ops import TableDescription
    from data_algebra.view_representations import ExtendNode
    from data_algebra.data_ops_utils import try_to_merge_ops
    from data_algebra.expr_rep import implies_windowed
    from data_algebra.expr_parse import parse_assignments_in_context
    rng = chk.rng
    cols = ["a", "b", "c", "g", "h"]
    exprs = ["{v}.sum()", "{v}.max()", "{v}.mean()", "{v}.cumsum()", "{v}.shift()", "_row_number()", "_size()", "_count()",
             "{v} + 1", "{v} * 2", "5", "{v}", "(-{v}) + {v}"]
    parts = [None, None, 1, 1, ["g"], ["g"], ["h"], ["g", "h"]]
    orders = [None, None, None, ["c"], ["c"], ["c", "b"], ["b", "c"], ["c", "b", "a"]]

    def draw_ops(avail, fresh):
        ops = {}
        for _ in range(rng.randint(1, 2)):
            k = rng.choice(fresh) if rng.random() < 0.8 else rng.choice(["a", "b"])
            ops[k] = rng.choice(exprs).format(v=rng.choice(avail))
        return ops

    def draw_window():
        p, o = rng.choice(parts), rng.choice(orders)
        r = [c for c in (o or []) if rng.random() < 0.3]
        return p, o, r

    def wargs(p, o, r):
        return (p == 1, [] if (p is None or p == 1) else list(p), list(o or []), list(r or []))
    terms, meta = [], []
    tries = 0
    while len(terms) < n and tries < n * 40:
        tries += 1
        t = TableDescription(table_name="d", column_names=cols)
        ops1, (p1, o1, r1) = draw_ops(["a", "b"], ["x", "y", "z"]), draw_window()
        rr = rng.random()
        if rr < 0.2:
            # NEAR MISSES: the same columns in another sequence (order_by is a sequence: the windows differ), the same partition
            # set in another sequence, a reversal that differs in one column
            p2 = list(reversed(p1)) if isinstance(p1, list) else p1
            o2 = (list(reversed(o1)) if rng.random() < 0.7 else o1[1:] + o1[:1]) if (o1 and len(o1) >= 2) else o1
            r2 = list(r1) if rng.random() < 0.6 else ([c for c in (o2 or []) if c not in r1][:1] + list(r1))
        elif rr < 0.65:
            p2, o2, r2 = (p1 if rng.random() < 0.7 else rng.choice(parts)), o1, r1     # mostly compatible windows
        else:
            p2, o2, r2 = draw_window()
        ops2 = draw_ops(["a", "b"] + ([k for k in ops1] if rng.random() < 0.15 else []), ["u", "v", "w", "x"])
        desc = {"ops1": ops1, "window1": [p1, o1, r1], "ops2": ops2, "window2": [p2, o2, r2]}
        try:
            n1 = t.extend(ops1, partition_by=p1, order_by=o1, reverse=r1 or None)
            parsed2 = parse_assignments_in_context(ops=ops2, view=n1)
            top = n1.extend(ops2, partition_by=p2, order_by=o2, reverse=r2 or None)
        except Exception as e:
            chk.dist("guard:rejected:" + type(e).__name__)
            continue
        if not isinstance(n1, ExtendNode) or not isinstance(top, ExtendNode):
            continue
        merged = not isinstance(top.sources[0], ExtendNode)
        mergeable = try_to_merge_ops(n1.ops, parsed2) is not None
        desc.update({"merged": merged, "mergeable": mergeable, "node1": c_wnode(n1), "top": c_wnode(top)})
        terms.append("(mkg %s %s %s %s %s %s %s %s %s)" % (
            lib.cbool(implies_windowed(n1.ops)), c_wargs(*wargs(p1, o1, r1)), c_wnode(n1),
            lib.cbool(implies_windowed(parsed2)), c_wargs(*wargs(p2, o2, r2)),
            lib.cbool(mergeable), lib.cbool(merged), lib.cbool(implies_windowed(top.ops)), c_wnode(top)))
        meta.append(desc)
        chk.count(("guard", json.dumps(desc, sort_keys=True)), nontrivial=True)
        chk.dist("guard:" + ("merged" if merged else ("kept apart, mergeable ops" if mergeable else "kept apart")))
        if len(terms) <= 2:
            chk.sample(desc)
    pre = "From Coq Require Import List Bool String.\nImport ListNotations.\nOpen Scope string_scope.\nFrom DA Require Import Base.Cases Model.MergeGuard Model.MergeGuardCases.\nOpen Scope list_scope.\n"
    failing, errors, nchecked = lib.run_case_files("C06g", pre, terms, "check_gcases", per_file=300)
    chk.cov["correspondence_guard"] = {"what": "extend_parsed_ window test + ExtendNode window bookkeeping, real builder vs Model/MergeGuard.v",
                                       "cases": len(terms), "checked_in_coq": nchecked, "disagreements": len(failing), "errors": errors[:2]}
    if errors:
        chk.corr_break("guard correspondence case files failed to compile", errors[0])
    for i in failing[:3]:
        chk.corr_break("Model/MergeGuard.v disagrees with extend_parsed_ / ExtendNode on two chained extends", meta[i])


def targeted_merge_script(rng, g, colty, order):
    """two or three consecutive extends biased towards overlapping / dependent assignments"""
    import pipes
    s, ct, od = {"op": "table", "name": "d1"}, dict(colty), list(order)
    nums = pipes.cols_of(ct, "num")
    if len(nums) < 2:
        return None
    for _ in range(rng.randint(2, 3)):
        ops = {}
        for _ in range(rng.randint(1, 3)):
            k = rng.choice(nums + ["x", "y", "z"])
            src = rng.choice(pipes.cols_of(ct, "num"))
            if src in ops or k in ops:
                continue
            # may not use a column produced in the same step (other than itself)
            e = rng.choice([f"{src} + 1", f"{src} * 2", "5", f"{src} - {rng.choice(nums)}"])
            import re
            used = set(re.findall(r"[A-Za-z_]\w*", e))
            if any((u in ops and u != k) for u in used) or any(k in set(re.findall(r"[A-Za-z_]\w*", e2)) for kk, e2 in ops.items() if kk != k):
                continue
            ops[k] = e
        if not ops:
            continue
        s = {"op": "extend", "src": s, "ops": ops}
        for k in ops:
            if k not in ct:
                od.append(k)
            ct[k] = "float"
    return s


def targeted_window_chain(rng, tables):
    """two ADJACENT windowed extends over d1 whose windows are equal or near misses (same order columns in another sequence,
    different reversal, different partition) with order-sensitive functions: merged or not, the chain must equal the steps"""
    import pipes
    t = tables[0]
    cols = [c for c, _ in t["spec"]]
    nums = [c for c, ty in t["spec"] if ty in ("int", "float") and c != "uid"]
    if len(cols) < 3 or not nums:
        return None
    part = rng.choice([[], [rng.choice(cols[:-1])]])
    rest = [c for c in cols if c not in part and c != "uid"]
    if not rest:
        return None
    o1 = rng.sample(rest, min(len(rest), rng.choice([1, 2]))) + ["uid"]       # total: uid is unique
    kind = rng.choice(["same", "permuted", "reversal", "partition"])
    o2, r1 = list(o1), [c for c in o1 if rng.random() < 0.3]
    r2, p2 = list(r1), list(part)
    if kind == "permuted":
        o2 = list(reversed(o1))
    elif kind == "reversal":
        r2 = [c for c in o1 if c not in r1][:1] + r1
    elif kind == "partition":
        p2 = [] if part else [rest[0]]
    f1, f2 = rng.choice(["cumsum", "shift", "_row_number"]), rng.choice(["cumsum", "cummax", "_row_number"])
    v = rng.choice(nums)
    e = lambda f: "_row_number()" if f == "_row_number" else f"{v}.{f}()"
    s = {"op": "extend", "src": {"op": "table", "name": "d1"}, "ops": {"w1": e(f1)}, "partition_by": part, "order_by": o1, "reverse": r1}
    s = {"op": "extend", "src": s, "ops": {"w2": e(f2)}, "partition_by": p2, "order_by": o2, "reverse": r2}
    return s


ORDER_READING_FNS = {"first", "last", "ffill", "bfill", "_count", "cumcount", "_row_number", "row_number", "cumsum", "cummax", "cummin", "cumprod",
                     "shift", "lag", "lead", "any_value", "nth", "head", "tail"}


def script_shape(s):
    """narrow description of the one shape of the known finding C06-unordered-window-after-order_rows: an extend WITHOUT order_by that
    applies a window function reading the order of its partition, directly on an order_rows without limit (which the builder drops)"""
    import re
    while s["op"] != "table":
        if s["op"] == "extend" and not (s.get("order_by") or []):
            src = s["src"]
            if src["op"] == "order_rows" and src.get("limit") is None and src.get("columns"):
                fns = set()
                for e in s["ops"].values():
                    fns |= set(re.findall(r"\.?([A-Za-z_]\w*)\(", str(e)))
                if fns & ORDER_READING_FNS:
                    return "unordered-order-reading-window-fn-directly-after-order_rows-without-limit"
        s = s["src"]
    return "other"


def check_script(chk, s, tables, sample=False):
    """one chained script: the builder must accept it exactly when the step-by-step build does, and both must evaluate alike"""
    import pipes
    tmap = {t["name"]: t for t in tables}
    frames = {t["name"]: pipes.table_frame(t) for t in tables}
    try:
        ops = pipes.build(s, tmap)
        built = True
    except Exception as e:
        built, berr = False, e
    try:
        r2 = pipes.eval_stepwise(s, tmap, frames)
        stepped = True
    except pipes.StepBuildError as e:
        stepped, serr = False, e
    except Exception as e:
        chk.dist("stepwise_eval_error:" + type(e).__name__)      # executor error, not a builder rejection: outside C06
        return
    kinds = pipes.script_ops(s)
    chk.count(("chain", json.dumps(pipes.to_json(s), sort_keys=True), json.dumps([t["rows"] for t in tables], default=str)), nontrivial=len(kinds) >= 2)
    for k in kinds:
        chk.dist("step:" + k)
    if built != stepped:
        chk.impl_violation("chained build and step-by-step build disagree on accepting the steps",
                           {"kind": "impl-violation", "script": pipes.to_json(s), "tables": tables, "chain_built": built, "stepwise_built": stepped,
                            "error": repr(berr if not built else serr)}, {"oracle": "accept", "ops": sorted(set(kinds))})
        return
    if not built:
        return
    try:
        r1 = pipes.eval_pandas(ops, frames)
    except Exception as e:
        chk.dist("chain_eval_error:" + type(e).__name__)
        return
    d = pipes.frames_equiv(r1, r2, check_row_order=False)
    if sample:
        chk.sample({"script": pipes.to_json(s), "result_rows": len(r1)})
    if d is not None:
        chk.impl_violation("chained pipeline differs from step-by-step application: " + d,
                           {"kind": "impl-violation", "script": pipes.to_json(s), "pipeline": str(ops), "tables": tables, "chain": pipes.frame_to_json(r1),
                            "stepwise": pipes.frame_to_json(r2), "diff": d}, {"oracle": "chain", "ops": sorted(set(kinds)), "shape": script_shape(s)})


def corpus_scripts(chk):
    """minimised scripts of earlier failures (corpus/C06/*.json) run first on every run"""
    import glob
    n = 0
    for f in sorted(glob.glob(os.path.join(lib.ROOT, "corpus", "C06", "*.json"))):
        r = json.load(open(f))
        check_script(chk, r["script"], r["tables"])
        n += 1
    chk.cov["corpus_cases"] = n


def chain_vs_steps(chk, n):
    import pipes
    rng = chk.rng
    for i in range(n):
        tables = [pipes.gen_table(rng, "d1", unique_col="uid"), pipes.gen_table(rng, "d2", unique_col="uid")]
        g = pipes.Gen(rng, tables, features=["extend", "extend", "wextend", "project", "select_rows", "select_columns", "select_columns", "drop_columns",
                                              "rename_columns", "map_columns", "order_rows", "order_rows", "natural_join", "concat_rows"])
        if i % 3 == 0:
            s = targeted_merge_script(rng, g, dict(tables[0]["spec"]), [c for c, _ in tables[0]["spec"]])
            if s is None:
                continue
        elif i % 7 == 1:
            tables = [pipes.gen_table(rng, "d1", ncols=rng.randint(3, 4), types=("int", "float"), null_rate=0.0, nrows=rng.choice([4, 5, 6, 8]), unique_col="uid"), tables[1]]
            s = targeted_window_chain(rng, tables)
            if s is None:
                continue
        else:
            s, _, _ = g.pipeline(rng.randint(2, 6))
        check_script(chk, s, tables, sample=i < 3)


def accept_reject(chk, n):
    """a (possibly simplified) prefix must accept/reject a next step exactly like a bare table description with the prefix's columns"""
    import pipes
    from data_algebra.data_ops import TableDescription
    rng = chk.rng
    for i in range(n):
        tables = [pipes.gen_table(rng, "d1", nrows=0), pipes.gen_table(rng, "d2", nrows=0)]
        tmap = {t["name"]: t for t in tables}
        g = pipes.Gen(rng, tables, features=["extend", "select_columns", "drop_columns", "order_rows", "order_rows", "rename_columns", "select_rows"])
        s, colty, order = g.pipeline(rng.randint(1, 3))
        form = rng.random()
        if form < 0.35:       # prefix ends in a step the builder may elide or collapse
            cs = rng.sample(order, rng.randint(1, min(2, len(order))))
            s = {"op": "order_rows", "src": s, "columns": cs, "reverse": [], "limit": None}
        elif form < 0.5 and len(order) > 1:
            keep = rng.sample(order, rng.randint(1, len(order) - 1))
            s = {"op": "select_columns", "src": s, "columns": keep}
            colty, order = {c: colty[c] for c in keep}, keep
        elif form < 0.6 and len(order) > 1:
            drop = rng.sample(order, rng.randint(1, len(order) - 1))
            s = {"op": "drop_columns", "src": s, "columns": drop}
            order = [c for c in order if c not in drop]
            colty = {c: colty[c] for c in order}
        try:
            prefix = pipes.build(s, tmap)
        except Exception:
            continue
        bare = TableDescription(table_name="cur", column_names=list(prefix.column_names))
        # a next step, valid or not: draw it for a column universe that includes removed / unknown columns
        universe = dict(colty)
        for c, ty in tables[0]["spec"] + [("nope", "int")]:
            if rng.random() < 0.5:
                universe.setdefault(c, ty)
        g2 = pipes.Gen(rng, tables, features=["extend", "wextend", "project", "select_rows", "select_columns", "drop_columns", "rename_columns",
                                               "map_columns", "order_rows", "natural_join"])
        st = g2.step({"op": "table", "name": "cur"}, universe, list(universe))
        if st is None:
            continue
        step = st[0]
        if step["op"] == "natural_join":
            step["check"] = rng.random() < 0.7
            if rng.random() < 0.5:          # right side = a raw table sharing several columns, keys a strict subset
                other = rng.choice(["d1", "d2"])
                common = [c for c in prefix.column_names if c in dict(tmap[other]["spec"])]
                if common:
                    step["b"] = {"op": "table", "name": other}
                    step["on"] = rng.sample(common, rng.randint(1, len(common)))
        res = []
        for base in (prefix, bare):
            try:
                pipes.apply_step(base, step, lambda b: pipes.build(b, tmap))
                res.append("accept")
            except Exception as e:
                res.append("reject")
        chk.count(("accept", str(prefix), json.dumps(pipes.to_json(step), sort_keys=True)), nontrivial=True)
        chk.dist("probe:" + step["op"] + ":" + res[1])
        if res[0] != res[1]:
            chk.impl_violation("a simplified prefix accepts/rejects a step differently from the unsimplified sequence",
                               {"kind": "impl-violation", "prefix": str(prefix), "prefix_script": pipes.to_json(s), "tables": tables,
                                "step": {k: v for k, v in pipes.to_json(step).items() if k != "src"},
                                "prefix_result": res[0], "bare_table_result": res[1]}, {"oracle": "accept", "ops": [step["op"]]})


# ---------------------------------------------------------------------------------- builder tree correspondence (Model/Simplify.v)

def cexpr_any(t):
    """expression term -> Coq `expr` with no restriction on operator names (trees are compared, not evaluated)"""
    import data_algebra.expr_rep as er
    import semconv
    if isinstance(t, er.ColumnReference):
        return "(ECol %s)" % cstr(t.column_name)
    if isinstance(t, er.Value):
        return "(EConst %s)" % semconv.cval(t.value)
    if isinstance(t, er.Expression):
        args = [cexpr_any(a) for a in t.args]
        if t.op in ("+", "*") and len(args) > 2:          # same folding as semconv.cexpr
            acc = args[0]
            for a in args[1:]:
                acc = "(EOp %s %s)" % (cstr(t.op), clist([acc, a]))
            return acc
        return "(EOp %s %s)" % (cstr(t.op), clist(args))
    raise semconv.Unsupported("term " + type(t).__name__)


def sl(xs):
    return clist([cstr(x) for x in xs])


def cops_any(d):
    return clist(["(%s, %s)" % (cstr(k), cexpr_any(v)) for k, v in d.items()])


JT = {"INNER": "JInner", "LEFT": "JLeft", "RIGHT": "JRight", "FULL": "JFull", "OUTER": "JFull"}


def cop_any(node):
    """real operator tree -> Coq `op` (as semconv.cop, any operator name)"""
    import semconv
    name = node.node_name
    if name == "TableDescription":
        return "(OTable %s %s)" % (cstr(node.table_name), sl(node.column_names))
    src = [cop_any(x) for x in node.sources]
    if name == "ExtendNode":
        part = node.partition_by if isinstance(node.partition_by, list) else []
        return "(OExtend %s %s %s (mkwin %s %s %s))" % (src[0], cops_any(node.ops), lib.cbool(bool(node.windowed_situation)), sl(part), sl(node.order_by), sl(node.reverse))
    if name == "ProjectNode":
        return "(OProject %s %s %s)" % (src[0], cops_any(node.ops), sl(node.group_by))
    if name == "SelectRowsNode":
        return "(OSelectRows %s %s)" % (src[0], cexpr_any(node.expr))
    if name == "SelectColumnsNode":
        return "(OSelectCols %s %s)" % (src[0], sl(node.column_selection))
    if name == "DropColumnsNode":
        return "(ODropCols %s %s)" % (src[0], sl(node.column_deletions))
    if name == "RenameColumnsNode":
        return "(ORename %s %s)" % (src[0], clist(["(%s, %s)" % (cstr(n), cstr(o)) for n, o in node.column_remapping.items()]))
    if name == "MapColumnsNode":
        return "(OMapCols %s %s %s)" % (src[0], clist(["(%s, %s)" % (cstr(n), cstr(o)) for o, n in node.column_remapping.items()]), sl(node.column_deletions or []))
    if name == "OrderRowsNode":
        lim = "None" if node.limit is None else "(Some %d%%nat)" % node.limit
        return "(OOrder %s %s %s %s)" % (src[0], sl(node.order_columns), sl(node.reverse), lim)
    if name == "NaturalJoinNode":
        if node.jointype not in JT:
            raise semconv.Unsupported("join type " + node.jointype)
        return "(OJoin %s %s %s %s %s)" % (src[0], src[1], sl(node.on_a), sl(node.on_b), JT[node.jointype])
    if name == "ConcatRowsNode":
        idc = "None" if node.id_column is None else "(Some %s)" % cstr(node.id_column)
        return "(OConcat %s %s %s %s %s)" % (src[0], src[1], idc, cstr(node.a_name), cstr(node.b_name))
    raise semconv.Unsupported("node " + name)


def real_apply(prefix, st, build_sub):
    """the step through the public API (pipes.apply_step; select_columns may hand the names over as a tuple)"""
    import pipes
    if st["op"] == "select_columns" and st.get("as_tuple"):
        return prefix.select_columns(tuple(st["columns"]))
    return pipes.apply_step(prefix, st, build_sub)


def cstep(st, prefix, build_sub):
    """the builder call as a Coq `step` of Model/Simplify.v: the arguments as the public method normalises them"""
    from data_algebra.expr_parse import parse_assignments_in_context
    op = st["op"]
    if op == "extend":
        parsed = parse_assignments_in_context(ops=st["ops"], view=prefix)
        pb = st.get("partition_by") or None
        one = (not isinstance(pb, list)) and pb == 1
        part = list(pb) if isinstance(pb, list) else []
        return "(SExtend %s %s %s %s %s)" % (cops_any(parsed), lib.cbool(one), sl(part), sl(st.get("order_by") or []), sl(st.get("reverse") or []))
    if op == "project":
        parsed = parse_assignments_in_context(ops=st["ops"], view=prefix)
        return "(SProject %s %s)" % (cops_any(parsed), sl(st.get("group_by") or []))
    if op == "select_rows":
        parsed = parse_assignments_in_context(ops={"expr": st["expr"]}, view=prefix)
        return "(SSelectRows %s)" % cexpr_any(parsed["expr"])
    if op == "select_columns":
        return "(SSelectCols %s %s)" % (sl(st["columns"]), lib.cbool(bool(st.get("as_tuple"))))
    if op == "drop_columns":
        return "(SDropCols %s)" % sl(st["columns"])
    if op == "rename_columns":
        return "(SRename %s)" % clist(["(%s, %s)" % (cstr(n), cstr(o)) for n, o in st["map"].items()])
    if op == "map_columns":
        return "(SMapCols %s)" % clist(["(%s, %s)" % (cstr(o), "None" if n is None else "(Some %s)" % cstr(n)) for o, n in st["map"].items()])
    if op == "order_rows":
        lim = "None" if st.get("limit") is None else "(Some %d%%nat)" % st["limit"]
        return "(SOrder %s %s %s)" % (sl(st["columns"]), sl(st.get("reverse") or []), lim)
    if op == "natural_join":
        on = [tuple(x) if isinstance(x, (list, tuple)) else (x, x) for x in st["on"]]
        return "(SJoin %s %s %s %s)" % (cop_any(build_sub(st["b"])), sl([a for a, _ in on]), sl([b for _, b in on]), JT[st["jointype"]])
    if op == "concat_rows":
        idc = "None" if st["id_column"] is None else "(Some %s)" % cstr(st["id_column"])
        return "(SConcat %s %s %s %s)" % (cop_any(build_sub(st["b"])), idc, cstr(st["a_name"]), cstr(st["b_name"]))
    raise ValueError(op)


# prefix forms, bottom node first: order = order_rows without limit, limit = order_rows with a limit
FORMS = ["", "order", "order", "order", "limit", "select", "drop", "extend", "wextend", "extend/order", "extend/order", "wextend/order", "wextend/order",
         "select/order", "drop/order", "limit/order", "order/limit", "select/drop", "drop/select", "extend/extend", "project/order", "select_rows/order"]
STEP_KINDS = ["extend", "extend", "wextend", "wextend", "project", "select_rows", "select_columns", "select_columns", "drop_columns", "rename_columns",
              "map_columns", "order_rows", "order_rows", "natural_join", "concat_rows", "noop"]


def force_step(g, kind, s, colty, order, tries=8):
    keep = g.features
    g.features = {kind}
    try:
        for _ in range(tries):
            r = g.step(s, colty, order)
            if r is not None:
                return r
        return None
    finally:
        g.features = keep


def under_orders(s):
    """the step the builders reach after skipping order_rows steps without limit"""
    while s["op"] == "order_rows" and s.get("limit") is None and s["columns"]:
        s = s["src"]
    return s


def gen_builder_case(rng, tables):
    """(prefix script, step dict with "src" = prefix script, form) -- every forwarded argument takes non-default values"""
    import pipes
    g = pipes.Gen(rng, tables, features=["extend", "extend", "select_rows", "select_rows", "select_columns", "select_columns", "drop_columns", "drop_columns",
                                         "rename_columns", "rename_columns", "natural_join", "concat_rows"])
    s, colty, order = g.pipeline(rng.randint(0, 2))
    form = rng.choice(FORMS)
    for f in [x for x in form.split("/") if x]:
        kind = {"order": "order_rows", "limit": "order_rows", "select": "select_columns", "drop": "drop_columns"}.get(f, f)
        r = force_step(g, kind, s, colty, order)
        if r is None:
            return None
        s, colty, order = r
        if f == "order":
            s["limit"] = None
        elif f == "limit" and s["limit"] is None:
            if not g.totalise(s["src"], order, s["columns"]):
                return None
            s["limit"] = rng.choice([1, 2, 3])
    kind = rng.choice(STEP_KINDS)
    if kind == "noop":
        st = rng.choice([{"op": "extend", "ops": {}}, {"op": "drop_columns", "columns": []}, {"op": "rename_columns", "map": {}},
                         {"op": "map_columns", "map": {}}, {"op": "order_rows", "columns": [], "reverse": [], "limit": None}])
        st = dict(st, src=s)
        return s, st, form
    r = force_step(g, kind, s, colty, order)
    if r is None:
        return None
    st = r[0]
    top = under_orders(s)
    nums = [c for c in pipes.cols_of(colty, "num")]
    if st["op"] == "extend" and top["op"] == "extend" and nums and rng.random() < 0.7:
        # towards the merge paths: the window of the extend below (equal, or a near miss), keys that overlap it, reads of what it assigned
        pb, ob, rv = top.get("partition_by") or [], list(top.get("order_by") or []), list(top.get("reverse") or [])
        near = rng.random()
        if near < 0.15 and len(ob) >= 2:
            ob = list(reversed(ob))
        elif near < 0.25 and ob:
            rv = [c for c in ob if c not in rv][:1] + rv
        elif near < 0.3:
            pb = [] if pb else 1
        free = [c for c in nums if c not in (pb if isinstance(pb, list) else []) and c not in ob and c != "uid"] or nums
        ops = {}
        for _ in range(rng.randint(1, 2)):
            k = rng.choice(list(top["ops"])) if rng.random() < 0.35 else g.newcol({**colty, **ops})
            if k in (pb if isinstance(pb, list) else []) or k in ob:
                continue
            v = rng.choice(list(top["ops"])) if (rng.random() < 0.2 and all(x in colty for x in top["ops"])) else rng.choice(free)
            if ob:
                e = rng.choice([f"{v}.cumsum()", f"{v}.shift()", "_row_number()", f"{v}.cummax()"])
            elif pb or pipes.script_ops(top)[-1] == "wextend" or any(("." in x and "(" in x and not x.startswith("(")) for x in top["ops"].values()):
                e = rng.choice([f"{v}.sum()", f"{v}.max()", "_size()", f"{v}.mean()"])
            else:
                e = rng.choice([f"{v} + 1", f"{v} * 2", "5", f"({v}).abs()", pipes.gen_num_expr(rng, colty, 1)])
            ops[k] = e
        if ops:
            st = {"op": "extend", "src": s, "ops": ops, "partition_by": pb, "order_by": ob, "reverse": rv}
    elif st["op"] == "select_columns":
        if rng.random() < 0.2:
            st["columns"] = list(order)
        if rng.random() < 0.25:
            st["as_tuple"] = True
    elif st["op"] == "map_columns" and rng.random() < 0.4:
        spare = [c for c in order if c not in st["map"] and c not in st["map"].values()]
        if len(spare) >= 2:
            st["map"][rng.choice(spare)] = None
    elif st["op"] == "concat_rows":
        st["a_name"], st["b_name"] = rng.choice([("a", "b"), ("left", "right"), ("x1", "a")])
    elif st["op"] == "natural_join":
        if rng.random() < 0.3:
            st["check"] = True
        if rng.random() < 0.3:
            st["on"] = [[c, c] for c in st["on"]]
        if rng.random() < 0.3:
            k = st["on"][0][0] if isinstance(st["on"][0], list) else st["on"][0]
            st["b"] = {"op": "order_rows", "src": st["b"], "columns": [k], "reverse": [], "limit": None}
    return s, st, form


def builder_correspondence(chk, n, name="C06b"):
    """prefix (forced into every form the builders look at) + one step through the public API: the tree the REAL builder returns must be
    Model/Simplify.build_step of the converted prefix and step, compared structurally inside Coq; a disagreement is handed to the
    chain-vs-steps / accept oracle on the same script"""
    import pipes, semconv
    import data_algebra.expr_rep as er
    rng = chk.rng
    terms, meta = [], []
    tries = 0
    while len(terms) < n and tries < n * 6:
        tries += 1
        tables = [pipes.gen_table(rng, "d1", nrows=rng.choice([3, 4, 5, 6]), unique_col="uid"), pipes.gen_table(rng, "d2", nrows=rng.choice([2, 3, 4]), unique_col="uid")]
        tmap = {t["name"]: t for t in tables}
        r = gen_builder_case(rng, tables)
        if r is None:
            continue
        s, st, form = r
        memo = {}
        try:
            prefix = pipes.build(s, tmap, memo)
        except Exception:
            chk.dist("builder:prefix rejected")
            continue
        sub = lambda b: pipes.build(b, tmap, memo)
        try:
            top = real_apply(prefix, st, sub)
        except Exception as e:
            chk.dist("builder:step rejected:" + st["op"])
            continue
        try:
            term = "(mkb IW %s %s %s %s)" % (cop_any(prefix), sl(prefix.column_names), cstep(st, prefix, sub), cop_any(top))
        except semconv.Unsupported as e:
            chk.dist("builder:unsupported:" + str(e)[:30])
            continue
        terms.append(term)
        shape = type(prefix).__name__ + ("(limit)" if getattr(prefix, "limit", None) is not None else "") + " + " + st["op"]
        simplified = "kept" if (len(top.sources) > 0 and top.sources[0] is prefix) else ("self" if top is prefix else "simplified")
        meta.append({"form": form, "prefix": str(prefix), "step": {k: v for k, v in pipes.to_json(st).items() if k != "src"}, "result": str(top),
                     "script": st, "tables": tables})
        chk.count(("builder", str(prefix), json.dumps({k: v for k, v in pipes.to_json(st).items() if k != "src"}, sort_keys=True, default=str)), nontrivial=True)
        chk.dist("builder:" + shape + ":" + simplified)
        if len(terms) <= 2:
            chk.sample({k: v for k, v in meta[-1].items() if k not in ("script", "tables")})
    pre = ("From Coq Require Import List Bool ZArith QArith String.\nImport ListNotations.\nOpen Scope string_scope.\n"
           "From DA Require Import Base.PyRT Base.Cases Base.Val Model.Sem Model.SemCases Model.MergeGuard Model.Simplify Model.SimplifyCases.\nOpen Scope list_scope.\n"
           "Definition IW : list string := %s.\n" % sl(sorted(er.fn_names_that_imply_windowed_situation)))
    failing, errors, nchecked = lib.run_case_files(name, pre, terms, "check_bcases", per_file=min(350, max(60, (len(terms) + 7) // 8)))
    chk.cov["correspondence_builder"] = {"what": "real builder tree for prefix + step vs Model/Simplify.build_step (structural comparison in Coq) and declared_names vs column_names",
                                         "cases": len(terms), "checked_in_coq": nchecked, "disagreements": len(failing), "errors": errors[:2]}
    if errors:
        chk.corr_break("builder correspondence case files failed to compile", errors[0])
    for i in failing[:6]:
        m = meta[i]
        before = len(chk.violations) + len(chk.known_hits)
        check_script(chk, m["script"], m["tables"])          # the oracle on the disagreeing case first
        if len(chk.violations) + len(chk.known_hits) == before:
            chk.corr_break("Model/Simplify.build_step disagrees with the tree the real builder returned",
                           {k: v for k, v in m.items() if k not in ("script",)} | {"script": pipes.to_json(m["script"])})


def run(chk):
    n1, n2, n3 = N[chk.tier]
    chk.prove(["G_MergeOps"], extra_vo=["theories/Model/MergeCases.vo", "theories/Model/MergeGuardCases.vo", "theories/Model/SimplifyCases.vo"])
    chk.cov["trusted_base"] = ["Coq 8.16.1 kernel + vm_compute", "tools/py2v.py translator (data_ops_utils.py -> Gen/G_MergeOps.v)",
                               "Model/Extend.v: reference meaning of one extend step (simultaneous assignment; column function local to the expression's columns and the window columns)",
                               "expr_rep.get_columns_used modelled as the union of the expressions' column sets (checked by the merge correspondence)",
                               "Model/Simplify.v: hand transcription of what each builder method RETURNS for a step on a prefix (order_rows skipping with the forwarded arguments, select_columns "
                               "collapsing, extend merging over the regenerated try_to_merge_ops + Model/MergeGuard.v, nothing-to-do exits); tied on every run by structural comparison, inside Coq, "
                               "with the tree the real builder returns for prefix + step through the public API",
                               "Model/Sem.v: reference semantics of every operator for every backend flavour (tied to the five backends by the execcorr runs of C01/C03/C08/C18/C27)",
                               "Model/Builder.v (C26) for C06_chain_accepts_iff: hand model of the builders' validation, tied by C26's correspondence"]
    chk.assumptions = ["extend validation guarantees an extend never assigns its own partition/order columns (theorem hypothesis)",
                       "dict keys are unique (NoDup hypothesis; Python dicts)",
                       "C06_chain_eq_steps / C06_order_rows_elimination_sound carry C18's premise for each step on its actual input (step_insensitive): an order-sensitive window function "
                       "orders every partition strictly, group keys have one representation per value, a limit is taken under a total order; without it the statement is refuted "
                       "(C06_order_rows_elimination_unordered_window_refuted; known finding C06-unordered-window-after-order_rows)",
                       "step_valid / prefix_ok: what the builder validated (C26): select_columns names known columns, a rename does not merge two columns, an extend node's keys are distinct",
                       "the result is compared as a multiset of rows up to column order (tab_sim); row for row after a total final order_rows (theorem C06_chain_eq_steps_row_for_row_under_total_final_order)"]
    chk.cov["rule"] = ("(1) random pairs of assignment dicts over 6 column names (correspondence of try_to_merge_ops); (2) random chained scripts of 2-6 steps over two "
                       "random tables (one third: 2-3 consecutive extends with overlapping/overwriting assignments) evaluated chained and step-by-step on Pandas; "
                       "(3) prefix + one valid-or-invalid next step, accepted/rejected by the simplified prefix vs a bare table of the same columns; "
                       "(4) prefix forced into one of 22 forms (ending in order_rows with/without limit, select, drop, plain/windowed extend, and two-level combinations) + one accepted step of "
                       "every kind with non-default forwarded arguments (reverse, limit, check flag, a_name/b_name, tuple argument, deletions, windows equal to or a near miss of the extend below): "
                       "real builder tree vs Model/Simplify.build_step; non-trivial = >=2 steps; distinct by content")
    if os.path.exists(os.path.join(lib.COQ, "theories/Model/MergeCases.vo")):
        merge_correspondence(chk, n1)
    else:
        chk.corr_break("Model/MergeCases.vo not built", "")
    if os.path.exists(os.path.join(lib.COQ, "theories/Model/MergeGuardCases.vo")):
        guard_correspondence(chk, NG[chk.tier])
    else:
        chk.corr_break("Model/MergeGuardCases.vo not built", "")
    corpus_scripts(chk)
    if os.path.exists(os.path.join(lib.COQ, "theories/Model/SimplifyCases.vo")):
        builder_correspondence(chk, NB[chk.tier])
    else:
        chk.corr_break("Model/SimplifyCases.vo not built", "")
    chain_vs_steps(chk, n2)
    accept_reject(chk, n3)


def replay(path):
    import pipes
    r = json.load(open(path))
    if "script" in r and "tables" in r:
        tmap = {t["name"]: t for t in r["tables"]}
        frames = {t["name"]: pipes.table_frame(t) for t in r["tables"]}
        try:
            ops, built = pipes.build(r["script"], tmap), True
        except Exception as e:
            built = False
            print("chained build rejected:", repr(e))
        try:
            b, stepped = pipes.eval_stepwise(r["script"], tmap, frames), True
        except pipes.StepBuildError as e:
            stepped = False
            print("step-by-step build rejected:", repr(e))
        if built != stepped:
            print("chained build accepted:", built, " step-by-step build accepted:", stepped)
            return 1
        if not built:
            return 0
        a = pipes.eval_pandas(ops, frames)
        print(ops); print(a); print(b)
        d = pipes.frames_equiv(a, b)
        print("diff:", d)
        return 0 if d is None else 1
    print(json.dumps(r, indent=1)[:3000])
    return 1
