"""C05 -- every catalogued method behaves as documented on every backend that claims it.

proof : Props/C05.v about Model/Scalar.v (documented meaning, from the Term.* docstrings), Model/SqlTemplates.v (SQL AST,
        three-valued evaluator, formatter templates transcribed from sql_model.py / SQLite.py / PostgreSQL.py) and
        Model/ScalarBackends.v (hand models of the numpy / pandas / polars primitives each method reaches)
tie   : EXHAUSTIVE FINITE GRID (not sampling): every catalogue row x every argument tuple of a per-type grid that lies in the
        documented domain, run through extend / project / windowed extend on Pandas, SQLite, PostgreSQL-dialect text on
        SQLite, and Polars; each observation is compared INSIDE Coq with the backend model (correspondence) and with
        spec_method (oracle); the SQL text of every one-method expression is compared with the rendered model template;
        the catalogue, the formatter key sets and the impl-map key sets are compared with the frozen Model/ScalarCatalog.v
oracle: the same grid; a supported backend whose value differs from the documented one is an implementation violation"""
import fractions, hashlib, itertools, json, math, os, re, subprocess, sys, time, warnings
import lib
from lib import clist

INF = float("inf")
PRE = ("From Coq Require Import List ZArith QArith String.\nImport ListNotations.\n"
       "From DA Require Import Base.Cases Model.Scalar Model.SqlTemplates Model.ScalarBackends Model.ScalarCatalog Model.ScalarCases.\n"
       "Local Open Scope string_scope.\n")

# ------------------------------------------------------------------------------------------------ grids
NUM_Q = [None, INF, -INF, 0.0, 1.0, -1.0, 2.5, -2.5, 3.0]
NUM_T = NUM_Q + [0.5, -0.25, 7.0, 100.75, -1000.0]
INT_Q = [None, 0.0, 1.0, 2.0, 3.0, 7.0, -1.0, -3.0]
INT_T = INT_Q + [10.0, 12.0, -8.0]
STR_G = [None, "", "a", "a'b", "abcdef"]
STR_T = STR_G + ["b", "z", 'q"r']
BOOL_G = [True, False, None]
COLTYPE = {"x": "num", "y": "num", "z": "num", "u": "num", "v": "num", "row_id": "int", "q": "int", "a": "bool", "b": "bool",
           "g": "str", "s2": "str"}
UNIT = ["x", "sinh"]          # kept small: names that are also method names never appear as columns

# extra one-method expressions beside the catalogue's own rows (more literal choices, both argument orders)
EXTRA_EXPR = ["x.maximum(y)", "x.minimum(y)", "x.fmax(y)", "x.fmin(y)", "x % y", "x.mod(y)", "x.remainder(y)", "x // y",
              "y.around(0)", "y.around(1)", "x ** 2", "x ** 1", "x ** 0.5", "x ** 0", "x ** -1", "z.coalesce(x)", "x.is_in({1, 3})", "x.is_in({2.5})",
              'g.is_in({"a", "b"})', "g.coalesce(s2)", "g == s2", "g != s2", "g < s2", "g >= s2", "a == b", "g.is_null()", "a.is_null()",
              "g.trimstr(1, 3)", "g.trimstr(0, 0)", "g.trimstr(2, 5)", 'g.mapv({"a": "x", "": "y"}, "z")', "x.mapv({1.0: 10.0, 3.0: 30.0}, 0.0)",
              "a.if_else(g, s2)", "a.where(g, s2)", "g.as_str()", "x.as_int64()", "x.is_null()", "x.is_nan()", "x.is_inf()", "x.is_bad()",
              "x.abs()", "x.sign()", "x.floor()", "x.ceil()", "x.round()", "x.log()", "x.sqrt()", "x.arctan2(y)", "x.expm1()", "x.log1p()"]
# date / time family: outside the modelled value domain (DESIGN: partial); never reported as unmodelled rows
DATE_OPS = {"base_Sunday", "date_diff", "datetime_to_date", "dayofmonth", "dayofweek", "dayofyear", "format_date", "format_datetime",
            "month", "parse_date", "parse_datetime", "quarter", "timestamp_diff", "weekofyear", "year"}
MATH1 = {"arccos": math.acos, "arccosh": math.acosh, "arcsin": math.asin, "arcsinh": math.asinh, "arctan": math.atan,
         "arctanh": math.atanh, "cos": math.cos, "cosh": math.cosh, "exp": math.exp, "expm1": math.expm1, "log": math.log,
         "log10": math.log10, "log1p": math.log1p, "sin": math.sin, "sinh": math.sinh, "sqrt": math.sqrt, "tanh": math.tanh}
BACKENDS = ("pandas", "sqlite", "pgtext", "polars")
BK = {"pandas": "BPandas", "sqlite": "BSqlite", "pgtext": "BPgtext", "polars": "BPolars"}
CATCOL = {"pandas": "Pandas", "sqlite": "SQLiteModel", "pgtext": "PostgreSQLModel"}
# PostgreSQL-dialect text whose meaning on SQLite is not PostgreSQL's (CAST('+infinity' AS DOUBLE PRECISION) is 0 on SQLite):
# the template is still tied (model of the PostgreSQL template under the SQLite engine), the documented-value oracle is not applied
PGTEXT_NO_ORACLE = {"is_inf", "is_bad"}


# ------------------------------------------------------------------------------------------------ Coq literals
def cq(x):
    f = fractions.Fraction(x)
    return "(%d # %d)" % (f.numerator, f.denominator)


def cstr(s):
    return lib.cstr(s) + ("%string" if lib.cstr(s).startswith('"') else "")


def csv(v, nan_is_null=True):
    """Python cell -> Coq sval"""
    if v is None:
        return "SNull"
    if isinstance(v, bool) or type(v).__name__ in ("bool_", "bool"):
        return "(SBool %s)" % ("true" if bool(v) else "false")
    if isinstance(v, str):
        return "(SStr %s)" % cstr(v)
    try:
        import pandas as pd
        if v is pd.NA or v is pd.NaT:
            return "SNull"
    except Exception:
        pass
    if isinstance(v, (int, float)) or type(v).__module__ == "numpy":
        x = float(v)
        if math.isnan(x):
            return "SNull" if nan_is_null else "SNaN"
        if x == INF:
            return "SPInf"
        if x == -INF:
            return "SNInf"
        return "(SNum %s)" % cq(x)
    return "(SStr %s)" % cstr("<" + type(v).__name__ + ">")


def cobs(o, polars=False):
    if o is RAISED:
        return "None"
    return "(Some %s)" % csv(o, nan_is_null=not polars)


RAISED = object()


def run_coq(files, timeout=900):
    """files: [(name, text)] -> {name: (rc, output)}; compiled in parallel; scratch files removed"""
    cdir = os.path.join(lib.COQ, "cases")
    os.makedirs(cdir, exist_ok=True)
    procs, res = {}, {}
    pending = list(files)
    t0 = time.time()
    while pending or procs:
        while pending and len(procs) < lib.NPROC:
            name, text = pending.pop(0)
            fn = os.path.join(cdir, name + ".v")
            open(fn, "w").write(text)
            procs[name] = (subprocess.Popen(["coqc", "-Q", "theories", "DA", "-Q", "cases", "DAcases", os.path.relpath(fn, lib.COQ)],
                                            cwd=lib.COQ, stdout=subprocess.PIPE, stderr=subprocess.STDOUT, text=True, env=lib.ENV), fn)
        for name, (p, fn) in list(procs.items()):
            try:
                out, _ = p.communicate(timeout=0.2)
                res[name] = (p.returncode, "\n".join(l for l in out.splitlines() if "conda" not in l.lower()))
                del procs[name]
            except subprocess.TimeoutExpired:
                if time.time() - t0 > timeout:
                    p.kill()
                    res[name] = (124, "TIMEOUT")
                    del procs[name]
    for name, _ in files:
        fn = os.path.join(cdir, name + ".v")
        for ext in (".v", ".vo", ".vok", ".vos", ".glob"):
            try:
                os.remove(fn[:-2] + ext)
            except OSError:
                pass
        try:
            os.remove(os.path.join(cdir, "." + name + ".aux"))
        except OSError:
            pass
    return res


def nat_lists(out):
    """all `= [..] : list nat` answers of a coqc run, in order"""
    flat = " ".join(out.split())
    return [[int(i) for i in re.findall(r"\d+", m)] for m in re.findall(r"= (\[[^\]]*\]|nil)\s*: list nat", flat)]


# ------------------------------------------------------------------------------------------------ expressions
class Expr:
    """one one-method expression: parsed by data_algebra itself into (op, args)"""

    def __init__(self, text, source):
        from data_algebra.data_ops import TableDescription
        import data_algebra.expr_rep as er
        self.text, self.source = text, source
        t = TableDescription(table_name="d", column_names=sorted(COLTYPE) + ["k"])
        self.ops = t.extend({"r": text})
        ex = self.ops.ops["r"]
        self.ok = isinstance(ex, er.Expression)
        self.why = ""
        if not self.ok:
            self.why = "not an expression"
            return
        self.op = ex.op
        self.cols, self.slots = [], []            # slots: ("col", name) | ("lit", value)
        a = list(ex.args)
        if self.op == "mapv":                     # model order: x :: default :: k1 :: v1 ...
            a = [a[0], a[2], a[1]]
        for x in a:
            if isinstance(x, er.ColumnReference):
                if x.column_name not in COLTYPE:
                    self.ok, self.why = False, "column " + x.column_name
                    return
                self.cols.append(x.column_name)
                self.slots.append(("col", x.column_name))
            elif isinstance(x, er.Value):
                self.slots.append(("lit", x.value))
            elif isinstance(x, er.ListTerm):
                for v in x.value:
                    self.slots.append(("lit", v.value if isinstance(v, er.Value) else v))
            elif isinstance(x, er.DictTerm):
                for k, v in x.value.items():
                    self.slots.append(("lit", k))
                    self.slots.append(("lit", v))
            else:
                self.ok, self.why = False, "nested expression"
                return
        self.lits = [s[0] == "lit" for s in self.slots]

    def grid(self, tier, polars=False):
        gs = []
        for c in self.cols:
            t = COLTYPE[c]
            g = {"num": NUM_T if tier == "thorough" else NUM_Q, "int": INT_T if tier == "thorough" else INT_Q,
                 "str": STR_T if tier == "thorough" else STR_G, "bool": BOOL_G}[t]
            if polars and t in ("num", "int"):
                g = g + [float("nan")]
            gs.append(g)
        return [list(r) for r in itertools.product(*gs)]

    def args_of(self, row):
        it = iter(row)
        return [next(it) if s[0] == "col" else s[1] for s in self.slots]


def arg_classes(args):
    def cls(v):
        if v is None:
            return "null"
        if isinstance(v, bool):
            return "true" if v else "false"
        if isinstance(v, str):
            return "str"
        if math.isnan(v):
            return "nan"
        if v == INF:
            return "pinf"
        if v == -INF:
            return "ninf"
        return "zero" if v == 0 else ("pos" if v > 0 else "neg")
    return [cls(v) for v in args]


def signature(op, backend, args, lits):
    cl = arg_classes(args)
    cols = [c for c, l in zip(cl, lits) if not l]
    return {"method": op, "backend": backend,
            "null_pattern": "".join("N" if c in ("null", "nan") else "V" for c in cols),
            "inf_pattern": "".join("I" if c in ("pinf", "ninf") else "-" for c in cols),
            "classes": ",".join(cols)}


# ------------------------------------------------------------------------------------------------ backends
class Runner:
    def __init__(self):
        warnings.simplefilter("ignore")
        import numpy, pandas, polars
        import data_algebra.SQLite, data_algebra.PostgreSQL
        self.pd, self.pl, self.np = pandas, polars, numpy
        self.h = data_algebra.SQLite.example_handle()
        # shim so that PostgreSQL-dialect text runs on SQLite: LN is the natural logarithm (SQLite.py registers it as "log")
        self.h.conn.create_function("ln", 1, lambda x: None if (x is None or not isinstance(x, (int, float)) or math.isinf(x) or math.isnan(x)) else math.log(x))
        self.pg = data_algebra.PostgreSQL.PostgreSQLModel()

    def close(self):
        try:
            self.h.close()
        except Exception:
            pass

    def frames(self, cols, rows, polars):
        pd, pl = self.pd, self.pl
        data = {c: [r[i] for r in rows] for i, c in enumerate(cols)}
        if polars:
            ser = {}
            for c in cols:
                t = COLTYPE[c]
                dt = pl.Float64 if t in ("num", "int") else (pl.Boolean if t == "bool" else pl.Utf8)
                ser[c] = pl.Series(c, data[c], dtype=dt)
            ser["k"] = pl.Series("k", list(range(len(rows))), dtype=pl.Int64)
            return pl.DataFrame(ser)
        ser = {}
        for c in cols:
            t = COLTYPE[c]
            if t in ("num", "int"):
                ser[c] = pd.Series(data[c], dtype="float64")
            elif t == "bool":
                ser[c] = pd.Series(data[c], dtype=object)
            else:
                ser[c] = pd.Series(data[c], dtype=object if all(v is None for v in data[c]) else None)
        ser["k"] = pd.Series(list(range(len(rows))), dtype="int64")
        return pd.DataFrame(ser)

    def run_frame(self, backend, ops, cols, rows):
        """values of column r, one per row, or raises"""
        if backend == "polars":
            d = self.frames(cols, rows, True)
            r = ops.transform(d)
            if hasattr(r, "collect"):
                r = r.collect()
            r = r.sort("k")
            return r["r"].to_list()
        d = self.frames(cols, rows, False)
        if backend == "pandas":
            r = ops.transform(d)
        else:
            self.h.insert_table(d, table_name="d", allow_overwrite=True)
            r = self.h.read_query(ops if backend == "sqlite" else ops.to_sql(self.pg))
        r = r.sort_values("k").reset_index(drop=True)
        return list(r["r"])

    def run(self, backend, ops, cols, rows):
        if not rows:
            return []
        try:
            out = self.run_frame(backend, ops, cols, rows)
            if len(out) == len(rows):
                return out
        except Exception:
            pass
        res = []                                   # isolate the raising rows
        for r in rows:
            try:
                o = self.run_frame(backend, ops, cols, [r])
                res.append(o[0] if len(o) == 1 else RAISED)
            except Exception:
                res.append(RAISED)
        return res


def sql_term(ops, model):
    from data_algebra.sql_format_options import SQLFormatOptions
    sql = ops.to_sql(model, sql_format_options=SQLFormatOptions(use_with=False, annotate=False, sql_indent=" ", initial_commas=False,
                                                               warn_on_method_support=False, warn_on_novel_methods=False))
    ls = [l for l in sql.splitlines() if ' AS "r"' in l]
    if len(ls) != 1:
        return None
    t = ls[0].strip()
    t = t[:t.rindex(' AS "r"')]
    return " ".join(t.split())


# ------------------------------------------------------------------------------------------------ catalogue
def read_tables():
    import data_algebra.op_catalog as c, data_algebra.sql_model as sm, data_algebra.SQLite as sq, data_algebra.PostgreSQL as pg
    import data_algebra.data_model, data_algebra.polars_model as pm
    mt = c.methods_table
    rows = [tuple(str(mt.loc[i][k]) for k in ("expression", "op", "op_class", "Pandas", "SQLiteModel", "PostgreSQLModel")) for i in range(mt.shape[0])]
    plm = pm.PolarsModel()
    keys = {"keys_db_expr_formatters": sorted(sm.db_expr_formatters), "keys_SQLite_formatters": sorted(sq.SQLite_formatters),
            "keys_PostgreSQL_formatters": sorted(pg.PostgreSQL_formatters),
            "keys_pandas_impl_map": sorted(data_algebra.data_model.default_data_model().impl_map),
            "keys_polars_arbitrary_arity": sorted(plm.impl_map_arbitrary_arity), "keys_polars_literals_unpacked": sorted(plm.want_literals_unpacked)}
    for ar in (0, 1, 2, 3):
        keys["keys_polars_extend_%d" % ar] = sorted(plm.extend_expr_impl_map[ar])
    reps = {"db_default_op_replacements": sorted(sm.db_default_op_replacements.items()), "pg_op_replacements": sorted(pg.PostgreSQLModel().op_replacements.items())}
    return rows, keys, reps


def catalog_file(rows, keys, reps):
    t = [PRE, "Definition rt_rows : list catrow := %s." % clist(["(%s)" % ", ".join(cstr(x) for x in r) for r in rows])]
    names = []
    for k, v in keys.items():
        t.append("Definition rt_%s : list string := %s." % (k, clist([cstr(x) for x in v])))
        names.append("(keys_eqb rt_%s %s)" % (k, k))
    for k, v in reps.items():
        t.append("Definition rt_%s : list (string * string) := %s." % (k, clist(["(%s, %s)" % (cstr(a), cstr(b)) for a, b in v])))
    t.append("Definition diffs : list nat := (if catalog_eqb rt_rows catalog_rows then [] else [0%nat]) ++ "
             + " ++ ".join("(if %s then [] else [%d%%nat])" % (n, i + 1) for i, n in enumerate(names))
             + " ++ (if pairs_eqb rt_db_default_op_replacements db_default_op_replacements then [] else [20%nat])"
             + " ++ (if pairs_eqb rt_pg_op_replacements pg_op_replacements then [] else [21%nat]).")
    t.append("Eval vm_compute in diffs.")
    return "\n".join(t), ["methods_table"] + list(keys) + ["db_default_op_replacements", "pg_op_replacements"]


# ------------------------------------------------------------------------------------------------ the check
def build_exprs(chk, cat_rows):
    exprs, unmodelled = [], []
    seen = set()
    for (text, op, cl, pdy, sqy, pgy) in cat_rows:
        if cl != "e" or op in DATE_OPS or text in seen:
            continue
        seen.add(text)
        try:
            e = Expr(text, "catalogue")
        except Exception as ex:
            unmodelled.append((text, "does not build: %s" % type(ex).__name__))
            continue
        if not e.ok:
            if e.why != "nested expression":
                unmodelled.append((text, e.why))
            continue
        e.support = {"pandas": pdy == "y", "sqlite": sqy == "y", "pgtext": pgy == "y", "polars": True}
        exprs.append(e)
    by_op = {}
    for e in exprs:
        by_op.setdefault(e.op, e.support)
    for text in EXTRA_EXPR:
        if text in seen:
            continue
        seen.add(text)
        e = Expr(text, "extra")
        if e.ok and e.op in by_op:
            e.support = by_op[e.op]
            exprs.append(e)
    return exprs, unmodelled


def math_tables(cands):
    """reference values of the transcendental symbols for every argument that occurs"""
    t1, t2 = {}, {}
    for op, args in cands:
        fin = [a for a in args if isinstance(a, float) and not math.isinf(a) and not math.isnan(a)]
        if op in MATH1 and len(args) == 1 and len(fin) == 1:
            try:
                t1[(op, fin[0])] = MATH1[op](fin[0])
            except (ValueError, OverflowError):
                pass
        if op == "**" and len(fin) == 2:
            try:
                v = math.pow(fin[0], fin[1])
                if not isinstance(v, complex) and not math.isinf(v):
                    t2[("pow", fin[0], fin[1])] = v
            except (ValueError, OverflowError, ZeroDivisionError):
                pass
        if op == "arctan2" and len(fin) == 2:
            t2[("arctan2", fin[0], fin[1])] = math.atan2(fin[0], fin[1])
    m1 = clist(["(%s, %s, %s)" % (cstr(n), cq(a), cq(v)) for (n, a), v in sorted(t1.items())])
    m2 = clist(["(%s, %s, %s, %s)" % (cstr(n), cq(a), cq(b), cq(v)) for (n, a, b), v in sorted(t2.items())])
    return m1, m2


def lit_value(v):
    return float(v) if isinstance(v, (int, float)) and not isinstance(v, bool) else v


def run(chk):
    tier = chk.tier
    chk.prove([], extra_vo=["theories/Model/ScalarCases.vo"])
    chk.cov["trusted_base"] = [
        "Coq 8.16.1 kernel + vm_compute",
        "Model/Scalar.v spec_method / spec_agg / spec_win: the documented meaning, written from the Term.* docstrings of expr_rep.py (operators without docstring: Python operator meaning, nulls propagate)",
        "Model/SqlTemplates.v: hand model of SQLite 3.40 / PostgreSQL scalar operators and functions (three-valued logic, NULL propagation, SQLite % casts to INTEGER, round() half away from zero, the user functions of SQLite.py prepare_connection transcribed) -- modelled, not verified; SQLite part run against the real engine on the whole grid, PostgreSQL engine part formal only (no server)",
        "Model/ScalarBackends.v: hand models of the numpy / pandas / polars primitives -- run against pandas 3.0.5 / polars 1.44.2 on the whole grid",
        "harness/props/C05.py: grid generation, conversion of observed cells to exact rationals, reference values of the transcendental symbols from Python's math module (compared with the 1e-8 relative rule)"]
    chk.assumptions = [
        "argument tuples outside the documented domain are not constrained: comparison / and / or / not / is_in / concat with a missing operand, division by zero, `/` with infinite operands, % mod remainder outside non-negative-integer dividend and positive-integer divisor (destination conventions), exact .5 ties of round/around, floor/ceil/round of +-inf, is_nan of a missing cell and is_null of a distinguishable NaN, coalesce of a distinguishable NaN, as_str / as_int64 of non-strings / non-integers, transcendental functions outside their mathematical domain or at +-inf, x**0 and 1**y with a missing operand",
        "numeric columns are float columns (integer `/` and `%` conventions of the destination are excluded by the property); a missing cell of a Pandas float column is NaN; uploads write NaN as NULL",
        "PostgreSQL: no server in the sandbox; the PostgreSQL templates are tied structurally (rendered text) and behaviourally by executing the PostgreSQL-dialect text on SQLite (engine differences: is_inf / is_bad text is not meaningful on SQLite and is excluded from the oracle); the PostgreSQL engine model is formal only and excludes NaN stored in tables",
        "date / time methods (15 catalogue rows) are outside the modelled value domain: not covered (partial)",
        "transcendental functions are one uninterpreted symbol shared by specification and backends; which library function the symbol is bound to is checked on the grid only"]
    chk.cov["rule"] = ("exhaustive grid: every class-e catalogue expression (plus %d extra one-method expressions) x every tuple of the per-type grid "
                       "(numbers: null, +-inf, 0, +-1, +-2.5, 3 [+ NaN on Polars; thorough: 0.5, -0.25, 7, 100.75, -1000]; integers: null, 0,1,2,3,7,-1,-3; strings: null, '', 'a', \"a'b\", 'abcdef'; booleans: True, False, null) "
                       "inside the documented domain (decided by spec_method in Coq), on 4 backends; aggregates / window functions over all small partitions; non-trivial = at least one non-null argument; distinct by (backend, expression, tuple)" % len(EXTRA_EXPR))
    sys.path.insert(0, lib.REPO)
    cat_rows, keys, reps = read_tables()
    # ---- catalogue / key sets against the frozen model tables
    text, names = catalog_file(cat_rows, keys, reps)
    exprs, unmodelled = build_exprs(chk, cat_rows)
    # ---- phase 0: which grid tuples are inside the documented domain
    cands = []                                    # (expr index, polars-only flag, row, args)
    for ei, e in enumerate(exprs):
        base = set()
        for row in e.grid(tier, polars=False):
            base.add(tuple(repr(x) for x in row))
            cands.append((ei, False, row, [lit_value(v) for v in e.args_of(row)]))
        for row in e.grid(tier, polars=True):
            if tuple(repr(x) for x in row) not in base:
                cands.append((ei, True, row, [lit_value(v) for v in e.args_of(row)]))
    dom_terms = ["(%s, %s)" % (cstr(exprs[ei].op), clist([csv(a, nan_is_null=False) for a in args])) for ei, _, _, args in cands]
    files = [("C05_cat", text)]
    per = 2000
    for k in range(0, len(dom_terms), per):
        files.append(("C05_dom_%d" % (k // per), PRE + "Definition cs := %s.\nEval vm_compute in inside_domain cs.\n" % clist(dom_terms[k:k + per])))
    res = run_coq(files)
    rc, out = res["C05_cat"]
    diffs = nat_lists(out)
    if rc != 0 or len(diffs) != 1:
        chk.corr_break("catalogue comparison file failed to compile", out[-1500:])
    else:
        for i in diffs[0]:
            what = names[i] if i < len(names) else {20: "db_default_op_replacements", 21: "pg_op_replacements"}.get(i, str(i))
            chk.corr_break("the %s of /repo differs from the frozen table in Model/ScalarCatalog.v (a method / formatter key was added, removed or re-marked)" % what,
                           {"table": what})
    for text_, why in unmodelled:
        chk.corr_break("catalogue row %r is not modelled (%s)" % (text_, why), {"expression": text_})
    indom = set()
    for k in range(0, len(dom_terms), per):
        rc, out = res["C05_dom_%d" % (k // per)]
        ls = nat_lists(out)
        if rc != 0 or len(ls) != 1:
            chk.corr_break("domain filter file failed to compile", out[-1500:])
            continue
        indom.update(k + i for i in ls[0])
    chk.cov["distribution"]["candidate_tuples"] = len(cands)
    chk.cov["distribution"]["in_domain_tuples"] = len(indom)
    # ---- run the real backends
    rn = Runner()
    cases, meta = [], []                           # Coq terms, python descriptions
    per_expr = {}
    for ci in sorted(indom):
        ei, ponly, row, args = cands[ci]
        per_expr.setdefault(ei, []).append((ponly, row, args))
    nraise = 0
    for ei, items in per_expr.items():
        e = exprs[ei]
        for backend in BACKENDS:
            rows = [(row, args) for ponly, row, args in items if backend == "polars" or not ponly]
            if not rows:
                continue
            obs = rn.run(backend, e.ops, e.cols, [r for r, _ in rows])
            for (row, args), o in zip(rows, obs):
                if o is RAISED:
                    nraise += 1
                    chk.dist("raised_" + backend)
                cases.append("(mk_scase %s %s %s %s %s)" % (BK[backend], cstr(e.op), clist(["true" if l else "false" for l in e.lits]),
                                                           clist([csv(a, nan_is_null=False) for a in args]), cobs(o, backend == "polars")))
                meta.append({"expr": e.text, "op": e.op, "backend": backend, "row": row, "args": args, "lits": e.lits,
                             "observed": "<raised>" if o is RAISED else repr(o), "supported": e.support[backend], "cols": e.cols})
                chk.count((backend, e.text, repr(row)), nontrivial=any(v is not None for v in row))
                chk.dist("op_" + e.op)
        if len(chk.cov["samples"]) < 6 and items:
            chk.sample({"expr": e.text, "row": repr(items[0][1]), "backends": list(BACKENDS)})
    # ---- structural tie: rendered SQL text
    import data_algebra.SQLite
    rcases, rmeta = [], []
    for e in exprs:
        for dname, model in (("DSqlite", data_algebra.SQLite.SQLiteModel()), ("DPg", rn.pg)):
            try:
                term = sql_term(e.ops, model)
            except Exception as ex:
                term = None
            if term is None:
                chk.corr_break("could not isolate the SQL term of %r" % e.text, {"expr": e.text})
                continue
            atoms = []
            for s in e.slots:
                if s[0] == "col":
                    atoms.append('(false, %s, SNull)' % cstr(model.quote_identifier(s[1])))
                else:
                    atoms.append('(true, %s, %s)' % (cstr(model.value_to_sql(s[1])), csv(lit_value(s[1]))))
            rcases.append("(mk_rcase %s %s %s %s)" % (dname, cstr(e.op), clist(atoms), cstr(term)))
            rmeta.append({"expr": e.text, "dialect": dname, "sql": term})
    rn.close()
    m1, m2 = math_tables([(exprs[ei].op, args) for ei, _, _, args in cands])
    files = []
    per = 350
    head = PRE + "Definition mt1 : mtab := %s.\nDefinition mt2 : mtab2 := %s.\n" % (m1, m2)
    for k in range(0, len(cases), per):
        files.append(("C05_s_%d" % (k // per), head + "Definition cs := %s.\nEval vm_compute in check_oracle mt1 mt2 cs.\nEval vm_compute in check_model mt1 mt2 cs.\nEval vm_compute in check_domain mt1 mt2 cs.\n" % clist(cases[k:k + per])))
    files.append(("C05_render", PRE + "Definition rs := %s.\nEval vm_compute in check_render rs.\n" % clist(rcases)))
    res = run_coq(files)
    oracle_fail, model_fail, dom_fail, errors = [], [], [], []
    for k in range(0, len(cases), per):
        rc, out = res["C05_s_%d" % (k // per)]
        ls = nat_lists(out)
        if rc != 0 or len(ls) != 3:
            errors.append(out[-1500:])
            continue
        oracle_fail += [k + i for i in ls[0]]
        model_fail += [k + i for i in ls[1]]
        dom_fail += [k + i for i in ls[2]]
    rc, out = res["C05_render"]
    ls = nat_lists(out)
    if rc != 0 or len(ls) != 1:
        errors.append(out[-1500:])
        render_fail = []
    else:
        render_fail = ls[0]
    chk.cov["correspondence"] = {"scalar_cases": len(cases), "model_disagreements": len(model_fail), "oracle_disagreements": len(oracle_fail),
                                 "render_cases": len(rcases), "render_disagreements": len(render_fail), "raised": nraise, "errors": errors[:2]}
    chk.cov["traces_validated_against_impl"] = len(cases) + len(rcases)
    if errors:
        chk.corr_break("correspondence case files failed to compile", errors[0])
    for i in dom_fail[:3]:
        chk.corr_break("a grid tuple left the documented domain between the two Coq passes", meta[i])
    for i in render_fail[:5]:
        chk.corr_break("SQL text of %s (%s) differs from the template of Model/SqlTemplates.v" % (rmeta[i]["expr"], rmeta[i]["dialect"]), rmeta[i])
    seen_model = set()
    for i in model_fail:
        m = meta[i]
        key = (m["op"], m["backend"])
        if key in seen_model:
            continue
        seen_model.add(key)
        chk.corr_break("backend model of %s on %s disagrees with the implementation" % (m["op"], m["backend"]), m)
    # oracle failures: only pairs the catalogue marks supported (Polars: every method, when it does not raise)
    seen_sig = set()
    for i in oracle_fail:
        m = meta[i]
        if not m["supported"]:
            chk.dist("unsupported_pair_differs")
            continue
        if m["backend"] == "pgtext" and m["op"] in PGTEXT_NO_ORACLE:
            continue
        sig = signature(m["op"], m["backend"], m["args"], m["lits"])
        key = json.dumps(sig, sort_keys=True)
        if key in seen_sig:
            continue
        seen_sig.add(key)
        chk.impl_violation("%s on %s: value differs from the documented meaning (argument classes %s)" % (m["op"], m["backend"], sig["classes"]),
                           {"kind": "impl-violation", "family": "scalar", "expr": m["expr"], "op": m["op"], "backend": m["backend"], "cols": m["cols"], "row": m["row"],
                            "args": m["args"], "lits": m["lits"], "observed": m["observed"]}, sig)
    if os.environ.get("C05_DEBUG"):
        json.dump({"model": [meta[i] for i in model_fail], "oracle": [meta[i] for i in oracle_fail], "render": [rmeta[i] for i in render_fail],
                   "breaks": [b["what"] for b in getattr(chk, "pending_breaks", [])], "errors": errors}, open(os.environ["C05_DEBUG"], "w"), indent=1, default=repr)
    chk.cov["oracle"] = {"supported_pairs_checked": len(set((m["op"], m["backend"]) for m in meta if m["supported"])),
                         "oracle_failures_on_supported_pairs": sum(1 for i in oracle_fail if meta[i]["supported"])}


def replay(path):
    r = json.load(open(path))
    print(json.dumps(r, indent=1)[:3000])
    return 1
