"""C05 -- every catalogued method behaves as documented on every backend that claims it.

proof : Props/C05.v about Model/Scalar.v (documented meaning, from the Term.* docstrings), Model/SqlTemplates.v (SQL AST,
        three-valued evaluator, formatter templates transcribed from sql_model.py / SQLite.py / PostgreSQL.py),
        Model/ScalarBackends.v (hand models of the numpy / pandas / polars primitives each method reaches) and
        Model/AggModels.v (aggregate / window templates and primitives)
tie   : EXHAUSTIVE FINITE GRID (not sampling): every catalogue row x every argument tuple of a per-type grid that lies in the
        documented domain (decided by spec_method inside Coq), run through extend / project / windowed extend on Pandas,
        SQLite, PostgreSQL-dialect text on SQLite, and Polars; each observation is compared INSIDE Coq with the backend model
        (correspondence) and with the specification (oracle); the SQL text of every one-method expression is compared with the
        rendered model template; the catalogue, the formatter key sets and the impl-map key sets are compared with the frozen
        Model/ScalarCatalog.v
oracle: the same grid; a supported backend whose value differs from the documented one is an implementation violation"""
import fractions, itertools, json, math, os, re, subprocess, sys, time, warnings
import lib
from lib import clist

INF = float("inf")
PRE = ("From Coq Require Import List ZArith QArith String.\nImport ListNotations.\n"
       "From DA Require Import Base.Cases Model.Scalar Model.SqlTemplates Model.ScalarBackends Model.ScalarCatalog Model.AggModels Model.ScalarCases.\n"
       "Local Open Scope string_scope.\n")

# ------------------------------------------------------------------------------------------------ grids
NUM_Q = [None, INF, -INF, 0.0, 1.0, -1.0, 2.5, -2.5, 3.0]
NUM_T = NUM_Q + [0.5, -0.25, 7.0, 100.75, -1000.0]
INT_Q = [None, 0.0, 1.0, 2.0, 3.0, 7.0, -1.0, -3.0]
INT_T = INT_Q + [10.0, 12.0, -8.0]
STR_G = [None, "", "a", "a'b", "abcdef"]
STR_T = STR_G + ["b", "z", 'q"r']
BOOL_G = [True, False, None]
AGG_VALS = [None, 0.0, 1.0, -1.0, 2.5, 3.0]
COLTYPE = {"x": "num", "y": "num", "z": "num", "row_id": "int", "q": "int", "a": "bool", "b": "bool", "g": "str", "s2": "str"}

# extra one-method expressions beside the catalogue's own rows (more literal choices, both argument orders)
EXTRA_EXPR = ["x.maximum(y)", "x.minimum(y)", "x.fmax(y)", "x.fmin(y)", "x % y", "x.mod(y)", "x.remainder(y)", "x // y",
              "y.around(0)", "y.around(1)", "x ** 2", "x ** 1", "x ** 0.5", "x ** 0", "x ** -1", "z.coalesce(x)", "x.is_in({1, 3})", "x.is_in({2.5})",
              'g.is_in({"a", "b"})', "g.coalesce(s2)", "g == s2", "g != s2", "g < s2", "g >= s2", "a == b", "g.is_null()", "a.is_null()",
              "g.trimstr(1, 3)", "g.trimstr(0, 0)", "g.trimstr(2, 5)", 'g.mapv({"a": "x", "": "y"}, "z")', "x.mapv({1.0: 10.0, 3.0: 30.0}, 0.0)",
              "a.if_else(g, s2)", "a.where(g, s2)", "g.as_str()", "x.as_int64()", "x.is_null()", "x.is_nan()", "x.is_inf()", "x.is_bad()",
              "x.abs()", "x.sign()", "x.floor()", "x.ceil()", "x.round()", "x.log()", "x.sqrt()", "x.arctan2(y)", "x.expm1()", "x.log1p()"]
# date / time family: outside the modelled value domain (partial); never reported as unmodelled rows
DATE_OPS = {"base_Sunday", "date_diff", "datetime_to_date", "dayofmonth", "dayofweek", "dayofyear", "format_date", "format_datetime",
            "month", "parse_date", "parse_datetime", "quarter", "timestamp_diff", "weekofyear", "year"}
# catalogued zero-argument window helpers without a documented meaning (no Term docstring), and the random generator
UNDOCUMENTED = {"_count", "_ngroup", "_uniform"}
MATH1 = {"arccos": math.acos, "arccosh": math.acosh, "arcsin": math.asin, "arcsinh": math.asinh, "arctan": math.atan,
         "arctanh": math.atanh, "cos": math.cos, "cosh": math.cosh, "exp": math.exp, "expm1": math.expm1, "log": math.log,
         "log10": math.log10, "log1p": math.log1p, "sin": math.sin, "sinh": math.sinh, "sqrt": math.sqrt, "tanh": math.tanh}
BACKENDS = ("pandas", "sqlite", "pgtext", "polars")
BK = {"pandas": "BPandas", "sqlite": "BSqlite", "pgtext": "BPgtext", "polars": "BPolars"}
CLS = {"p": "CProject", "up": "CProject", "g": "CGroup", "w": "CWindow"}
RAISED = object()


def pgtext_oracle_applies(op, args):
    """PostgreSQL-dialect text executed on SQLite is judged against the documented value only where SQLite's engine agrees
    with PostgreSQL's: CAST('+infinity' AS DOUBLE PRECISION) is 0 on SQLite (is_inf / is_bad text), and ABS / SIGN are the
    user functions of SQLite.py there.  The templates are still tied (PostgreSQL template under the SQLite engine model)."""
    if op in ("is_inf", "is_bad"):
        return False
    if op in ("abs", "sign") and any(isinstance(a, float) and math.isinf(a) for a in args):
        return False
    return True


# ------------------------------------------------------------------------------------------------ Coq literals
def cq(x):
    f = fractions.Fraction(x)
    return "(%d # %d)" % (f.numerator, f.denominator)


def cstr(s):
    t = lib.cstr(s)
    return t + ("%string" if t.startswith('"') else "")


def csv(v, nan_is_null=True):
    """Python cell -> Coq sval"""
    if v is None or v is RAISED:
        return "SNull"
    if isinstance(v, bool) or type(v).__name__ in ("bool_", "bool"):
        return "(SBool %s)" % ("true" if bool(v) else "false")
    if isinstance(v, str):
        return "(SStr %s)" % cstr(v)
    if type(v).__name__ in ("NAType", "NaTType"):
        return "SNull"
    if isinstance(v, fractions.Fraction):
        return "(SNum %s)" % cq(v)
    if isinstance(v, (int, float)) or type(v).__module__ == "numpy":
        x = float(v)
        if math.isnan(x):
            return "SNull" if nan_is_null else "SNaN"
        if x == INF:
            return "SPInf"
        if x == -INF:
            return "SNInf"
        return "(SNum %s)" % cq(x)
    return "(SStr %s)" % cstr("<" + type(v).__name__ + ">")


def cobs(o, polars=False):
    if o is RAISED:
        return "None"
    return "(Some %s)" % csv(o, nan_is_null=not polars)


def run_coq(files, timeout=900):
    """files: [(name, text)] -> {name: (rc, output)}; compiled in parallel; scratch files removed"""
    cdir = os.path.join(lib.COQ, "cases")
    os.makedirs(cdir, exist_ok=True)
    procs, res = {}, {}
    pending = list(files)
    t0 = time.time()
    while pending or procs:
        while pending and len(procs) < lib.NPROC:
            name, text = pending.pop(0)
            fn = os.path.join(cdir, name + ".v")
            open(fn, "w").write(text)
            procs[name] = subprocess.Popen(["coqc", "-Q", "theories", "DA", "-Q", "cases", "DAcases", os.path.relpath(fn, lib.COQ)],
                                           cwd=lib.COQ, stdout=subprocess.PIPE, stderr=subprocess.STDOUT, text=True, env=lib.ENV)
        for name, p in list(procs.items()):
            try:
                out, _ = p.communicate(timeout=0.2)
                res[name] = (p.returncode, "\n".join(l for l in out.splitlines() if "conda" not in l.lower()))
                del procs[name]
            except subprocess.TimeoutExpired:
                if time.time() - t0 > timeout:
                    p.kill()
                    res[name] = (124, "TIMEOUT")
                    del procs[name]
    for name, _ in files:
        fn = os.path.join(cdir, name + ".v")
        for ext in (".v", ".vo", ".vok", ".vos", ".glob"):
            try:
                os.remove(fn[:-2] + ext)
            except OSError:
                pass
        try:
            os.remove(os.path.join(cdir, "." + name + ".aux"))
        except OSError:
            pass
    return res


def nat_lists(out):
    """all `= [..] : list nat` answers of a coqc run, in order"""
    flat = " ".join(out.split())
    return [[int(i) for i in re.findall(r"\d+", m)] for m in re.findall(r"= (\[[^\]]*\]|nil)\s*: list nat", flat)]


def lit_value(v):
    return float(v) if isinstance(v, (int, float)) and not isinstance(v, bool) else v


# ------------------------------------------------------------------------------------------------ expressions
class Expr:
    """one one-method scalar expression: parsed by data_algebra itself into (op, args)"""

    def __init__(self, text, source):
        from data_algebra.data_ops import TableDescription
        import data_algebra.expr_rep as er
        self.text, self.source = text, source
        t = TableDescription(table_name="d", column_names=sorted(COLTYPE) + ["k"])
        ex = t.extend({"r": text}).ops["r"]
        self.ok = isinstance(ex, er.Expression)
        self.why = "" if self.ok else "not an expression"
        if not self.ok:
            return
        self.op = ex.op
        self.inline = bool(ex.inline)
        self.cols, self.slots = [], []            # slots: ("col", name) | ("lit", value)
        a = list(ex.args)
        if self.op == "mapv":                     # model order: x :: default :: k1 :: v1 ...
            a = [a[0], a[2], a[1]]
        for x in a:
            if isinstance(x, er.ColumnReference):
                if x.column_name not in COLTYPE:
                    self.ok, self.why = False, "column " + x.column_name
                    return
                self.cols.append(x.column_name)
                self.slots.append(("col", x.column_name))
            elif isinstance(x, er.Value):
                self.slots.append(("lit", x.value))
            elif isinstance(x, er.ListTerm):
                for v in x.value:
                    self.slots.append(("lit", v.value if isinstance(v, er.Value) else v))
            elif isinstance(x, er.DictTerm):
                for k, v in x.value.items():
                    self.slots.append(("lit", k))
                    self.slots.append(("lit", v))
            else:
                self.ok, self.why = False, "nested expression"
                return
        self.lits = [s[0] == "lit" for s in self.slots]
        self.ucols = sorted(set(self.cols))       # the frame holds exactly the columns the expression reads, plus the row key
        self.ops = TableDescription(table_name="d", column_names=self.ucols + ["k"]).extend({"r": text})

    def grid(self, tier, polars=False):
        gs = []
        for c in self.ucols:
            t = COLTYPE[c]
            g = {"num": NUM_T if tier == "thorough" else NUM_Q, "int": INT_T if tier == "thorough" else INT_Q,
                 "str": STR_T if tier == "thorough" else STR_G, "bool": BOOL_G}[t]
            if polars and t in ("num", "int"):
                g = g + [float("nan")]
            gs.append(g)
        return [list(r) for r in itertools.product(*gs)]

    def args_of(self, row):
        val = dict(zip(self.ucols, row))
        return [lit_value(val[s[1]] if s[0] == "col" else s[1]) for s in self.slots]


def arg_classes(args):
    def cls(v):
        if v is None:
            return "null"
        if isinstance(v, bool):
            return "true" if v else "false"
        if isinstance(v, str):
            return "str"
        if math.isnan(v):
            return "nan"
        if v == INF:
            return "pinf"
        if v == -INF:
            return "ninf"
        return "zero" if v == 0 else ("pos" if v > 0 else "neg")
    return [cls(v) for v in args]


def signature(op, backend, args, lits):
    cl = arg_classes(args)
    cols = [c for c, l in zip(cl, lits) if not l]
    sig = {"family": "scalar", "method": op, "backend": backend,
           "null_pattern": "".join("N" if c in ("null", "nan") else "V" for c in cols),
           "inf_pattern": "".join("I" if c in ("pinf", "ninf") else "-" for c in cols),
           "classes": ",".join(cols)}
    if op == "trimstr":
        sig["start"] = "zero" if args[1] == 0 else "positive"
    return sig


# ------------------------------------------------------------------------------------------------ backends
class Runner:
    def __init__(self):
        warnings.simplefilter("ignore")
        import numpy, pandas, polars
        import data_algebra.SQLite, data_algebra.PostgreSQL
        self.pd, self.pl, self.np = pandas, polars, numpy
        self.h = data_algebra.SQLite.example_handle()
        # shim so that PostgreSQL-dialect text runs on SQLite: LN is the natural logarithm (SQLite.py registers it as "log")
        self.h.conn.create_function("ln", 1, lambda x: None if (x is None or not isinstance(x, (int, float)) or math.isinf(x) or math.isnan(x)) else math.log(x))
        self.pg = data_algebra.PostgreSQL.PostgreSQLModel()
        self.sq = data_algebra.SQLite.SQLiteModel()

    def close(self):
        try:
            self.h.close()
        except Exception:
            pass

    def frames(self, cols, types, rows, polars):
        pd, pl = self.pd, self.pl
        data = {c: [r[i] for r in rows] for i, c in enumerate(cols)}
        if polars:
            ser = {}
            for c in cols:
                t = types[c]
                dt = pl.Float64 if t in ("num", "int") else (pl.Boolean if t == "bool" else pl.Utf8)
                ser[c] = pl.Series(c, data[c], dtype=dt)
            ser["k"] = pl.Series("k", list(range(len(rows))), dtype=pl.Int64)
            return pl.DataFrame(ser)
        ser = {}
        for c in cols:
            t = types[c]
            if t in ("num", "int"):
                ser[c] = pd.Series(data[c], dtype="float64")
            elif t == "bool":
                ser[c] = pd.Series(data[c], dtype=object)
            else:
                ser[c] = pd.Series(data[c], dtype=object if all(v is None for v in data[c]) else None)
        ser["k"] = pd.Series(list(range(len(rows))), dtype="int64")
        return pd.DataFrame(ser)

    def eval_frame(self, backend, ops, cols, types, rows):
        """the result frame as a pandas frame (SQL backends and Pandas)"""
        d = self.frames(cols, types, rows, False)
        if backend == "pandas":
            return ops.transform(d)
        self.h.insert_table(d, table_name="d", allow_overwrite=True)
        return self.h.read_query(ops if backend == "sqlite" else ops.to_sql(self.pg))

    def run_frame(self, backend, ops, cols, types, rows):
        if backend == "polars":          # keep NaN and null apart: read the cells from the Polars frame itself
            r = ops.transform(self.frames(cols, types, rows, True))
            if hasattr(r, "collect"):
                r = r.collect()
            return r.sort("k")["r"].to_list()
        r = self.eval_frame(backend, ops, cols, types, rows)
        return list(r.sort_values("k").reset_index(drop=True)["r"])

    def run(self, backend, ops, cols, types, rows):
        if not rows:
            return []
        try:
            out = self.run_frame(backend, ops, cols, types, rows)
            if len(out) == len(rows):
                return out
        except Exception:
            pass

        def one(r):
            try:
                o = self.run_frame(backend, ops, cols, types, [r])
                return o[0] if len(o) == 1 else RAISED
            except Exception:
                return RAISED
        n = len(rows)
        probe = {i: one(rows[i]) for i in sorted({0, n // 2, n - 1})}
        if all(v is RAISED for v in probe.values()):
            return [RAISED] * n                    # the method is not available on this backend
        res = [None] * n

        def solve(lo, hi):                         # isolate the raising rows by bisection
            if hi - lo == 1:
                res[lo] = probe[lo] if lo in probe else one(rows[lo])
                return
            try:
                out = self.run_frame(backend, ops, cols, types, rows[lo:hi])
                if len(out) == hi - lo:
                    res[lo:hi] = out
                    return
            except Exception:
                pass
            mid = (lo + hi) // 2
            solve(lo, mid)
            solve(mid, hi)
        solve(0, n)
        return res


def sql_term(ops, model):
    from data_algebra.sql_format_options import SQLFormatOptions
    sql = ops.to_sql(model, sql_format_options=SQLFormatOptions(use_with=False, annotate=False, sql_indent=" ", initial_commas=False,
                                                               warn_on_method_support=False, warn_on_novel_methods=False))
    ls = [l for l in sql.splitlines() if ' AS "r"' in l]
    if len(ls) != 1:
        return None
    t = ls[0].strip()
    t = t[:t.rindex(' AS "r"')]
    return " ".join(t.split())


def detect_variant(rn):
    """which of the three proposed repairs the code under test carries (the render / behaviour ties then confirm it)"""
    v = {"fix_maxmin": False, "fix_trimstr": False, "fix_abs_sign": False}
    try:
        v["fix_maxmin"] = "IS NULL" not in sql_term(Expr("x.maximum(y)", "probe").ops, rn.sq)
    except Exception:
        pass
    try:
        v["fix_trimstr"] = "3 - 1" in sql_term(Expr("g.trimstr(1, 3)", "probe").ops, rn.sq)
    except Exception:
        pass
    try:
        import data_algebra.SQLite as sq
        v["fix_abs_sign"] = bool((sq._abs_fn(-INF) == INF) and (sq._sign_fn(INF) == 1.0))
    except Exception:
        pass
    return v


def cvariant(v):
    return "(mkvariant %s %s %s)" % tuple("true" if v[k] else "false" for k in ("fix_maxmin", "fix_trimstr", "fix_abs_sign"))


# ------------------------------------------------------------------------------------------------ catalogue
def read_tables():
    import data_algebra.op_catalog as c, data_algebra.sql_model as sm, data_algebra.SQLite as sq, data_algebra.PostgreSQL as pg
    import data_algebra.data_model, data_algebra.polars_model as pm
    mt = c.methods_table
    rows = [tuple(str(mt.loc[i][k]) for k in ("expression", "op", "op_class", "Pandas", "SQLiteModel", "PostgreSQLModel")) for i in range(mt.shape[0])]
    plm = pm.PolarsModel()
    keys = {"keys_db_expr_formatters": sorted(sm.db_expr_formatters), "keys_SQLite_formatters": sorted(sq.SQLite_formatters),
            "keys_PostgreSQL_formatters": sorted(pg.PostgreSQL_formatters),
            "keys_pandas_impl_map": sorted(data_algebra.data_model.default_data_model().impl_map),
            "keys_polars_arbitrary_arity": sorted(plm.impl_map_arbitrary_arity), "keys_polars_literals_unpacked": sorted(plm.want_literals_unpacked)}
    for ar in (0, 1, 2, 3):
        keys["keys_polars_extend_%d" % ar] = sorted(plm.extend_expr_impl_map[ar])
    reps = {"db_default_op_replacements": sorted(sm.db_default_op_replacements.items()), "pg_op_replacements": sorted(pg.PostgreSQLModel().op_replacements.items())}
    return rows, keys, reps


def catalog_file(rows, keys, reps, exprs):
    t = [PRE, "Definition rt_rows : list catrow := %s." % clist(["(%s)" % ", ".join(cstr(x) for x in r) for r in rows])]
    tests, names = ["(catalog_eqb rt_rows catalog_rows)"], ["methods_table"]
    for k, v in keys.items():
        t.append("Definition rt_%s : list string := %s." % (k, clist([cstr(x) for x in v])))
        tests.append("(keys_eqb rt_%s %s)" % (k, k))
        names.append(k)
    for k, v in reps.items():
        t.append("Definition rt_%s : list (string * string) := %s." % (k, clist(["(%s, %s)" % (cstr(a), cstr(b)) for a, b in v])))
        tests.append("(pairs_eqb rt_%s %s)" % (k, k))
        names.append(k)
    # (expression -> method, literal flags) as data_algebra's parser sees the catalogue's own rows
    ek = ["(%s, (%s, %s))" % (cstr(e.text), cstr(e.op), clist(["true" if l else "false" for l in e.lits])) for e in exprs if e.source == "catalogue"]
    t.append("Definition rt_expr_keys : list (string * (string * list bool)) := %s." % clist(ek))
    tests.append("(expr_keys_eqb rt_expr_keys expr_keys)")
    names.append("expr_keys (expression -> method, literal flags)")
    t.append("Definition diffs : list nat := " + " ++ ".join("(if %s then [] else [%d%%nat])" % (n, i) for i, n in enumerate(tests)) + ".")
    t.append("Eval vm_compute in diffs.")
    return "\n".join(t), names


# literal operands: every method of arity >= 2 whose catalogue form has only column operands is also run with a constant in each
# argument position (x.maximum(0), (2.5).minimum(x), 2.5 + x, a.if_else(x, 0) ...); the condition of if_else / where stays a column
LITERALS = {"num": [0, 2.5], "int": [2], "str": ["a"], "bool": [True]}


def literal_variants(e):
    """expression texts with one operand of e replaced by a literal (at least one column operand is kept)"""
    if len(e.slots) < 2 or any(s[0] != "col" for s in e.slots):
        return []
    out = []
    for i, (_, col) in enumerate(e.slots):
        if e.op in ("if_else", "where") and i == 0:
            continue
        for v in LITERALS[COLTYPE[col]]:
            parts = [c for _, c in e.slots]
            parts[i] = repr(v) if not isinstance(v, str) else '"%s"' % v
            if e.inline and len(parts) == 2:
                text = "%s %s %s" % (parts[0], e.op, parts[1])
            else:
                head = "(%s)" % parts[0] if i == 0 else parts[0]
                text = "%s.%s(%s)" % (head, e.op, ", ".join(parts[1:]))
            out.append(text)
    return out


def build_exprs(cat_rows):
    exprs, unmodelled, seen = [], [], set()
    for (text, op, cl, pdy, sqy, pgy) in cat_rows:
        if cl != "e" or op in DATE_OPS or op == "sum" or text in seen:
            continue
        seen.add(text)
        try:
            e = Expr(text, "catalogue")
        except Exception as ex:
            unmodelled.append((text, "does not build: %s" % type(ex).__name__))
            continue
        if not e.ok:
            if e.why != "nested expression":
                unmodelled.append((text, e.why))
            continue
        e.support = {"pandas": pdy == "y", "sqlite": sqy == "y", "pgtext": pgy == "y", "polars": True}
        exprs.append(e)
    by_op = {}
    for e in exprs:
        by_op.setdefault(e.op, e.support)
    for text in EXTRA_EXPR:
        if text in seen:
            continue
        seen.add(text)
        e = Expr(text, "extra")
        if e.ok and e.op in by_op:
            e.support = by_op[e.op]
            exprs.append(e)
    done_ops = set()
    for e0 in list(exprs):
        if (e0.op, len(e0.slots)) in done_ops:
            continue
        vs = literal_variants(e0)
        if vs:
            done_ops.add((e0.op, len(e0.slots)))
        for text in vs:
            if text in seen:
                continue
            seen.add(text)
            try:
                e = Expr(text, "literal")
            except Exception:
                continue                               # the expression grammar / builder does not accept this form
            if e.ok and e.op == e0.op:
                e.support = by_op[e.op]
                exprs.append(e)
    return exprs, unmodelled


def math_tables(cands, agg_lists_=()):
    """reference values of the transcendental symbols for every argument that occurs"""
    t1, t2 = {}, {}
    for op, args in cands:
        fin = [a for a in args if isinstance(a, float) and not math.isinf(a) and not math.isnan(a)]
        if op in MATH1 and len(args) == 1 and len(fin) == 1:
            try:
                t1[(op, fractions.Fraction(fin[0]))] = MATH1[op](fin[0])
            except (ValueError, OverflowError):
                pass
        if op == "**" and len(fin) == 2:
            try:
                v = math.pow(fin[0], fin[1])
                if not isinstance(v, complex) and not math.isinf(v):
                    t2[("pow", fin[0], fin[1])] = v
            except (ValueError, OverflowError, ZeroDivisionError):
                pass
        if op == "arctan2" and len(fin) == 2:
            t2[("arctan2", fin[0], fin[1])] = math.atan2(fin[0], fin[1])
    for vals in agg_lists_:                      # std: sqrt of the exact sample variance
        qs = [fractions.Fraction(v) for v in vals if isinstance(v, float) and not math.isnan(v)]
        if len(qs) >= 2:
            m = sum(qs) / len(qs)
            var = sum((x - m) * (x - m) for x in qs) / (len(qs) - 1)
            t1[("sqrt", var)] = math.sqrt(float(var))
    m1 = clist(["(%s, %s, %s)" % (cstr(n), cq(a), cq(v)) for (n, a), v in sorted(t1.items())])
    m2 = clist(["(%s, %s, %s, %s)" % (cstr(n), cq(a), cq(b), cq(v)) for (n, a, b), v in sorted(t2.items())])
    return m1, m2


# ------------------------------------------------------------------------------------------------ aggregates / windows
class AggExpr:
    """one catalogue row of class p / up / g / w: method over one argument column (or a literal / nothing)"""

    def __init__(self, text, op, cl, support):
        from data_algebra.data_ops import TableDescription
        import data_algebra.expr_rep as er
        self.text, self.cl, self.support = text, cl, support
        self.boolean = text.startswith("a.")
        col = "a" if self.boolean else "x"
        self.expr = re.sub(r"^[a-z]\.", col + ".", text) if re.match(r"^[a-z]\.", text) else text
        t = TableDescription(table_name="d", column_names=["g", "o", col, "k"])
        if cl in ("p", "up"):
            self.ops = t.project({"r": self.expr}, group_by=["g"])
        elif cl == "g":
            self.ops = t.extend({"r": self.expr}, partition_by=["g"])
        else:
            self.ops = t.extend({"r": self.expr}, partition_by=["g"], order_by=["o"])
        ex = self.ops.ops["r"]
        self.op = ex.op
        self.col = col
        self.argkind, self.lit = "none", None
        if len(ex.args) > 0:
            self.argkind = "col" if isinstance(ex.args[0], er.ColumnReference) else "lit"
            self.lit = getattr(ex.args[0], "value", None)
        self.types = {"g": "str", "o": "num", col: "bool" if self.boolean else "num"}
        self.cols = ["g", "o", col]

    def vals_of(self, lst):
        """the argument values the method sees for the group whose column cells are lst"""
        if self.argkind == "lit":
            return [lit_value(self.lit)] * len(lst)
        return list(lst)


def agg_lists(tier, boolean):
    """all groups of 1..2 cells over the full value grid and of 3 cells over a reduced grid (quick); 1..3 cells over the full grid and
    4 cells over the reduced grid (booleans: 1..5 cells) thorough"""
    base = BOOL_G if boolean else AGG_VALS
    out = []
    if tier == "quick":
        for n in (1, 2):
            out += [list(t) for t in itertools.product(base, repeat=n)]
        out += [list(t) for t in itertools.product(base if boolean else [None, 1.0, 2.5], repeat=3)]
        return out
    for n in range(1, (4 if boolean else 3) + 1):
        out += [list(t) for t in itertools.product(base, repeat=n)]
    out += [list(t) for t in itertools.product(base if boolean else [None, 1.0, 2.5], repeat=(5 if boolean else 4))]
    return out


def run_agg(rn, backend, ae, lists):
    """observed output cells per group (list of lists), RAISED for everything if the backend raises"""
    rows = []
    for i, l in enumerate(lists):
        for j, v in enumerate(l):
            rows.append(("g%05d" % i, float(j), v))
    try:
        if backend == "polars":
            r = ae.ops.transform(rn.frames(ae.cols, ae.types, rows, True))
            if hasattr(r, "collect"):
                r = r.collect()
            gs, rs = r["g"].to_list(), r["r"].to_list()
            ks = r["k"].to_list() if "k" in r.columns else list(range(len(gs)))
        else:
            r = rn.eval_frame(backend, ae.ops, ae.cols, ae.types, rows)
            gs, rs = list(r["g"]), list(r["r"])
            ks = list(r["k"]) if "k" in r.columns else list(range(len(gs)))
    except Exception:
        return [RAISED] * len(lists)
    per = {}
    for g, k, v in sorted(zip(gs, ks, rs), key=lambda t: (t[0], t[1])):
        per.setdefault(g, []).append(v)
    return [per.get("g%05d" % i, RAISED) for i in range(len(lists))]


# ------------------------------------------------------------------------------------------------ judging cases in Coq
def scalar_case_term(backend, op, lits, args, o):
    return "(mk_scase %s %s %s %s %s)" % (BK[backend], cstr(op), clist(["true" if l else "false" for l in lits]),
                                          clist([csv(a, nan_is_null=False) for a in args]), cobs(o, backend == "polars"))


def agg_case_term(backend, cl, op, vals, o):
    obs = "None" if o is RAISED else "(Some %s)" % clist([csv(x, nan_is_null=(backend != "polars")) for x in o])
    return "(mk_acase %s %s %s %s %s)" % (BK[backend], CLS[cl], cstr(op), clist([csv(a, nan_is_null=False) for a in vals]), obs)


def decode(res, prefix, n, per_):
    o, m, d, errors = [], [], [], []
    for k in range(0, n, per_):
        rc, out = res["%s_%d" % (prefix, k // per_)]
        ls = nat_lists(out)
        if rc != 0 or len(ls) != 1:
            errors.append(out[-1500:])
            continue
        for code in ls[0]:
            i, c = k + code // 8, code % 8
            if c & 1:
                o.append(i)
            if c & 2:
                m.append(i)
            if c & 4:
                d.append(i)
    return o, m, d, errors


# ------------------------------------------------------------------------------------------------ the check
def run(chk):
    tier = chk.tier
    chk.prove([], extra_vo=["theories/Model/ScalarCases.vo"])
    chk.cov["trusted_base"] = [
        "Coq 8.16.1 kernel + vm_compute",
        "Model/Scalar.v spec_method / spec_agg / spec_win: the documented meaning, written from the Term.* docstrings of expr_rep.py (operators without docstring: Python operator meaning, nulls propagate)",
        "Model/SqlTemplates.v, Model/AggModels.v: hand model of SQLite 3.40 / PostgreSQL scalar operators, functions and aggregates (three-valued logic, NULL propagation, SQLite % casts to INTEGER, round() half away from zero, the user functions of SQLite.py prepare_connection transcribed) -- modelled, not verified; the SQLite part is run against the real engine on the whole grid, the PostgreSQL engine part is formal only (no server)",
        "Model/ScalarBackends.v, Model/AggModels.v: hand models of the numpy / pandas / polars primitives -- run against pandas 3.0.5 / polars 1.44.2 on the whole grid",
        "Model/ScalarCatalog.v: frozen copy of op_catalog.methods_table and of the formatter / impl-map key sets, compared with /repo inside Coq on every run",
        "harness/props/C05.py: grid generation, conversion of observed cells to exact rationals, reference values of the transcendental symbols from Python's math module (compared with the 1e-8 relative rule)"]
    chk.assumptions = [
        "argument tuples outside the documented domain are not constrained: comparison / and / or / is_in / concat with a missing operand, division by zero, `/` with infinite operands, % mod remainder outside non-negative-integer dividend and positive-integer divisor (destination conventions), exact .5 ties of round/around, floor/ceil/round of +-inf, is_nan of a missing cell and is_null of a distinguishable NaN, coalesce of a distinguishable NaN, as_str / as_int64 of non-strings / non-integers, transcendental functions outside their mathematical domain or at +-inf, x**0 and 1**y with a missing operand; aggregates over groups with no present value, nunique / cumulative functions / shift / first / last / rank over groups with missing cells, rank with ties, any_value over differing values",
        "numeric columns are float columns (integer `/` and `%` conventions of the destination are excluded by the property); a missing cell of a Pandas float column is NaN; uploads write NaN as NULL",
        "PostgreSQL: no server in the sandbox; the PostgreSQL templates are tied structurally (rendered text) and behaviourally by executing the PostgreSQL-dialect text on SQLite (is_inf / is_bad text, abs / sign of infinity and STDDEV_SAMP / VAR_SAMP are not meaningful there and are excluded from the oracle); the PostgreSQL engine model is formal only",
        "date / time methods (15 catalogue rows) are outside the modelled value domain: not covered (partial); _count / _ngroup / _uniform have no documented value",
        "mapv dictionaries with infinite values (not expressible in expression text; Pandas replaces them by the default: theorem C05_pandas_mapv_infinite_value_refuted) are not exercised",
        "transcendental functions are one uninterpreted symbol shared by specification and backends; which library function the symbol is bound to is checked on the grid only"]
    chk.cov["rule"] = ("exhaustive grid: every class-e catalogue expression (plus %d extra one-method expressions, plus every method of arity >= 2 with a literal 0 / 2.5 / 2 / 'a' / True in each argument position) x every tuple of the per-type grid "
                       "(numbers: null, +-inf, 0, +-1, +-2.5, 3 [+ NaN on Polars; thorough: 0.5, -0.25, 7, 100.75, -1000]; integers: null, 0,1,2,3,7,-1,-3; strings: null, '', 'a', \"a'b\", 'abcdef'; booleans: True, False, null) "
                       "inside the documented domain (decided by spec_method in Coq); every class p/g/w catalogue row x every group of 1..2 cells over null,0,1,-1,2.5,3 and of 3 cells over null,1,2.5 (thorough: 1..3 cells over the full grid and 4 cells over null,1,2.5; booleans: True,False,null up to 3 / 5 cells) inside the domain; the corpus /verif/corpus/C05 first; "
                       "4 backends; non-trivial = at least one non-null argument; distinct by (backend, expression, tuple)" % len(EXTRA_EXPR))
    sys.path.insert(0, lib.REPO)
    rn = Runner()
    variant = detect_variant(rn)
    chk.cov["variant"] = variant
    vterm = cvariant(variant)
    cat_rows, keys, reps = read_tables()
    exprs, unmodelled = build_exprs(cat_rows)
    text, names = catalog_file(cat_rows, keys, reps, exprs)
    aggs = []
    for (etext, op, cl, pdy, sqy, pgy) in cat_rows:
        if cl not in CLS or op in UNDOCUMENTED:
            continue
        try:
            aggs.append(AggExpr(etext, op, cl, {"pandas": pdy == "y", "sqlite": sqy == "y", "pgtext": pgy == "y", "polars": True}))
        except Exception as ex:
            unmodelled.append((etext, "does not build: %s" % type(ex).__name__))
    # ---- corpus of past failures (minimised): their rows / groups are run first, on the backends they name
    corpus = []
    cdir = os.path.join(lib.ROOT, "corpus", "C05")
    if os.path.isdir(cdir):
        for n in sorted(os.listdir(cdir)):
            if n.endswith(".json"):
                try:
                    c = json.load(open(os.path.join(cdir, n)))
                    c["name"] = n
                    corpus.append(c)
                except ValueError:
                    chk.corr_break("corpus file %s is not valid JSON" % n, n)
    chk.cov["distribution"]["corpus_files"] = len(corpus)

    def cell(v):
        return float(v) if isinstance(v, (int, float)) and not isinstance(v, bool) else v
    cands = []                                    # (expr index, polars-only flag, row, args)
    for c in corpus:
        if c.get("family") == "scalar":
            ei = next((i for i, e in enumerate(exprs) if e.text == c["expr"]), None)
            if ei is None:
                e = Expr(c["expr"], "corpus")
                e.support = {b: True for b in BACKENDS}
                exprs.append(e)
                ei = len(exprs) - 1
            for row in c["rows"]:
                row = [cell(v) for v in row]
                cands.append((ei, False, row, exprs[ei].args_of(row)))
    # ---- phase 0: which grid tuples / groups are inside the documented domain
    for ei, e in enumerate(exprs):
        base = set()
        for row in e.grid(tier, polars=False):
            base.add(tuple(repr(x) for x in row))
            cands.append((ei, False, row, e.args_of(row)))
        for row in e.grid(tier, polars=True):
            if tuple(repr(x) for x in row) not in base:
                cands.append((ei, True, row, e.args_of(row)))
    def representable(op, args):
        """transcendental results that overflow a double have no reference value: such tuples are skipped (and counted)"""
        fin = [a for a in args if isinstance(a, float) and not math.isinf(a) and not math.isnan(a)]
        try:
            if op in MATH1 and len(args) == 1 and len(fin) == 1:
                v = MATH1[op](fin[0])
                return not (math.isinf(v) or math.isnan(v))
            if op == "**" and len(fin) == 2:
                v = math.pow(fin[0], fin[1])
                return not (math.isinf(v) or math.isnan(v)) and (v != 0.0 or fin[0] == 0.0)
        except (ValueError, ZeroDivisionError):
            return True                              # outside the mathematical domain: the specification decides
        except OverflowError:
            return False
        return True
    n0 = len(cands)
    cands = [c for c in cands if representable(exprs[c[0]].op, c[3])]
    chk.cov["distribution"]["skipped_overflowing_tuples"] = n0 - len(cands)
    dom_keys, dom_terms, dom_of = {}, [], []
    for ei, _, _, args in cands:
        t = "(%s, %s)" % (cstr(exprs[ei].op), clist([csv(a, nan_is_null=False) for a in args]))
        if t not in dom_keys:
            dom_keys[t] = len(dom_terms)
            dom_terms.append(t)
        dom_of.append(dom_keys[t])
    acands, akeys, aterms, adom_of = [], {}, [], []          # (agg index, cells, argument values)
    for ai, ae in enumerate(aggs):
        extra = [[cell(v) for v in g] for c in corpus if c.get("family") == "aggregate" and c["expr"] == ae.text and c["class"] == ae.cl for g in c["groups"]]
        for lst in extra + agg_lists(tier, ae.boolean):
            vals = ae.vals_of(lst)
            t = "(%s, %s, %s)" % (CLS[ae.cl], cstr(ae.op), clist([csv(a, nan_is_null=False) for a in vals]))
            if t not in akeys:
                akeys[t] = len(aterms)
                aterms.append(t)
            acands.append((ai, lst, vals))
            adom_of.append(akeys[t])
    # The set of candidate tuples inside the documented domain is a pure function of the specification (Model/Scalar.v,
    # Model/AggModels.v spec_cls, Model/ScalarCases.v) and of the candidate list: it is cached under the hash of exactly those
    # inputs (committed file harness/props/C05_domain_cache.json; scratch copy under coq/cases).  Every judged case is still
    # re-checked to be inside the domain by Coq in the final pass (code 4), so a stale cache cannot hide anything.
    import hashlib
    hh = hashlib.sha256()
    for f in ("theories/Model/Scalar.v", "theories/Model/AggModels.v", "theories/Model/ScalarCases.v"):
        hh.update(open(os.path.join(lib.COQ, f), "rb").read())
    hh.update("\n".join(dom_terms).encode())
    hh.update("\n".join(aterms).encode())
    dkey = tier + ":" + hh.hexdigest()
    cache_paths = [os.path.join(lib.ROOT, "harness", "props", "C05_domain_cache.json"), os.path.join(lib.COQ, "cases", "C05_domain_cache.json")]
    cached = None
    for cp in cache_paths:
        try:
            cj = json.load(open(cp))
            if dkey in cj:
                cached = cj[dkey]
                break
        except (OSError, ValueError):
            pass
    files = [("C05_cat", text)]
    per = min(2500, max(800, (len(dom_terms) + 3) // 4))
    aper = min(2500, max(800, (len(aterms) + 1) // 2))
    if cached is None:
        for k in range(0, len(dom_terms), per):
            files.append(("C05_dom_%d" % (k // per), PRE + "Definition cs := %s.\nEval vm_compute in inside_domain cs.\n" % clist(dom_terms[k:k + per])))
        for k in range(0, len(aterms), aper):
            files.append(("C05_adom_%d" % (k // aper), PRE + "Definition cs := %s.\nEval vm_compute in inside_agg_domain cs.\n" % clist(aterms[k:k + aper])))
    chk.cov["distribution"]["domain_filter"] = "cached" if cached is not None else "computed"
    chk.cov["distribution"]["t_before_phase0_s"] = round(time.time() - chk.t0, 1)
    cat_file = files[0]
    res = run_coq(files[1:]) if cached is None else {}
    chk.cov["distribution"]["t_after_phase0_s"] = round(time.time() - chk.t0, 1)
    for text_, why in unmodelled:
        chk.corr_break("catalogue row %r is not modelled (%s)" % (text_, why), {"expression": text_})
    indom_t, aindom_t = set(), set()
    if cached is not None:
        indom_t, aindom_t = set(cached["scalar"]), set(cached["aggregate"])
    else:
        ok = True
        for k in range(0, len(dom_terms), per):
            rc, out = res["C05_dom_%d" % (k // per)]
            ls = nat_lists(out)
            if rc != 0 or len(ls) != 1:
                chk.corr_break("domain filter file failed to compile", out[-1500:])
                ok = False
                continue
            indom_t.update(k + i for i in ls[0])
        for k in range(0, len(aterms), aper):
            rc, out = res["C05_adom_%d" % (k // aper)]
            ls = nat_lists(out)
            if rc != 0 or len(ls) != 1:
                chk.corr_break("aggregate domain filter file failed to compile", out[-1500:])
                ok = False
                continue
            aindom_t.update(k + i for i in ls[0])
        if ok:
            try:
                cp = cache_paths[1]
                os.makedirs(os.path.dirname(cp), exist_ok=True)
                try:
                    cj = json.load(open(cp))
                except (OSError, ValueError):
                    cj = {}
                cj[dkey] = {"scalar": sorted(indom_t), "aggregate": sorted(aindom_t)}
                json.dump(cj, open(cp, "w"))
            except OSError:
                pass
    indom = [ci for ci in range(len(cands)) if dom_of[ci] in indom_t]
    aindom = [ci for ci in range(len(acands)) if adom_of[ci] in aindom_t]
    chk.cov["distribution"].update({"candidate_tuples": len(cands), "in_domain_tuples": len(indom),
                                    "candidate_groups": len(acands), "in_domain_groups": len(aindom)})
    # ---- run the real backends: scalar expressions
    cases, meta, nraise = [], [], 0
    per_expr = {}
    for ci in indom:
        ei, ponly, row, args = cands[ci]
        per_expr.setdefault(ei, []).append((ponly, row, args))
    for ei, items in per_expr.items():
        e = exprs[ei]
        types = {c: COLTYPE[c] for c in e.ucols}
        for backend in BACKENDS:
            rows = [(row, args) for ponly, row, args in items if backend == "polars" or not ponly]
            if not rows:
                continue
            obs = rn.run(backend, e.ops, e.ucols, types, [r for r, _ in rows])
            for (row, args), o in zip(rows, obs):
                if o is RAISED:
                    nraise += 1
                    chk.dist("raised_" + backend)
                cases.append(scalar_case_term(backend, e.op, e.lits, args, o))
                meta.append({"expr": e.text, "op": e.op, "backend": backend, "row": row, "args": args, "lits": e.lits,
                             "observed": "<raised>" if o is RAISED else repr(o), "supported": e.support[backend], "cols": e.ucols})
                chk.count((backend, e.text, repr(row)), nontrivial=any(v is not None for v in row))
                chk.dist("op_" + e.op)
        if len(chk.cov["samples"]) < 4 and items:
            chk.sample({"expr": e.text, "row": repr(items[0][1]), "backends": list(BACKENDS)})
    # ---- aggregates / windows
    acases, ameta = [], []
    per_agg = {}
    for ci in aindom:
        ai, lst, vals = acands[ci]
        per_agg.setdefault(ai, []).append((lst, vals))
    for ai, items in per_agg.items():
        ae = aggs[ai]
        for backend in BACKENDS:
            obs = run_agg(rn, backend, ae, [l for l, _ in items])
            for (lst, vals), o in zip(items, obs):
                if o is RAISED:
                    nraise += 1
                    chk.dist("raised_" + backend)
                acases.append(agg_case_term(backend, ae.cl, ae.op, vals, o))
                ameta.append({"expr": ae.text, "op": ae.op, "class": ae.cl, "backend": backend, "cells": lst, "vals": vals,
                              "observed": "<raised>" if o is RAISED else repr(o), "supported": ae.support[backend]})
                chk.count((backend, ae.cl, ae.text, repr(lst)), nontrivial=any(v is not None for v in lst))
                chk.dist("agg_" + ae.cl + "_" + ae.op)
        if len(chk.cov["samples"]) < 6 and items:
            chk.sample({"expr": ae.text, "class": ae.cl, "group": repr(items[-1][0])})
    # ---- structural tie: rendered SQL text
    rcases, rmeta, arcases, armeta = [], [], [], []
    for e in exprs:
        for dname, model in (("DSqlite", rn.sq), ("DPg", rn.pg)):
            try:
                term = sql_term(e.ops, model)
            except Exception:
                term = None
            if term is None:
                chk.corr_break("could not isolate the SQL term of %r" % e.text, {"expr": e.text})
                continue
            atoms = []
            for s in e.slots:
                if s[0] == "col":
                    atoms.append('(false, %s, SNull)' % cstr(model.quote_identifier(s[1])))
                else:
                    atoms.append('(true, %s, %s)' % (cstr(model.value_to_sql(s[1])), csv(lit_value(s[1]))))
            rcases.append("(mk_rcase %s %s %s %s %s)" % (vterm, dname, cstr(e.op), clist(atoms), cstr(term)))
            rmeta.append({"expr": e.text, "dialect": dname, "sql": term})
    for ae in aggs:
        for dname, model in (("DSqlite", rn.sq), ("DPg", rn.pg)):
            if not ae.support["sqlite" if dname == "DSqlite" else "pgtext"]:
                continue                               # only the pairs the catalogue claims are tied
            try:
                term = sql_term(ae.ops, model)
            except Exception:
                term = None
            if term is None:
                continue                               # not renderable: nothing to tie
            core = term.split(" OVER ")[0].strip()
            col = model.quote_identifier(ae.col) if ae.argkind == "col" else (model.value_to_sql(ae.lit) if ae.argkind == "lit" else "")
            arcases.append("(mk_arcase %s %s %s %s)" % (dname, cstr(ae.op), cstr(col), cstr(core)))
            armeta.append({"expr": ae.text, "class": ae.cl, "dialect": dname, "sql": core})
    rn.close()
    chk.cov["distribution"]["t_backends_s"] = round(time.time() - chk.t0, 1)
    # one parallel Coq wave: scalar, aggregate and render cases.  Identical cases (same backend, method, arguments and observation,
    # reached through different expressions) are judged once; only the files that need them carry the reference tables of the
    # transcendental symbols
    m1, m2 = math_tables([(exprs[ei].op, args) for ei, _, _, args in cands], [vals for _, _, vals in acands])
    head_math = PRE + "Definition mt1 : mtab := %s.\nDefinition mt2 : mtab2 := %s.\n" % (m1, m2)
    head_plain = PRE + "Definition mt1 : mtab := [].\nDefinition mt2 : mtab2 := [].\n"

    def uniq(terms):
        index, order, back = {}, [], []
        for t in terms:
            if t not in index:
                index[t] = len(order)
                order.append(t)
            back.append(index[t])
        return order, back
    needs_math = lambda m: m["op"] in MATH1 or m["op"] in ("**", "arctan2", "std")
    groups = {}                                       # name -> (head, checker, unique terms, back-map to case indices)
    for name, allterms, allmeta, checker in (("C05_s", cases, meta, "check_all"), ("C05_a", acases, ameta, "check_agg")):
        for kind, head in (("m", head_math), ("p", head_plain)):
            idx = [i for i in range(len(allterms)) if needs_math(allmeta[i]) == (kind == "m")]
            order, back = uniq([allterms[i] for i in idx])
            groups[name + kind] = (head, checker, order, idx, back)
    sfiles, layout = [], {}
    for gname, (head, checker, order, idx, back) in groups.items():
        per_ = min(2000, max(400, (len(order) + 5) // 6))
        layout[gname] = per_
        for k in range(0, len(order), per_):
            sfiles.append(("%s_%d" % (gname, k // per_), head + "Definition cs := %s.\nEval vm_compute in %s mt1 mt2 %s cs.\n" % (clist(order[k:k + per_]), checker, vterm)))
    sfiles.append(cat_file)
    sfiles.append(("C05_render", PRE + "Definition rs := %s.\nEval vm_compute in check_render rs.\nDefinition ars := %s.\nEval vm_compute in check_agg_render ars.\n" % (clist(rcases), clist(arcases))))
    if os.environ.get("C05_KEEP"):
        for n_, t_ in sfiles:
            open(os.path.join(os.environ["C05_KEEP"], n_ + ".v"), "w").write(t_)
    chk.cov["distribution"]["coq_case_files"] = len(sfiles)
    chk.cov["distribution"]["distinct_cases_judged"] = sum(len(g[2]) for g in groups.values())
    res = run_coq(sfiles)
    chk.cov["distribution"]["t_after_cases_s"] = round(time.time() - chk.t0, 1)

    def gather(name):
        o, m, d, errs = [], [], [], []
        for kind in ("m", "p"):
            head, checker, order, idx, back = groups[name + kind]
            uo, um, ud, e = decode(res, name + kind, len(order), layout[name + kind])
            errs += e
            uo, um, ud = set(uo), set(um), set(ud)
            for pos, u in enumerate(back):
                if u in uo:
                    o.append(idx[pos])
                if u in um:
                    m.append(idx[pos])
                if u in ud:
                    d.append(idx[pos])
        return sorted(o), sorted(m), sorted(d), errs
    rc, out = res["C05_cat"]
    diffs = nat_lists(out)
    if rc != 0 or len(diffs) != 1:
        chk.corr_break("catalogue comparison file failed to compile", out[-1500:])
    else:
        for i in diffs[0]:
            chk.corr_break("the %s of /repo differs from the frozen table in Model/ScalarCatalog.v (a method / formatter key was added, removed or re-marked)" % names[i],
                           {"table": names[i]})
    oracle_fail, model_fail, dom_fail, errors = gather("C05_s")
    aoracle_fail, amodel_fail, adom_fail, aerrors = gather("C05_a")
    errors += aerrors
    rc, out = res["C05_render"]
    ls = nat_lists(out)
    if rc != 0 or len(ls) != 2:
        errors.append(out[-1500:])
        render_fail, arender_fail = [], []
    else:
        render_fail, arender_fail = ls
    chk.cov["correspondence"] = {"scalar_cases": len(cases), "scalar_model_disagreements": len(model_fail), "aggregate_cases": len(acases),
                                 "aggregate_model_disagreements": len(amodel_fail), "render_cases": len(rcases) + len(arcases),
                                 "render_disagreements": len(render_fail) + len(arender_fail), "raised": nraise, "errors": errors[:2]}
    chk.cov["traces_validated_against_impl"] = len(cases) + len(acases) + len(rcases) + len(arcases)
    if errors:
        chk.corr_break("correspondence case files failed to compile", errors[0])
    for i in dom_fail[:3]:
        chk.corr_break("a grid tuple left the documented domain between the two Coq passes", meta[i])
    for i in adom_fail[:3]:
        chk.corr_break("a group left the documented domain between the two Coq passes", ameta[i])
    for i in render_fail[:5]:
        chk.corr_break("SQL text of %s (%s) differs from the template of Model/SqlTemplates.v" % (rmeta[i]["expr"], rmeta[i]["dialect"]), rmeta[i])
    for i in arender_fail[:5]:
        chk.corr_break("SQL text of %s (%s) differs from the template of Model/AggModels.v" % (armeta[i]["expr"], armeta[i]["dialect"]), armeta[i])
    seen_model = set()
    model_fail = [i for i in model_fail if meta[i]["supported"]]          # the models (and the theorems) speak about the claimed pairs
    amodel_fail = [i for i in amodel_fail if ameta[i]["supported"]]
    chk.cov["correspondence"]["scalar_model_disagreements"] = len(model_fail)
    chk.cov["correspondence"]["aggregate_model_disagreements"] = len(amodel_fail)
    for i in model_fail:
        m = meta[i]
        if (m["op"], m["backend"]) not in seen_model:
            seen_model.add((m["op"], m["backend"]))
            chk.corr_break("backend model of %s on %s disagrees with the implementation" % (m["op"], m["backend"]), m)
    for i in amodel_fail:
        m = ameta[i]
        if (m["op"], m["class"], m["backend"]) not in seen_model:
            seen_model.add((m["op"], m["class"], m["backend"]))
            chk.corr_break("backend model of %s (class %s) on %s disagrees with the implementation" % (m["op"], m["class"], m["backend"]), m)
    # ---- oracle failures: only pairs the catalogue marks supported (Polars: every method, when it does not raise)
    seen_sig, nviol = set(), 0
    for i in oracle_fail:
        m = meta[i]
        if not m["supported"]:
            chk.dist("unsupported_pair_differs")
            continue
        if m["backend"] == "pgtext" and not pgtext_oracle_applies(m["op"], m["args"]):
            continue
        sig = signature(m["op"], m["backend"], m["args"], m["lits"])
        key = json.dumps(sig, sort_keys=True)
        if key in seen_sig:
            continue
        seen_sig.add(key)
        nviol += 1
        chk.impl_violation("%s on %s: value differs from the documented meaning (argument classes %s)" % (m["op"], m["backend"], sig["classes"]),
                           {"kind": "impl-violation", "family": "scalar", "expr": m["expr"], "backend": m["backend"], "cols": m["cols"], "row": m["row"],
                            "observed": m["observed"], "variant": variant}, sig)
    for i in aoracle_fail:
        m = ameta[i]
        if not m["supported"]:
            chk.dist("unsupported_pair_differs")
            continue
        if m["backend"] == "pgtext" and m["op"] in ("std", "var"):
            continue
        sig = {"family": "aggregate", "method": m["op"], "backend": m["backend"], "class": m["class"],
               "null_pattern": "".join("N" if v is None else "V" for v in m["cells"])}
        key = json.dumps({k: v for k, v in sig.items() if k != "null_pattern"}, sort_keys=True)      # one report per (method, class, backend): the first group
        if key in seen_sig:
            continue
        seen_sig.add(key)
        nviol += 1
        chk.impl_violation("%s (class %s) on %s: value differs from the documented meaning" % (m["op"], m["class"], m["backend"]),
                           {"kind": "impl-violation", "family": "aggregate", "expr": m["expr"], "class": m["class"], "backend": m["backend"], "cells": m["cells"],
                            "observed": m["observed"], "variant": variant}, sig)
    if os.environ.get("C05_DEBUG"):
        json.dump({"model": [meta[i] for i in model_fail], "oracle": [meta[i] for i in oracle_fail], "render": [rmeta[i] for i in render_fail],
                   "amodel": [ameta[i] for i in amodel_fail], "aoracle": [ameta[i] for i in aoracle_fail], "arender": [armeta[i] for i in arender_fail],
                   "breaks": [b["what"] for b in getattr(chk, "pending_breaks", [])], "errors": errors}, open(os.environ["C05_DEBUG"], "w"), indent=1, default=repr)
    chk.cov["oracle"] = {"supported_pairs_checked": len(set((m["op"], m["backend"]) for m in meta if m["supported"])) + len(set((m["op"], m["class"], m["backend"]) for m in ameta if m["supported"])),
                         "oracle_failures_on_supported_pairs": sum(1 for i in oracle_fail if meta[i]["supported"]) + sum(1 for i in aoracle_fail if ameta[i]["supported"]),
                         "distinct_failure_signatures": nviol}


# ------------------------------------------------------------------------------------------------ replay
def replay(path):
    """re-run one stored failing input against the real code and judge it with the specification in Coq; 1 = still fails"""
    r = json.load(open(path))
    if r.get("kind") != "impl-violation":
        print(json.dumps(r, indent=1)[:3000])
        return 1
    sys.path.insert(0, lib.REPO)
    rn = Runner()
    variant = detect_variant(rn)

    def cell(v):
        return float(v) if isinstance(v, (int, float)) and not isinstance(v, bool) else v
    if r["family"] == "scalar":
        e = Expr(r["expr"], "replay")
        row = [cell(v) for v in r["row"]]
        obs = rn.run(r["backend"], e.ops, e.ucols, {c: COLTYPE[c] for c in e.ucols}, [row])[0]
        args = e.args_of(row)
        m1, m2 = math_tables([(e.op, args)])
        text = (PRE + "Definition mt1 : mtab := %s.\nDefinition mt2 : mtab2 := %s.\n" % (m1, m2)
                + "Definition cs := [%s].\nEval vm_compute in check_all mt1 mt2 %s cs.\n" % (scalar_case_term(r["backend"], e.op, e.lits, args, obs), cvariant(variant)))
        print("expression %s on %s, row %r: observed %s" % (r["expr"], r["backend"], row, "<raised>" if obs is RAISED else repr(obs)))
    else:
        cat_rows, _, _ = read_tables()
        row = [c for c in cat_rows if c[0] == r["expr"] and c[2] == r["class"]][0]
        ae = AggExpr(row[0], row[1], row[2], {})
        cells = [cell(v) for v in r["cells"]]
        obs = run_agg(rn, r["backend"], ae, [cells])[0]
        vals = ae.vals_of(cells)
        m1, m2 = math_tables([], [vals])
        text = (PRE + "Definition mt1 : mtab := %s.\nDefinition mt2 : mtab2 := %s.\n" % (m1, m2)
                + "Definition cs := [%s].\nEval vm_compute in check_agg mt1 mt2 %s cs.\n" % (agg_case_term(r["backend"], ae.cl, ae.op, vals, obs), cvariant(variant)))
        print("%s (class %s) on %s, group %r: observed %s" % (r["expr"], r["class"], r["backend"], cells, "<raised>" if obs is RAISED else repr(obs)))
    rn.close()
    rc, out = run_coq([("C05_replay", text)])["C05_replay"]
    ls = nat_lists(out)
    if rc != 0 or len(ls) != 1:
        print(out[-1500:])
        return 1
    bad = any(c % 8 & 1 for c in ls[0])
    print("documented value %s" % ("VIOLATED" if bad else "respected"))
    return 1 if bad else 0
