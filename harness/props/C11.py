"""C11 -- pipelines that compare equal behave identically.
proof:  Props/C11.v about the hand model Model/Equiv.v (pipeline_eqb = ViewRepresentation.__eq__ / *._equiv_nodes /
        TableDescription.__eq__ / *.is_equal / RecordMap.__eq__ / RecordSpecification.__eq__ field by field; the six
        comparisons the code used to forget are kept as switches, all off = the code as it is now)
tie:    correspondence: every pipeline with all its single-field mutants and rebuilt copies; `a == b`, `b == a` and
        column_names observed on the real objects vs pipeline_eqb / ecolumn_names, compared inside Coq
oracle: (property text, real code) p == p, p == rebuild(p); (a == b) == (b == a); whenever a == b: identical to_sql
        text for the SQLite and PostgreSQL models and identical Pandas results (column order, row order) on random inputs"""
import copy, json, math, os, re, warnings, glob
from fractions import Fraction
import lib
from lib import clist, cstr, cbool

warnings.filterwarnings("ignore")
N = {"quick": (56, 24), "thorough": (600, 40)}       # base pipelines, mutants kept per pipeline (every family is always kept)


# ------------------------------------------------------------------------------------------- scripts (pipes.py + extensions)
# extensions: table nodes carry "columns" (and optional "qualifiers"); extend ops may be {"py": [kind, value]} (a raw
# Python constant); {"op": "convert_records", "src": .., "recmap": {"blocks_in": spec|None, "blocks_out": spec|None, "strict": b}}
# with spec = {"record_keys": [..], "control_table": {col: [cells]}, "control_table_keys": [..], "strict": b}

def decode_val(v):
    if isinstance(v, dict) and "py" in v:
        kind, val = v["py"]
        if kind == "int":
            return int(val)
        if kind == "float":
            return float(val)
        if kind == "bool":
            return bool(val)
        if kind == "none":
            return None
        if kind == "nan":
            return float("nan")
        raise ValueError(kind)
    return v


def build_spec(s):
    import pandas as pd
    from data_algebra.cdata import RecordSpecification
    if s is None:
        return None
    return RecordSpecification(pd.DataFrame({k: list(v) for k, v in s["control_table"].items()}), record_keys=list(s["record_keys"]),
                               control_table_keys=list(s["control_table_keys"]), strict=bool(s["strict"]))


def build_recmap(r):
    from data_algebra.cdata import RecordMap
    return RecordMap(blocks_in=build_spec(r["blocks_in"]), blocks_out=build_spec(r["blocks_out"]), strict=bool(r["strict"]))


def build(script, memo=None):
    """script -> real operator DAG through the public builder API (shared sub-scripts become shared nodes)"""
    import pipes
    from data_algebra.data_ops import TableDescription
    memo = {} if memo is None else memo
    key = id(script)
    if key in memo:
        return memo[key]
    op = script["op"]
    if op == "table":
        r = TableDescription(table_name=script["name"], column_names=list(script["columns"]), qualifiers=script.get("qualifiers"))
    else:
        src = build(script["src"], memo)
        if op == "extend":
            r = src.extend({k: decode_val(v) for k, v in script["ops"].items()}, partition_by=script.get("partition_by") or None,
                           order_by=script.get("order_by") or None, reverse=script.get("reverse") or None)
        elif op == "convert_records":
            r = src.convert_records(build_recmap(script["recmap"]))
        else:
            # "share_b": the second operand of a join / concat is the very node OBJECT of the first operand (a DAG with a shared
            # interior node, `a.concat_rows(a)`); the script still carries a structural copy under "b" for the mutants
            r = pipes.apply_step(src, script, lambda b: src if script.get("share_b") else build(b, memo))
    memo[key] = r
    return r


def unshare(script):
    """the same pipeline built as a tree: every operand built separately (no node object used twice)"""
    s = json.loads(json.dumps(script))
    for _, n in walk(s):
        n.pop("share_b", None)
    return s


def walk(script, path=()):
    """all (path, node) of a script; a path is a tuple of 'src' / 'b'"""
    yield path, script
    if script["op"] != "table":
        yield from walk(script["src"], path + ("src",))
        if "b" in script:
            yield from walk(script["b"], path + ("b",))


def node_at(script, path):
    for k in path:
        script = script[k]
    return script


def with_node(script, path, new_node):
    """deep copy of script (sharing flattened) with the node at path replaced"""
    s = json.loads(json.dumps(script))
    if not path:
        return json.loads(json.dumps(new_node))
    parent = node_at(s, path[:-1])
    parent[path[-1]] = json.loads(json.dumps(new_node))
    return s


def normalise(script, tmap):
    """give every table node its column list (scripts of pipes.Gen only name the table)"""
    s = json.loads(json.dumps(script))
    for _, n in walk(s):
        if n["op"] == "table" and "columns" not in n:
            n["columns"] = [c for c, _ in tmap[n["name"]]["spec"]]
    return s


# ------------------------------------------------------------------------------------------- mutation of one field

NUM = re.compile(r"(?<![A-Za-z_0-9.'])(\d+\.\d+|\d+)(?![A-Za-z_0-9.'])")
STR = re.compile(r"'([^']*)'")
IDENT = re.compile(r"(?<![A-Za-z_0-9.'])([A-Za-z_][A-Za-z_0-9]*)(?![A-Za-z_0-9(']|\s*\()")
LIST = re.compile(r"\[([^\]]*)\]")
METHOD_SWAP = {"maximum": "minimum", "minimum": "maximum", "cumsum": "cummax", "cummax": "cummin", "cummin": "cumsum", "sum": "max",
               "max": "min", "min": "mean", "mean": "sum", "count": "sum", "abs": "is_null", "is_null": "is_bad", "coalesce": "maximum"}
OP_SWAP = [(" + ", " - "), (" - ", " + "), (" * ", " + "), (" <= ", " < "), (" >= ", " > "), (" < ", " <= "), (" > ", " >= "),
           (" == ", " != "), (" != ", " == "), (" and ", " or "), (" or ", " and ")]


def expr_mutants(e, columns):
    """[(kind, family, new expression)] for every single change of an expression given as text or as a raw constant"""
    out = []
    if isinstance(e, dict):
        kind, val = e["py"]
        if kind == "int":
            out += [("const.value", "other", {"py": ["int", val + 1]}), ("const.int_to_float", "const_type", {"py": ["float", float(val)]})]
            if val in (0, 1):
                out.append(("const.int_to_bool", "const_type", {"py": ["bool", bool(val)]}))
        elif kind == "float":
            out.append(("const.value", "other", {"py": ["float", val + 0.5]}))
            if float(val).is_integer():
                out.append(("const.float_to_int", "const_type", {"py": ["int", int(val)]}))
        elif kind == "bool":
            out += [("const.value", "other", {"py": ["bool", not val]}), ("const.bool_to_int", "const_type", {"py": ["int", int(val)]})]
        elif kind == "none":
            out.append(("const.none_to_nan", "other", {"py": ["nan", None]}))
        elif kind == "nan":
            out.append(("const.nan_to_none", "other", {"py": ["none", None]}))
        return out
    in_list = [(m.start(1), m.end(1)) for m in LIST.finditer(e)]

    def inside_list(pos):
        return any(a <= pos < b for a, b in in_list)
    for m in NUM.finditer(e):
        txt = m.group(1)
        pre, post = e[:m.start(1)], e[m.end(1):]
        fam_val = "list_items" if inside_list(m.start(1)) else "other"
        if "." in txt:
            v = float(txt)
            out.append(("const.value", fam_val, pre + repr(v + 0.5) + post))
            if v.is_integer() and not inside_list(m.start(1)):
                out.append(("const.float_to_int", "const_type", pre + str(int(v)) + post))
        else:
            v = int(txt)
            out.append(("const.value", fam_val, pre + str(v + 1) + post))
            if not inside_list(m.start(1)):
                out.append(("const.int_to_float", "const_type", pre + str(v) + ".0" + post))
                if v in (0, 1):
                    out.append(("const.int_to_bool", "const_type", pre + str(bool(v)) + post))
    for m in STR.finditer(e):
        fam = "list_items" if inside_list(m.start(1)) else "other"
        out.append(("const.str", fam, e[:m.start(1)] + (m.group(1) + "q") + e[m.end(1):]))
    for a, b in OP_SWAP:
        i = e.find(a)
        if i >= 0:
            out.append(("operator", "other", e[:i] + b + e[i + len(a):]))
    for m in re.finditer(r"\.([a-z_]+)\(", e):
        if m.group(1) in METHOD_SWAP:
            out.append(("method", "other", e[:m.start(1)] + METHOD_SWAP[m.group(1)] + e[m.end(1):]))
    for m in IDENT.finditer(e):
        c = m.group(1)
        if c in columns:
            for c2 in columns:
                if c2 != c:
                    out.append(("column", "other", e[:m.start(1)] + c2 + e[m.end(1):]))
                    break
    for m in LIST.finditer(e):
        items = [x.strip() for x in m.group(1).split(",") if x.strip()]
        if len(items) > 1:
            out.append(("list.drop_item", "other", e[:m.start(1)] + ", ".join(items[:-1]) + e[m.end(1):]))
            out.append(("list.reorder", "list_items", e[:m.start(1)] + ", ".join(items[1:] + items[:1]) + e[m.end(1):]))
    # arity changes: unary minus <-> subtraction (the one operator built at two arities), dropping / appending an argument
    others = [c for c in columns]
    for m in re.finditer(r"-\s*([A-Za-z_][A-Za-z_0-9]*)", e):
        if m.start() > 0 and re.match(r"[A-Za-z_0-9)\]'.]", e[:m.start()].rstrip()[-1:] or " "):
            # a binary minus `X - name`: drop the second argument by turning `X - name` into `-X` when X is a plain name
            pm = re.search(r"([A-Za-z_][A-Za-z_0-9]*)\s*$", e[:m.start()])
            if pm and pm.group(1) in columns:
                out.append(("arity.binary_to_unary_minus", "arity", e[:pm.start(1)] + "(-" + pm.group(1) + ")" + e[m.end():]))
            continue
        c = m.group(1)
        if c in columns:                      # a unary minus `-name`: append a second argument
            for c2 in ([x for x in others if x != c][:1] + ["1"]):
                out.append(("arity.unary_to_binary_minus", "arity", e[:m.start()] + "(" + c + " - " + c2 + ")" + e[m.end():]))
    for m in re.finditer(r"\.([a-z_]+)\(([^()]*)\)", e):
        args = [x.strip() for x in m.group(2).split(",") if x.strip()]
        if args:
            out.append(("arity.drop_arg", "other", e[:m.start(2)] + ", ".join(args[:-1]) + e[m.end(2):]))
        out.append(("arity.append_arg", "other", e[:m.start(2)] + ", ".join(args + ["1"]) + e[m.end(2):]))
    m = re.search(r"\.shift\(\)", e)
    if m:
        out.append(("shift.arg", "other", e.replace(".shift()", ".shift(2)", 1)))
    return out


def reorders(xs):
    xs = list(xs)
    res = []
    if len(xs) > 1:
        res.append(xs[1:] + xs[:1])
        if len(xs) > 2:
            res.append(xs[::-1])
    return res


def dict_reorders(d):
    return [{k: d[k] for k in ks} for ks in reorders(list(d))]


def spec_mutants(spec, where, in_is_none):
    """single-field changes of one record specification"""
    out = []
    fam = "recmap_blocks_out" if (where == "blocks_out" and in_is_none) else "other"
    ct = spec["control_table"]
    cols = list(ct)
    keys = spec["control_table_keys"]
    for c in cols:
        cells = ct[c]
        new = copy.deepcopy(spec)
        if c in keys:
            new["control_table"][c] = [cells[0] + "k" if isinstance(cells[0], str) else cells[0] + 7] + cells[1:]
            out.append((f"convert.{where}.key_cell", fam, new))
        else:
            if len(cells) > 1 and cells[0] != cells[1]:
                new["control_table"][c] = [cells[1], cells[0]] + cells[2:]
                out.append((f"convert.{where}.swap_cells", fam, new))
    # re-arranging value cells ACROSS columns (with repeated value names under strict=False this can keep the list of
    # distinct names in first-occurrence order and still be another layout)
    vcols = [c for c in cols if c not in keys]
    for i1, c1 in enumerate(vcols):
        for c2 in vcols[i1 + 1:]:
            for r1 in range(len(ct[c1])):
                for r2 in range(len(ct[c2])):
                    if ct[c1][r1] != ct[c2][r2]:
                        new = copy.deepcopy(spec)
                        new["control_table"][c1][r1], new["control_table"][c2][r2] = ct[c2][r2], ct[c1][r1]
                        out.append((f"convert.{where}.swap_cells_across_columns.{r1}{r2}", fam if fam != "other" else "layout_cells", new))
    for ct2 in dict_reorders(ct):
        new = copy.deepcopy(spec)
        new["control_table"] = ct2
        out.append((f"convert.{where}.column_order", fam, new))
    n = len(ct[cols[0]])
    if n > 1:
        new = copy.deepcopy(spec)
        new["control_table"] = {c: ct[c][1:] + ct[c][:1] for c in cols}
        out.append((f"convert.{where}.row_order", fam, new))
    if spec["record_keys"]:
        new = copy.deepcopy(spec)
        new["record_keys"] = spec["record_keys"][:-1]
        out.append((f"convert.{where}.record_keys", fam, new))
    new = copy.deepcopy(spec)
    new["strict"] = not spec["strict"]
    out.append((f"convert.{where}.spec_strict", fam, new))
    return out


def node_mutants(node, src_cols):
    """[(kind, family, new node)] : every single-field change of one step"""
    op = node["op"]
    out = []

    def mk(kind, fam, **changes):
        n = {k: v for k, v in node.items() if k not in ("src", "b")}
        n = json.loads(json.dumps(n))
        n.update(changes)
        for k in ("src", "b"):
            if k in node:
                n[k] = node[k]
        out.append((kind, fam, n))
    if op == "extend" or op == "project":
        ops = node["ops"]
        for k, e in ops.items():
            for kind, fam, e2 in expr_mutants(e, src_cols):
                mk(f"{op}.expr.{kind}", fam, ops={kk: (e2 if kk == k else vv) for kk, vv in ops.items()})
        for d in dict_reorders(ops):
            mk(f"{op}.ops.reorder", "ops_order", ops=d)
        if len(ops) > 1:
            mk(f"{op}.ops.drop", "other", ops={k: v for k, v in list(ops.items())[:-1]})
        if ops:
            k0 = next(iter(ops))
            mk(f"{op}.ops.rename_key", "other", ops={(k + "_r" if k == k0 else k): v for k, v in ops.items()})
        if op == "project":
            gb = node.get("group_by") or []
            for g in reorders(gb):
                mk("project.group_by.reorder", "other", group_by=g)
            if gb:
                mk("project.group_by.drop", "other", group_by=gb[:-1])
        else:
            part = node.get("partition_by") or []
            if isinstance(part, list):
                for p in reorders(part):
                    mk("extend.partition_by.reorder", "other", partition_by=p)
                if part:
                    mk("extend.partition_by.drop", "other", partition_by=part[:-1])
            ob = node.get("order_by") or []
            for o in reorders(ob):
                mk("extend.order_by.reorder", "other", order_by=o)
            rev = node.get("reverse") or []
            for c in ob[:2]:
                mk("extend.reverse.toggle", "other", reverse=[x for x in rev if x != c] if c in rev else rev + [c])
    elif op == "select_rows":
        for kind, fam, e2 in expr_mutants(node["expr"], src_cols):
            mk(f"select_rows.expr.{kind}", fam, expr=e2)
    elif op in ("select_columns", "drop_columns"):
        cs = node["columns"]
        for c in reorders(cs):
            mk(f"{op}.reorder", "other", columns=c)
        if len(cs) > 1:
            mk(f"{op}.drop_one", "other", columns=cs[:-1])
        extra = [c for c in src_cols if c not in cs]
        if extra:
            mk(f"{op}.add_one", "other", columns=cs + extra[:1])
    elif op in ("rename_columns", "map_columns"):
        m = node["map"]
        for d in dict_reorders(m):
            mk(f"{op}.dict_order", "dict_order", map=d)
        k0 = next(iter(m))
        if op == "rename_columns":      # new -> old
            mk("rename_columns.new_name", "other", map={(k + "_r" if k == k0 else k): v for k, v in m.items()})
        else:                            # old -> new
            mk("map_columns.new_name", "other", map={k: (v + "_r" if k == k0 else v) for k, v in m.items()})
        if len(m) > 1:
            mk(f"{op}.drop_entry", "other", map={k: v for k, v in list(m.items())[:-1]})
    elif op == "order_rows":
        cs = node["columns"]
        for c in reorders(cs):
            mk("order_rows.columns.reorder", "other", columns=c)
        if len(cs) > 1:
            mk("order_rows.columns.drop", "other", columns=cs[:-1], reverse=[c for c in (node.get("reverse") or []) if c in cs[:-1]])
        rev = node.get("reverse") or []
        mk("order_rows.reverse.toggle", "other", reverse=[x for x in rev if x != cs[0]] if cs[0] in rev else rev + [cs[0]])
        for c in reorders(rev):
            mk("order_rows.reverse.reorder", "other", reverse=c)
        lim = node.get("limit")
        for l2 in (None, 0, 1, 4):
            if l2 != lim:
                mk("order_rows.limit", "other", limit=l2)
    elif op == "natural_join":
        for jt in ("INNER", "LEFT", "RIGHT", "FULL"):
            if jt != node["jointype"]:
                mk("natural_join.jointype", "other", jointype=jt)
        on = node["on"]
        if len(on) > 1:
            mk("natural_join.on.drop", "other", on=on[:-1])
            mk("natural_join.on.reorder", "other", on=on[1:] + on[:1])
        mk("natural_join.check_flag", "not_stored", check=not node.get("check", False))
    elif op == "concat_rows":
        idc = node["id_column"]
        mk("concat_rows.id_column", "other", id_column=None if idc else "src_name")
        if idc:
            mk("concat_rows.id_column.name", "other", id_column=idc + "_r")
        mk("concat_rows.a_name", "other", a_name=node["a_name"] + "x")
        mk("concat_rows.b_name", "other", b_name=node["b_name"] + "x")
        mk("concat_rows.swap_names", "other", a_name=node["b_name"], b_name=node["a_name"])
    elif op == "convert_records":
        r = node["recmap"]
        if r["blocks_in"] is not None or r["blocks_out"] is not None:
            mk("convert.swap_in_out", "other", recmap={"blocks_in": r["blocks_out"], "blocks_out": r["blocks_in"], "strict": r["strict"]})
        mk("convert.recmap_strict", "not_semantic", recmap=dict(r, strict=not r["strict"]))
        for where in ("blocks_in", "blocks_out"):
            if r[where] is not None:
                for kind, fam, sp in spec_mutants(r[where], where, r["blocks_in"] is None):
                    mk(kind, fam, recmap=dict(r, **{where: sp}))
    return out


def script_mutants(script):
    """[(kind, family, path, mutated script)] -- every single-field mutant of every step, plus table-description mutants"""
    res = []
    for path, node in walk(script):
        if node["op"] == "table":
            continue
        try:
            src_cols = list(build(node["src"]).column_names)
        except Exception:
            src_cols = []
        for kind, fam, n2 in node_mutants(node, src_cols):
            res.append((kind, fam, path, with_node(script, path, n2)))
    names = []
    for path, node in walk(script):
        if node["op"] == "table" and node["name"] not in names:
            names.append(node["name"])
    for name in names:
        def all_tables(change, kind, fam, only_first=False):
            s = json.loads(json.dumps(script))
            done = False
            for _, n in walk(s):
                if n["op"] == "table" and n["name"] == name and not (only_first and done):
                    change(n)
                    done = True
            res.append((kind, fam, (), s))
        all_tables(lambda n: n.update(columns=n["columns"] + ["zz"]), "table.columns.add", "table_description")
        all_tables(lambda n: n.update(columns=n["columns"][1:] + n["columns"][:1]), "table.columns.reorder", "table_description")
        all_tables(lambda n: n.update(columns=n["columns"][:-1]), "table.columns.drop_last", "table_description")
        all_tables(lambda n: n.update(columns=n["columns"][:-1] + [n["columns"][-1] + "_r"]), "table.columns.rename_last", "table_description")
        all_tables(lambda n: n.update(qualifiers={"schema": "s1"}), "table.qualifiers", "table_description")
        all_tables(lambda n: n.update(name=n["name"] + "x"), "table.name", "other")
        all_tables(lambda n: n.update(columns=n["columns"] + ["zz"]), "table.columns.add.one_occurrence", "table_description", only_first=True)
    return res


# ------------------------------------------------------------------------------------------- generation

def extra_step(rng, g, s, colty, order):
    """steps pipes.Gen does not draw: raw constants, nan, list literals"""
    import pipes
    r = rng.random()
    nums, strs = pipes.cols_of(colty, "num"), pipes.cols_of(colty, "str")
    if r < 0.4:
        ops = {}
        for _ in range(rng.randint(1, 2)):
            k = g.newcol({**colty, **ops})
            ops[k] = {"py": rng.choice([["int", 1], ["int", 0], ["int", 3], ["float", 1.0], ["float", 2.5], ["bool", True], ["none", None],
                                        ["int", 1], ["float", 2.0], ["bool", False], ["int", 2], ["nan", None]])}
        if rng.random() < 0.5 and nums:
            ops[g.newcol({**colty, **ops})] = f"{rng.choice(nums)} + {rng.choice(['1', '1.0', '2'])}"
        c2 = dict(colty)
        for k in ops:
            c2[k] = "float"
        return {"op": "extend", "src": s, "ops": ops}, c2, order + list(ops)
    if r < 0.8 and (nums or strs):
        if nums and (not strs or rng.random() < 0.6):
            e = f"{rng.choice(nums)}.is_in([{', '.join(str(x) for x in rng.sample([0, 1, 2, 3, 5], rng.randint(1, 3)))}])"
        else:
            e = f"{rng.choice(strs)}.is_in([{', '.join(repr(x) for x in rng.sample(['a', 'b', 'c', 'dd'], rng.randint(1, 3)))}])"
        return {"op": "select_rows", "src": s, "expr": e}, colty, order
    if nums and rng.random() < 0.5:
        # unary minus and subtraction: the one operator that exists at two arities
        k = g.newcol(colty)
        c1, c2 = rng.choice(nums), rng.choice(nums)
        e = rng.choice([f"-{c1}", f"{c1} - {c2}", f"(-{c1}) - {c2}", f"-({c1} - {c2})", f"{c1} - 1"])
        return {"op": "extend", "src": s, "ops": {k: e}}, {**colty, k: "float"}, order + [k]
    if nums:
        k = g.newcol(colty)
        return {"op": "extend", "src": s, "ops": {k: f"({rng.choice(nums)} =={rng.choice(['1', '0', '1.0'])}).if_else({rng.choice(['1', 'True', '1.0'])}, 0)"}}, {**colty, k: "float"}, order + [k]
    return None


def gen_recmap_case(rng):
    """a pipeline with a convert_records step over dedicated tables (wide rows / blocks), with matching data"""
    import pipes
    if rng.random() < 0.3:
        # strict=False unpivot whose control table REPEATS value names (several block cells read the same row column)
        names = ["x", "y", "z"]
        n_rows = 2
        cells = {"v1": [rng.choice(names) for _ in range(n_rows)], "v2": [rng.choice(names) for _ in range(n_rows)]}
        used = []
        for c in ("v1", "v2"):
            for v in cells[c]:
                if v not in used:
                    used.append(v)
        spec = {"record_keys": ["id"], "control_table": {"k": ["a", "b"], "v1": cells["v1"], "v2": cells["v2"]}, "control_table_keys": ["k"], "strict": False}
        ids = list(range(1, rng.randint(2, 4)))
        wide = {"name": "w", "spec": [("id", "int")] + [(c, "float") for c in used],
                "rows": [[i] + [pipes.gen_value(rng, "float", 0.0) for _ in used] for i in ids]}
        s = {"op": "convert_records", "src": {"op": "table", "name": "w", "columns": [c for c, _ in wide["spec"]]},
             "recmap": {"blocks_in": None, "blocks_out": spec, "strict": False}}
        return s, [wide]
    nv = rng.randint(2, 3)
    vals = [f"v{i + 1}" for i in range(nv)]
    meas = [f"m{i + 1}" for i in range(nv)]
    ids = list(range(1, rng.randint(2, 4)))
    form = rng.random()
    spec_blocks = {"record_keys": ["id"], "control_table": {"measure": meas, "value": vals}, "control_table_keys": ["measure"], "strict": True}
    if rng.random() < 0.4 and nv == 2:      # two value columns per block row
        spec_blocks = {"record_keys": ["id"], "control_table": {"measure": ["m1", "m2"], "value": ["v1", "v2"], "other": ["u1", "u2"]},
                       "control_table_keys": ["measure"], "strict": True}
    content = [c for k, col in spec_blocks["control_table"].items() if k != "measure" for c in col]
    wide = {"name": "w", "spec": [("id", "int")] + [(c, "float") for c in content],
            "rows": [[i] + [pipes.gen_value(rng, "float", 0.1) for _ in content] for i in ids]}
    bcols = [k for k in spec_blocks["control_table"] if k != "measure"]
    blk = {"name": "blk", "spec": [("id", "int"), ("measure", "str")] + [(c, "float") for c in bcols],
           "rows": [[i, m] + [pipes.gen_value(rng, "float", 0.1) for _ in bcols] for i in ids for m in spec_blocks["control_table"]["measure"]]}
    if form < 0.45:          # unpivot: rows -> blocks
        s = {"op": "table", "name": "w", "columns": [c for c, _ in wide["spec"]]}
        if rng.random() < 0.3:
            s = {"op": "select_rows", "src": s, "expr": "id > 0"}
        s = {"op": "convert_records", "src": s, "recmap": {"blocks_in": None, "blocks_out": spec_blocks, "strict": True}}
        if rng.random() < 0.4:
            s = {"op": "order_rows", "src": s, "columns": ["id", "measure"], "reverse": [], "limit": None}
    elif form < 0.8:         # pivot: blocks -> rows
        s = {"op": "table", "name": "blk", "columns": [c for c, _ in blk["spec"]]}
        s = {"op": "convert_records", "src": s, "recmap": {"blocks_in": spec_blocks, "blocks_out": None, "strict": True}}
        if rng.random() < 0.4:
            s = {"op": "extend", "src": s, "ops": {"t": f"{content[0]} + 1"}}
    else:                    # blocks -> blocks with another layout
        out = {"record_keys": ["id"], "control_table": {"k2": ["a", "b"], "val": content[:2]}, "control_table_keys": ["k2"], "strict": True}
        s = {"op": "table", "name": "blk", "columns": [c for c, _ in blk["spec"]]}
        s = {"op": "convert_records", "src": s, "recmap": {"blocks_in": spec_blocks, "blocks_out": out, "strict": True}}
    return s, [wide, blk]


def gen_shared_case(rng):
    """a DAG: 1-3 levels of binary nodes whose two operands are ONE interior node object (a.concat_rows(a), a.natural_join(a)).
    The check pairs it with the same pipeline built as a tree and with that tree's single-field mutants (equality is structural:
    node identity must not matter, in either direction)"""
    import pipes
    tables = [pipes.gen_table(rng, "d1", unique_col="uid"), pipes.gen_table(rng, "d2", unique_col="uid")]
    tmap = {t["name"]: t for t in tables}
    g = pipes.Gen(rng, tables, features=["extend", "extend", "select_rows", "order_rows", "select_columns", "rename_columns", "project"])
    s, colty, order = g.pipeline(rng.randint(1, 2))
    if s["op"] == "table":
        nums = pipes.cols_of(colty, "num")
        s = {"op": "extend", "src": s, "ops": {"zz1": f"{rng.choice(nums)} + 1"}}
    s = normalise(s, tmap)
    joined = False
    for lv in range(rng.randint(1, 3)):
        cols = list(build(s).column_names)
        if "uid" in cols and not joined and rng.random() < 0.4:
            s = {"op": "natural_join", "src": s, "b": json.loads(json.dumps(s)), "share_b": True, "on": ["uid"], "jointype": rng.choice(["INNER", "LEFT", "FULL"])}
            joined = True
        else:
            idc = rng.choice([None, f"src{lv}"])
            s = {"op": "concat_rows", "src": s, "b": json.loads(json.dumps(s)), "share_b": True, "id_column": idc, "a_name": "a", "b_name": "b"}
        if rng.random() < 0.35:
            cols = list(build(s).column_names)
            s = rng.choice([{"op": "order_rows", "src": s, "columns": cols[:1], "reverse": [], "limit": None},
                            {"op": "extend", "src": s, "ops": {f"top{lv}": {"py": ["int", 1]}}},
                            {"op": "select_columns", "src": s, "columns": cols[: max(1, len(cols) - 1)]}])
    return s, tables


def gen_case(rng):
    import pipes
    if rng.random() < 0.1:
        return gen_shared_case(rng)
    if rng.random() < 0.16:
        return gen_recmap_case(rng)
    tables = [pipes.gen_table(rng, "d1", unique_col="uid"), pipes.gen_table(rng, "d2", unique_col="uid")]
    g = pipes.Gen(rng, tables)
    if rng.random() < 0.08:
        # a join whose left columns are a (reordered) subset of the right ones: NaturalJoinNode then re-uses b's column tuple
        cols = [c for c, _ in tables[0]["spec"]]
        sub = rng.sample(cols, rng.randint(1, len(cols) - 1))
        if "uid" not in sub:
            sub.append("uid")
        s = {"op": "natural_join", "src": {"op": "select_columns", "src": {"op": "table", "name": "d1", "columns": cols}, "columns": sub},
             "b": {"op": "table", "name": "d1", "columns": cols}, "on": ["uid"], "jointype": rng.choice(["INNER", "LEFT", "FULL"])}
        if rng.random() < 0.5:
            s = {"op": "order_rows", "src": s, "columns": ["uid"], "reverse": [], "limit": None}
        return s, tables
    s, colty, order = g.pipeline(rng.randint(1, 4))
    for _ in range(rng.choice([0, 1, 1, 2])):
        r = extra_step(rng, g, s, colty, order)
        if r is not None:
            s, colty, order = r
            if rng.random() < 0.4:
                r2 = g.step(s, colty, order)
                if r2 is not None:
                    s, colty, order = r2
    return normalise(s, {t["name"]: t for t in tables}), tables


# ------------------------------------------------------------------------------------------- real objects -> Coq terms

class Unsupported(Exception):
    pass


def c_const(v):
    import numpy as np
    if v is None:
        return "KNone"
    if isinstance(v, (bool, np.bool_)):
        return "(KBool %s)" % cbool(bool(v))
    if isinstance(v, (int, np.integer)):
        return "(KInt (%d)%%Z)" % int(v)
    if isinstance(v, (float, np.floating)):
        if math.isnan(v):
            return "KNaN"
        if math.isinf(v):
            raise Unsupported("infinite constant")
        f = Fraction(float(v))
        return "(KF (%d) %d)" % (f.numerator, f.denominator)
    if isinstance(v, str):
        return "(KStr %s)" % cstr(v)
    raise Unsupported("constant of type " + type(v).__name__)


def sl(xs):
    return clist([cstr(x) for x in xs])


def c_expr(t):
    import data_algebra.expr_rep as er
    if isinstance(t, er.ColumnReference):
        return "(PCol %s)" % cstr(t.column_name)
    if isinstance(t, er.Value):
        return "(PVal %s)" % c_const(t.value)
    if isinstance(t, er.ListTerm):
        boxed = [isinstance(x, er.PreTerm) for x in t.value]
        if any(boxed) and not all(isinstance(x, er.Value) for x in t.value):
            raise Unsupported("list literal mixing boxed and raw elements")
        items = [x.value if isinstance(x, er.Value) else x for x in t.value]
        if any(isinstance(x, float) and math.isnan(x) for x in items):
            raise Unsupported("nan inside a list literal")
        return "(PList %s %s)" % (cbool(bool(boxed) and all(boxed)), clist([c_const(x) for x in items]))
    if isinstance(t, er.Expression):
        if t.params is not None:
            raise Unsupported("Expression.params")
        return "(POp %s %s %s %s)" % (cstr(t.op), cbool(bool(t.inline)), cbool(bool(t.method)), clist([c_expr(a) for a in t.args]))
    raise Unsupported("term " + type(t).__name__)


def c_pairs(items):
    return clist(["(%s, %s)" % (cstr(a), cstr(b)) for a, b in items])


def c_spec(s):
    if s is None:
        return "None"
    ct = s.control_table
    cols = clist(["(%s, %s)" % (cstr(str(c)), clist([c_const(ct[c][i]) for i in range(ct.shape[0])])) for c in ct.columns])
    return "(Some (mkrs %s %s %s %s))" % (sl(s.record_keys), cols, sl(s.control_table_keys), cbool(bool(s.strict)))


def c_op(node):
    name = node.node_name
    if name == "TableDescription":
        q = node.qualifiers or {}
        if not all(isinstance(k, str) and isinstance(v, str) for k, v in q.items()):
            raise Unsupported("non-string qualifier")
        return "(ETable %s %s %s)" % (cstr(node.table_name), sl(node.column_names), c_pairs(sorted(q.items())))
    src = [c_op(s) for s in node.sources]
    if name == "ExtendNode":
        ops = clist(["(%s, %s)" % (cstr(k), c_expr(v)) for k, v in node.ops.items()])
        return "(EExtend %s %s %s %s %s %s)" % (src[0], ops, sl(node.partition_by), sl(node.order_by), sl(node.reverse), cbool(bool(node.windowed_situation)))
    if name == "ProjectNode":
        ops = clist(["(%s, %s)" % (cstr(k), c_expr(v)) for k, v in node.ops.items()])
        return "(EProject %s %s %s)" % (src[0], ops, sl(node.group_by))
    if name == "SelectRowsNode":
        if len(node.ops) != 1:
            raise Unsupported("select_rows with %d conditions" % len(node.ops))
        return "(ESelectRows %s %s)" % (src[0], c_expr(node.expr))
    if name == "SelectColumnsNode":
        return "(ESelectCols %s %s)" % (src[0], sl(node.column_selection))
    if name == "DropColumnsNode":
        return "(EDropCols %s %s)" % (src[0], sl(node.column_deletions))
    if name == "RenameColumnsNode":
        m = node.column_remapping
        if len(set(m.values())) != len(m):
            raise Unsupported("rename map with a repeated source column")
        return "(ERename %s %s)" % (src[0], c_pairs(list(m.items())))               # dict order kept: the SQL prints in this order
    if name == "MapColumnsNode":
        return "(EMapCols %s %s %s)" % (src[0], c_pairs(list(node.column_remapping.items())), sl(node.column_deletions or []))
    if name == "OrderRowsNode":
        lim = node.limit
        if lim is not None and (isinstance(lim, bool) or not isinstance(lim, int) or lim < 0):
            raise Unsupported("limit %r" % (lim,))
        return "(EOrder %s %s %s %s)" % (src[0], sl(node.order_columns), sl(node.reverse), "None" if lim is None else "(Some %d%%nat)" % lim)
    if name == "NaturalJoinNode":
        return "(EJoin %s %s %s %s %s)" % (src[0], src[1], sl(node.on_a), sl(node.on_b), cstr(node.jointype))
    if name == "ConcatRowsNode":
        idc = "None" if node.id_column is None else "(Some %s)" % cstr(node.id_column)
        return "(EConcat %s %s %s %s %s)" % (src[0], src[1], idc, cstr(str(node.a_name)), cstr(str(node.b_name)))
    if name == "ConvertRecordsNode":
        rm = node.record_map
        return "(EConvert %s (mkrm %s %s %s))" % (src[0], c_spec(rm.blocks_in), c_spec(rm.blocks_out), cbool(bool(rm.strict)))
    raise Unsupported("node " + name)


PREAMBLE = ("From Coq Require Import List Bool ZArith QArith String.\nImport ListNotations.\n"
            "From DA Require Import Base.PyRT Base.Cases Base.Val Model.Sem Model.Equiv Model.EquivCases.\n"
            "Open Scope string_scope.\nOpen Scope list_scope.\n")


# ------------------------------------------------------------------------------------------- flags of the tree under test

W_TABLE = ({"op": "table", "name": "d", "columns": ["a", "b"]}, {"op": "table", "name": "d", "columns": ["a", "z"]})
_T3 = {"op": "table", "name": "d", "columns": ["a", "b", "c"]}
W_ORDER = ({"op": "extend", "src": _T3, "ops": {"a": "b + 1", "c": "b + 2"}}, {"op": "extend", "src": _T3, "ops": {"c": "b + 2", "a": "b + 1"}})
W_CONST = ({"op": "extend", "src": _T3, "ops": {"x": {"py": ["int", 1]}}}, {"op": "extend", "src": _T3, "ops": {"x": {"py": ["bool", True]}}})
W_NAN = ({"op": "extend", "src": _T3, "ops": {"x": {"py": ["nan", None]}}},) * 2
W_LIST = ({"op": "select_rows", "src": _T3, "expr": "a.is_in([1, 2])"}, {"op": "select_rows", "src": _T3, "expr": "a.is_in([1, 3])"})


def _unpivot(v1, v2):
    return {"op": "convert_records", "src": {"op": "table", "name": "w", "columns": ["id", "v1", "v2"]},
            "recmap": {"blocks_in": None, "strict": True,
                       "blocks_out": {"record_keys": ["id"], "control_table": {"measure": ["m1", "m2"], "value": [v1, v2]}, "control_table_keys": ["measure"], "strict": True}}}


W_RECMAP = (_unpivot("v1", "v2"), _unpivot("v2", "v1"))
W_MAP = ({"op": "rename_columns", "src": _T3, "map": {"x": "a", "y": "b"}}, {"op": "rename_columns", "src": _T3, "map": {"y": "b", "x": "a"}})
W_TABLES = [{"name": "d", "spec": [("a", "int"), ("b", "int"), ("c", "int"), ("z", "int")], "rows": [[1, 2, 3, 4], [2, 5, 6, 7]]},
            {"name": "w", "spec": [("id", "int"), ("v1", "float"), ("v2", "float")], "rows": [[1, 10.0, 30.0], [2, 20.0, 40.0]]}]
WITNESSES = [("table_description", "table.columns.rename_last", W_TABLE), ("ops_order", "extend.ops.reorder", W_ORDER),
             ("const_type", "extend.expr.const.int_to_bool", W_CONST), ("const_nan", "identity", W_NAN),
             ("list_items", "select_rows.expr.const.value", W_LIST), ("recmap_blocks_out", "convert.blocks_out.swap_cells", W_RECMAP),
             ("dict_order", "rename_columns.dict_order", W_MAP)]


def safe_eq(a, b):
    try:
        r = (a == b)
        return bool(r) if isinstance(r, bool) else "non-bool:" + type(r).__name__
    except Exception as e:
        return "raise:" + type(e).__name__


def detect_quirks():
    def eq(pair):
        return safe_eq(build(pair[0]), build(pair[1])) is True
    nan = build(W_NAN[0])
    q = {"table_key_only": eq(W_TABLE), "ops_unordered": eq(W_ORDER), "const_py_eq": eq(W_CONST), "list_len_only": eq(W_LIST),
         "recmap_out_skipped": eq(W_RECMAP), "maps_unordered": eq(W_MAP)}
    q["nan_not_reflexive"] = safe_eq(nan, nan) is not True
    return q


def c_quirks(q):
    """the model the real code is compared with is always the code as it is now (pipeline_eqb = eop_eqb q_fixed); the probe of the
    repaired defects (detect_quirks) is recorded in the evidence only.  A defect that returns therefore shows up as a
    model/implementation disagreement AND as a failing input of the oracle."""
    return "q_fixed"


# ------------------------------------------------------------------------------------------- oracle

def frames_for(tables):
    import pipes
    fr = {}
    for t in tables:
        f = pipes.table_frame(t)
        fr[t["name"]] = f
        fr[t["name"] + "x"] = f          # the table-name mutant reads a table of another name with the same content
    return fr


_MODELS = {}


def sql_of(ops, which):
    import data_algebra.SQLite, data_algebra.PostgreSQL
    if which not in _MODELS:           # building a dialect model is expensive (method catalogue): once per run
        _MODELS[which] = data_algebra.SQLite.SQLiteModel() if which == "sqlite" else data_algebra.PostgreSQL.PostgreSQLModel()
    m = _MODELS[which]
    try:
        return ops.to_sql(m)
    except Exception as e:
        return "<raise %s>" % type(e).__name__


def eval_of(ops, frames):
    import pipes
    try:
        used = {k: v.copy() for k, v in frames.items() if k in ops.get_tables()}
        return ops.eval(used)
    except Exception as e:
        return "<raise %s>" % type(e).__name__


def compare_pair(sa, sb, tables, *, extra_frames=None):
    """run the property's oracle on one pair of scripts.  Returns (info dict, [failures]) where a failure is
    (oracle kind, description).  info holds the built objects / observations for the correspondence."""
    import pipes
    info = {"built": False}
    try:
        a = build(sa)
    except Exception as e:
        info["error"] = "a: " + repr(e)[:200]
        return info, []
    try:
        b = build(sb)
    except Exception as e:
        info["error"] = "b: " + repr(e)[:200]
        return info, []
    info.update(built=True, a=a, b=b)
    fails = []
    ab, ba = safe_eq(a, b), safe_eq(b, a)
    info["ab"], info["ba"] = ab, ba
    if ab != ba:
        fails.append(("symmetric", f"a == b is {ab} but b == a is {ba}"))
    for nm, x, sx in (("a", a, sa), ("b", b, sb)):
        r = safe_eq(x, x)
        if r is not True:
            # a nan constant is the one known way to lose reflexivity: those failures carry their own family
            fails.append(("reflexive", f"{nm} == {nm} is {r}", "const_nan" if '"nan"' in json.dumps(sx) else "other"))
    if ab is True:
        for which in ("sqlite", "postgresql"):
            qa, qb = sql_of(a, which), sql_of(b, which)
            if qa != qb:
                fails.append(("sql", f"{which} SQL text differs"))
                info.setdefault("sql", {})[which] = [qa, qb]
                break
        frs = [frames_for(tables)] + list(extra_frames or [])
        for fr in frs:
            ra, rb = eval_of(a, fr), eval_of(b, fr)
            d = None
            if isinstance(ra, str) or isinstance(rb, str):
                if not (isinstance(ra, str) and isinstance(rb, str)):
                    d = f"one side raises: {ra if isinstance(ra, str) else 'ok'} vs {rb if isinstance(rb, str) else 'ok'}"
            else:
                d = pipes.frames_equiv(ra, rb, check_col_order=True, check_row_order=True)
            if d is not None:
                fails.append(("result", "Pandas results differ: " + d))
                info["results"] = [ra if isinstance(ra, str) else pipes.frame_to_json(ra), rb if isinstance(rb, str) else pipes.frame_to_json(rb)]
                break
    return info, fails


def second_tables(rng, tables):
    """another random content for the same table layouts"""
    import pipes
    out = []
    for t in tables:
        n = rng.choice([1, 3, 5])
        rows = []
        for i in range(n):
            row = []
            for c, ty in t["spec"]:
                if c in ("uid", "id"):
                    row.append(i)
                elif c == "measure":
                    row.append(t["rows"][i % max(1, len(t["rows"]))][1] if t["rows"] else "m1")
                else:
                    row.append(pipes.gen_value(rng, ty, 0.1))
            rows.append(row)
        if any(c == "measure" for c, _ in t["spec"]):
            rows = t["rows"]            # keyed block data stays as generated
        out.append({"name": t["name"], "spec": t["spec"], "rows": rows})
    return out


def shrink_pair(sa, sb, path, tables, oracle_kind):
    """smallest sub-pipeline containing the mutated step on which the same oracle still fails"""
    for depth in range(len(path), 0, -1):
        try:
            xa, xb = node_at(sa, path[:depth]), node_at(sb, path[:depth])
        except Exception:
            continue
        if xa["op"] == "table":
            continue
        _, fails = compare_pair(xa, xb, tables)
        if any(f[0] == oracle_kind for f in fails):
            return xa, xb
    return sa, sb


def report(chk, sa, sb, tables, kind, fam0, path, fails, info):
    import pipes
    for f in fails:
        oracle_kind, what = f[0], f[1]
        fam = f[2] if len(f) > 2 else fam0
        sig = {"family": fam, "oracle": oracle_kind}
        if any(lib.match_sig(k.get("signature", {}), sig) for k in chk.known):
            # a listed finding: register the hit; no shrinking / printing for the (many) further instances
            chk.impl_violation(what, {}, sig)
            chk.dist("known_finding_instance:" + fam + ":" + oracle_kind)
            continue
        if oracle_kind in ("sql", "result") and path:
            xa, xb = shrink_pair(sa, sb, path, tables, oracle_kind)
            if xa is not sa:
                i2, f2 = compare_pair(xa, xb, tables)
                sa, sb, info = xa, xb, i2
        rep = {"kind": "impl-violation", "oracle": oracle_kind, "mutation": kind, "family": fam, "script_a": sa, "script_b": sb, "tables": tables,
               "a": str(info.get("a")), "b": str(info.get("b")), "a_eq_b": info.get("ab"), "b_eq_a": info.get("ba"), "diff": what}
        if oracle_kind == "sql" and "sql" in info:
            rep["sql"] = info["sql"]
        if oracle_kind == "result" and "results" in info:
            rep["results"] = info["results"]
        chk.impl_violation(f"pipelines that compare equal ({kind}): {what}" if oracle_kind in ("sql", "result") else f"pipeline equality is not {oracle_kind}: {what}",
                           rep, {"family": fam, "oracle": oracle_kind})


# ------------------------------------------------------------------------------------------- run

def run(chk):
    import time
    n_base, n_mut = N[chk.tier]
    rng = chk.rng
    t0 = time.time()
    chk.prove([], extra_vo=["theories/Model/EquivCases.vo"])
    chk.cov["timing_s"] = {"prove": round(time.time() - t0, 1)}
    t0 = time.time()
    chk.cov["trusted_base"] = [
        "Coq 8.16.1 kernel + vm_compute",
        "hand model Model/Equiv.v of ViewRepresentation.__eq__, every _equiv_nodes, TableDescription.__eq__, Value/ListTerm/ColumnReference/Expression.is_equal, "
        "RecordMap.__eq__, RecordSpecification.__eq__ (repr equality modelled as equality of record_keys, control table, control_table_keys, strict; repr is injective on them)",
        "converter harness/props/C11.py c_op (real node objects -> eop; qualifiers sorted by key, assignment dicts and rename maps in dict order, floats as reduced fractions)",
        "claim that eop carries every field executors and SQL generation read (core); checked on every run by the oracle: pairs that compare equal must print identical SQL (SQLite, PostgreSQL models) and evaluate identically on Pandas",
        "Model/Sem.v reference semantics (validated against the executors by its own correspondence runs); convert_records and list literals have no image there",
        "the witnesses of the seven repaired defects (known_findings.d/C11.json 'fixed', corpus/C11) are replayed first on every run"]
    chk.assumptions = ["assignment dicts and rename maps have unique keys (wfb; Python dicts)",
                       "not modelled: DictTerm (mapv), Expression.params (never set by the builders), SQLNode, nan inside list literals, rename maps with repeated source columns, non-integer limits"]
    chk.cov["rule"] = ("random pipelines of 1-4 steps from harness/pipes.py over two random tables (+ raw-constant / nan / is_in-list steps; 16%: convert_records pipelines: unpivot, "
                       "pivot, block-to-block) ; for each pipeline: itself, a rebuilt copy, and its single-field mutants (every field of every step: expression constants/operators/"
                       "methods/columns/list items, dict order, key names, windows, column lists, rename maps, limits, join type/keys/check flag, concat labels, record-map layout cells/"
                       "keys/strict flags/in-out swap, table name/columns/qualifiers); quick keeps a random subset per pipeline but always one of every forgotten-field family; "
                       "non-trivial = both pipelines built and have >= 1 step; distinct by content")
    q = detect_quirks()
    chk.cov["repaired_defects_probe"] = {k: ("RETURNED" if v else "absent") for k, v in q.items()}
    terms, meta = [], []

    def add_case(a, b, ab, ba, desc):
        if ab not in (True, False) or ba not in (True, False):
            chk.dist("eq_not_a_bool")
            return
        try:
            t = "(mkcase %s %s %s %s %s %s %s)" % (c_quirks(q), c_op(a), c_op(b), cbool(ab), cbool(ba), sl(a.column_names), sl(b.column_names))
        except Unsupported as u:
            chk.dist("unsupported:" + str(u).split(" ")[0])
            return
        terms.append(t)
        meta.append(desc)

    # 1. the known-finding witnesses (and the corpus) first
    stored = {f["signature"]["family"]: f["witness"] for f in chk.known if isinstance(f.get("signature", {}).get("family"), str) and "witness" in f}
    for fam, kind, (sa, sb) in WITNESSES:
        wt = W_TABLES
        if fam in stored:                  # the witness stored with the listed finding is the one that is replayed
            sa, sb, wt = stored[fam]["script_a"], stored[fam]["script_b"], stored[fam]["tables"]
        info, fails = compare_pair(sa, sb, wt)
        chk.count(("witness", fam), nontrivial=True)
        if info.get("built"):
            add_case(info["a"], info["b"], info["ab"], info["ba"], {"witness": fam, "script_a": sa, "script_b": sb})
        report(chk, sa, sb, wt, kind, fam, (), fails, info)
        chk.cov["oracle"]["witness:" + fam] = "still fails: " + "; ".join(f[1] for f in fails) if fails else "holds"
    ncorpus = 0
    for f in sorted(glob.glob(os.path.join(lib.ROOT, "corpus", "C11", "*.json"))):
        r = json.load(open(f))
        info, fails = compare_pair(r["script_a"], r["script_b"], r["tables"])
        chk.count(("corpus", os.path.basename(f)), nontrivial=True)
        if info.get("built"):
            add_case(info["a"], info["b"], info["ab"], info["ba"], {"corpus": os.path.basename(f)})
        report(chk, r["script_a"], r["script_b"], r["tables"], r.get("mutation", "corpus"), r.get("family", "other"), (), fails, info)
        ncorpus += 1
    chk.cov["corpus_cases"] = ncorpus

    # 2. generated pipelines with their mutants
    stats = {"equal": 0, "pairs": 0, "rejected": 0}

    def explore(count, n_keep, only_kinds=None, collect=True, deadline=None):
        """`count` random pipelines, each paired with itself, a rebuilt copy and (a subset of) its single-field mutants;
        only_kinds restricts the mutants to given mutation kinds (the follow-up search after a correspondence break)"""
        import pipes, time as _t
        for i in range(count):
            if deadline is not None and _t.time() > deadline:
                break
            try:
                s, tables = gen_case(rng)
                build(s)
            except Exception as e:
                chk.dist("generator_reject:" + type(e).__name__)
                continue
            if collect:
                for k in pipes.script_ops(s):
                    chk.dist("step:" + k)
            shared = any(n.get("share_b") for _, n in walk(s))
            if shared:
                # left operand: the DAG with shared node objects; right operands: the same pipeline built as a TREE and that
                # tree's mutants.  A change at or below the SECOND occurrence of a shared node gets a family of its own (always kept)
                tree = unshare(s)
                js = json.dumps(tree, sort_keys=False)
                muts = [(k, ("shared_second_occurrence" if ("b" in p and f == "other") else f), p, m) for k, f, p, m in script_mutants(tree)]
                if collect:
                    chk.dist("shape:shared_interior_node_object")
            else:
                muts = script_mutants(s)
                js = json.dumps(s, sort_keys=False)
            muts = [m for m in muts if json.dumps(m[3], sort_keys=False) != js]
            if only_kinds is not None:
                chosen = [m for m in muts if m[0] in only_kinds][:n_keep]
            else:
                special = [m for m in muts if m[1] != "other"]
                other = [m for m in muts if m[1] == "other"]
                rng.shuffle(other)
                keep_special = {}
                for m in special:
                    keep_special.setdefault((m[1], m[0]), m)
                chosen = list(keep_special.values())[: max(8, n_keep * 3 // 4)] + other[: max(4, n_keep - len(keep_special))]
            pairs = ([("identity", "identity", (), json.loads(js))] if only_kinds is None or "identity" in only_kinds else []) + chosen
            extra = [frames_for(second_tables(rng, tables))]
            for kind, fam, path, s2 in pairs:
                info, fails = compare_pair(s, s2, tables, extra_frames=extra)
                if not info.get("built"):
                    stats["rejected"] += 1
                    chk.dist("mutant_rejected_by_builder")
                    continue
                stats["pairs"] += 1
                chk.count((js, json.dumps(s2)), nontrivial=s["op"] != "table")
                chk.dist("mutation:" + kind.split(".")[0])
                chk.dist("family:" + fam + (":equal" if info["ab"] is True else ":unequal"))
                if info["ab"] is True:
                    stats["equal"] += 1
                if kind == "identity" and info["ab"] is not True and not any(f[0] == "reflexive" for f in fails):
                    fails.append(("reflexive", f"p == rebuild(p) is {info['ab']}", "const_nan" if '"nan"' in js else "other"))
                if collect:
                    add_case(info["a"], info["b"], info["ab"], info["ba"], {"mutation": kind, "family": fam, "script_a": s, "script_b": s2, "a_eq_b": info["ab"], "b_eq_a": info["ba"]})
                    if i < 2 and kind != "identity" and len(chk.cov["samples"]) < 6:
                        chk.sample({"mutation": kind, "a": str(info["a"])[:400], "b": str(info["b"])[:400], "a_eq_b": info["ab"], "b_eq_a": info["ba"]})
                if fails:
                    report(chk, s, s2, tables, kind, fam, path, fails, info)

    explore(n_base, n_mut)
    chk.cov["oracle"].update({"pairs": stats["pairs"], "pairs_comparing_equal": stats["equal"], "mutants_rejected_by_builder": stats["rejected"]})

    chk.cov["timing_s"]["pairs_and_oracle"] = round(time.time() - t0, 1)
    t0 = time.time()

    # 3. correspondence inside Coq
    if os.path.exists(os.path.join(lib.COQ, "theories/Model/EquivCases.vo")):
        failing, errors, nchecked = lib.run_case_files("C11", PREAMBLE, terms, "check_cases", per_file=(400 if chk.tier == "quick" else 600))
        chk.cov["correspondence"] = {"what": "a == b, b == a, column_names on real objects vs eop_eqb / ecolumn_names under the detected flags",
                                     "cases": len(terms), "checked_in_coq": nchecked, "disagreements": len(failing), "errors": errors[:2]}
        chk.cov["traces_validated_against_impl"] = nchecked
        if errors:
            chk.corr_break("correspondence case files failed to compile", errors[0])
        for i in failing[:3]:
            chk.corr_break("Model/Equiv.v disagrees with the implementation's == / column_names", meta[i])
        if failing and not any(v[2] for v in chk.violations):
            # the oracle has already been evaluated on the disagreeing pairs themselves (every case goes through it);
            # nothing failed there, so search further: more pipelines, only the mutation kinds on which model and code disagree
            kinds = {meta[i].get("mutation") for i in failing if meta[i].get("mutation")}
            before = stats["pairs"]
            explore(n_base * 4, 12, only_kinds=kinds or None, collect=False, deadline=time.time() + (60 if chk.tier == "quick" else 300))
            chk.cov["oracle"]["follow_up_search_pairs"] = stats["pairs"] - before
            chk.cov["oracle"]["follow_up_search_kinds"] = sorted(k for k in kinds if k)
    else:
        chk.corr_break("Model/EquivCases.vo not built", "")
    chk.cov["timing_s"]["coq_cases"] = round(time.time() - t0, 1)


def replay(path):
    r = json.load(open(path))
    if "script_a" in r and "script_b" in r:
        info, fails = compare_pair(r["script_a"], r["script_b"], r["tables"])
        print("a:", info.get("a"))
        print("b:", info.get("b"))
        print("a == b:", info.get("ab"), " b == a:", info.get("ba"))
        for f in fails:
            print("FAILS", f[0], "-", f[1])
        want = r.get("oracle")
        return 1 if any(want is None or f[0] == want for f in fails) else 0
    print(json.dumps(r, indent=1)[:3000])
    return 1
