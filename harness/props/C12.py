"""C12 -- Printed pipelines rebuild to equal pipelines with identical results.
proof:  Props/C12.v about the hand models Model/PipePrintStr.v (str.__repr__, string literal values, expression text, lexer),
        Model/PipePrintSyn.v (the Python subset of printed pipelines: tokens, syntax, parser) and Model/PipePrint.v
        (to_python_src_ of every node, the evaluation eval_da_ops performs, builder-normal form), on top of C13
        (Model/ExprPrint.v, ExprParse.v: expression printer / parser) and C11 (Model/Equiv.v: `==`)
tie:    correspondence, decided inside Coq: repr(str) and literal values; Expression.to_python() text; the lark lexer on that
        text; parse_by_lark of that text; the token stream of ops.to_python(); the operator tree eval_da_ops rebuilds from the
        plain and the black-formatted text; normal-form coverage of the generated pipelines
oracle: (property text, real code) for every pipeline p and every way the API prints it (to_python plain / indented / pretty,
        repr, str, black with a narrow line, and pickle): q = eval_da_ops(text) must not raise, q == p, p == q, identical
        to_sql text (SQLite model), identical Pandas results (column order, row order) on random inputs"""
import ast, copy, io, json, math, os, pickle, re, tokenize, warnings, glob, keyword
from fractions import Fraction
import lib
from lib import clist, cstr, cbool, cz

warnings.filterwarnings("ignore")
N = {"quick": dict(strings=260, literals=160, exprs=220, pipes=45, corner=95, search=400),
     "thorough": dict(strings=4000, literals=2000, exprs=3000, pipes=400, corner=1000, search=3000)}
PER_FILE = 300
_ENV = {}


def env():
    if _ENV:
        return _ENV
    import numpy, pandas, lark
    import data_algebra
    import data_algebra.expr_rep as er
    import data_algebra.parse_by_lark as pbl
    import data_algebra.data_model
    import data_algebra.cdata as cd
    import data_algebra.view_representations as vr
    from data_algebra.expr_parse_fn import eval_da_ops
    import pipes
    try:
        import black
    except ImportError:
        black = None
    _ENV.update(np=numpy, pd=pandas, lark=lark, er=er, pbl=pbl, cd=cd, vr=vr, eval_da_ops=eval_da_ops, pipes=pipes, black=black,
                dm=data_algebra.data_model.default_data_model())
    return _ENV


class Unsupported(Exception):
    """the object has no image in the Coq model (the oracle still runs on it)"""


# ================================================================================================ serialisation
def cq(f):
    n, d = float(f).as_integer_ratio()
    return f"(Qmake ({n})%Z ({d})%positive)"


# ---- C13's expressions (Model/PyExpr.v)
def pval_c(v):
    np = env()["np"]
    if v is None:
        return "PNone"
    if isinstance(v, (bool, np.bool_)):
        return f"(PBool {cbool(bool(v))})"
    if isinstance(v, np.generic):
        raise Unsupported("numpy scalar constant")
    if isinstance(v, int):
        return f"(PInt {cz(v)})"
    if isinstance(v, float):
        if math.isnan(v):
            raise Unsupported("nan constant")
        if math.isinf(v):
            return f"(PInf {cbool(v < 0)})"
        return f"(PFloat {cbool(math.copysign(1.0, v) < 0)} {cq(abs(v))})"
    if isinstance(v, str):
        return f"(PStr {cstr(v)})"
    raise Unsupported("constant " + type(v).__name__)


def expr13_c(e):
    er = env()["er"]
    if isinstance(e, er.Expression):
        if e.params is not None:
            raise Unsupported("Expression.params")
        return f"(EOp {cstr(e.op)} {cbool(bool(e.inline))} {cbool(bool(e.method))} None {clist([expr13_c(a) for a in e.args])})"
    if isinstance(e, er.Value):
        return f"(EVal {pval_c(e.value)})"
    if isinstance(e, er.ColumnReference):
        return f"(ECol {cstr(e.column_name)})"
    if isinstance(e, er.ListTerm):
        if not all(isinstance(v, er.Value) for v in e.value):
            raise Unsupported("list literal with raw elements")
        return f"(EList {clist([pval_c(v.value) for v in e.value])})"
    if isinstance(e, er.DictTerm):
        return "(EDict %s)" % clist(["(%s, %s)" % (pval_c(k), pval_c(v)) for k, v in e.value.items()])
    raise Unsupported("term " + type(e).__name__)


def floats_of_term(e, acc):
    er = env()["er"]
    np = env()["np"]

    def fv(v):
        if isinstance(v, float) and not isinstance(v, np.generic) and not (math.isnan(v) or math.isinf(v)):
            acc.add(abs(v))
    if isinstance(e, er.Expression):
        for a in e.args:
            floats_of_term(a, acc)
    elif isinstance(e, er.Value):
        fv(e.value)
    elif isinstance(e, er.ListTerm):
        for v in e.value:
            fv(v.value if isinstance(v, er.Value) else v)
    elif isinstance(e, er.DictTerm):
        for k, v in e.value.items():
            fv(k), fv(v)


def ftab_c(floats, extra_texts=()):
    """[(value, repr text)] for the model's frepr / fparse; extra_texts: float literal texts seen by the lexer"""
    items = ["(%s, %s)" % (cq(f), cstr(repr(float(f)))) for f in sorted(floats)]
    for t in sorted(set(extra_texts)):
        try:
            f = float(t)
        except ValueError:
            continue
        if not (math.isinf(f) or math.isnan(f)) and repr(f) != t:
            items.append("(%s, %s)" % (cq(f), cstr(t)))
    return clist(items)


def check_float_assumption(chk, floats):
    """the assumption float_lex_ok of the theorems, for every float that reaches a case: float(repr(x)) == x and repr(x) is
    one FLOAT_NUMBER literal"""
    for f in floats:
        t = repr(float(f))
        if float(t) != f or not re.fullmatch(r"\d+(\.\d*)?([eE][+-]?\d+)?", t) or not re.search(r"[.eE]", t):
            chk.corr_break(f"repr(float) assumption fails for {f!r}: {t!r}", t)
            return False
    return True


def nonprintable(s):
    return sorted({ord(c) for c in s if ord(c) >= 128 and not c.isprintable()})


def npl_c(strings):
    cps = set()
    for s in strings:
        cps.update(nonprintable(s))
    return clist(["%d%%N" % c for c in sorted(cps)])


# ---- lark tokens (as C13 passes them to Coq)
def model_tok(t):
    ty, s = t.type, str(t)
    if ty == "NAME":
        return ("name", s)
    if ty == "DEC_NUMBER":
        return ("int", int(s))
    if ty == "FLOAT_NUMBER":
        return ("float", float(s), s)
    if ty == "STRING":
        try:
            v = ast.literal_eval(s)
        except Exception:
            return ("other",)
        return ("str", v) if isinstance(v, str) and s[0] in "'\"" else ("other",)
    if ty in ("HEX_NUMBER", "OCT_NUMBER", "BIN_NUMBER", "IMAG_NUMBER", "LONG_STRING", "_NEWLINE"):
        return ("other",)
    return ("sym", s)


def tok13_c(t):
    k = t[0]
    if k == "name":
        return f"(TName {cstr(t[1])})"
    if k == "int":
        return f"(TInt ({t[1]})%N)"
    if k == "float":
        return "(TFloat None)" if math.isinf(t[1]) else f"(TFloat (Some {cq(t[1])}))"
    if k == "str":
        return f"(TStr {cstr(t[1])})"
    return f"(TSym {cstr(t[1])})"


def lark_lex(text):
    """the library's own lexer; None when it raises; 'other' tokens (outside the modelled fragment) make the case unusable"""
    try:
        toks = [model_tok(t) for t in env()["pbl"].parser.lex(text)]
    except Exception:
        return None
    return toks


# ---- Python tokens of a printed pipeline
class TokenizeFailed(Exception):
    """the printed text is not even a token stream Python accepts"""


def py_tokens(text):
    try:
        toks = list(tokenize.generate_tokens(io.StringIO(text).readline))
    except (tokenize.TokenError, SyntaxError, IndentationError) as e:
        raise TokenizeFailed(type(e).__name__ + ": " + str(e)[:120])
    out = []
    for t in toks:
        ty = t.type
        if ty in (tokenize.NL, tokenize.NEWLINE, tokenize.INDENT, tokenize.DEDENT, tokenize.ENDMARKER, tokenize.COMMENT):
            continue
        if ty == tokenize.NAME:
            out.append(("name", t.string))
        elif ty == tokenize.NUMBER:
            if not re.fullmatch(r"\d+", t.string):
                raise Unsupported("number token " + t.string)
            out.append(("int", int(t.string)))
        elif ty == tokenize.STRING:
            if t.string[0] not in "'\"" or t.string[:3] in ("'''", '"""'):
                raise Unsupported("string token " + t.string[:8])
            out.append(("str", t.string))
        elif ty == tokenize.OP:
            out.append(("sym", t.string))
        else:
            raise Unsupported("token type %s" % tokenize.tok_name[ty])
    return out


def norm_tokens(toks):
    """a token stream up to what black may change: string literals by VALUE (quote style), no comma before a closing bracket"""
    out = []
    for t in toks:
        if t[0] == "str":
            t = ("strval", ast.literal_eval(t[1]))
        if t[0] == "sym" and t[1] in ")]}" and out and out[-1] == ("sym", ","):
            out.pop()
        out.append(t)
    return out


def ptok_c(t):
    k = t[0]
    if k == "name":
        return f"(TkName {cstr(t[1])})"
    if k == "int":
        return f"(TkInt ({t[1]})%N)"
    if k == "str":
        return f"(TkStr {cstr(t[1])})"
    return f"(TkSym {cstr(t[1])})"


# ---- C11's operator trees (Model/Equiv.v); copied from harness/props/C11.py, with the qualifiers kept in dict order
def c_const(v):
    np = env()["np"]
    if v is None:
        return "KNone"
    if isinstance(v, np.generic):
        raise Unsupported("numpy scalar constant")
    if isinstance(v, bool):
        return "(KBool %s)" % cbool(v)
    if isinstance(v, int):
        return "(KInt (%d)%%Z)" % v
    if isinstance(v, float):
        if math.isnan(v):
            raise Unsupported("nan constant")
        if math.isinf(v):
            raise Unsupported("infinite constant")
        if v == 0.0 and math.copysign(1.0, v) < 0:
            raise Unsupported("negative zero constant")
        f = Fraction(v)
        return "(KF (%d) %d)" % (f.numerator, f.denominator)
    if isinstance(v, str):
        return "(KStr %s)" % cstr(v)
    raise Unsupported("constant of type " + type(v).__name__)


def sl(xs):
    if not all(isinstance(x, str) for x in xs):
        raise Unsupported("non-string name")
    return clist([cstr(x) for x in xs])


def c_expr(t):
    er = env()["er"]
    if isinstance(t, er.ColumnReference):
        return "(PCol %s)" % cstr(t.column_name)
    if isinstance(t, er.Value):
        return "(PVal %s)" % c_const(t.value)
    if isinstance(t, er.ListTerm):
        boxed = [isinstance(x, er.PreTerm) for x in t.value]
        if any(boxed) and not all(isinstance(x, er.Value) for x in t.value):
            raise Unsupported("list literal mixing boxed and raw elements")
        items = [x.value if isinstance(x, er.Value) else x for x in t.value]
        return "(PList %s %s)" % (cbool(bool(boxed) and all(boxed)), clist([c_const(x) for x in items]))
    if isinstance(t, er.Expression):
        if t.params is not None:
            raise Unsupported("Expression.params")
        return "(POp %s %s %s %s)" % (cstr(t.op), cbool(bool(t.inline)), cbool(bool(t.method)), clist([c_expr(a) for a in t.args]))
    raise Unsupported("term " + type(t).__name__)


def c_pairs(items):
    return clist(["(%s, %s)" % (cstr(a), cstr(b)) for a, b in items])


def c_cell(v):
    np = env()["np"]
    if v is None or (isinstance(v, float) and math.isnan(v)):
        return "KNone"
    if isinstance(v, str) and not isinstance(v, np.generic):
        return "(KStr %s)" % cstr(v)
    raise Unsupported("control table cell " + type(v).__name__)


def c_spec(s):
    if s is None:
        return "None"
    ct = s.control_table
    cols = clist(["(%s, %s)" % (cstr(str(c)), clist([c_cell(ct[c][i]) for i in range(ct.shape[0])])) for c in ct.columns])
    return "(Some (mkrs %s %s %s %s))" % (sl(s.record_keys), cols, sl(s.control_table_keys), cbool(bool(s.strict)))


def c_op(node):
    name = node.node_name
    if name == "TableDescription":
        q = node.qualifiers or {}
        if not all(isinstance(k, str) and isinstance(v, str) for k, v in q.items()):
            raise Unsupported("non-string qualifier")
        return "(ETable %s %s %s)" % (cstr(node.table_name), sl(node.column_names), c_pairs(list(q.items())))
    src = [c_op(s) for s in node.sources]
    if name == "ExtendNode":
        ops = clist(["(%s, %s)" % (cstr(k), c_expr(v)) for k, v in node.ops.items()])
        return "(EExtend %s %s %s %s %s %s)" % (src[0], ops, sl(node.partition_by), sl(node.order_by), sl(node.reverse), cbool(bool(node.windowed_situation)))
    if name == "ProjectNode":
        ops = clist(["(%s, %s)" % (cstr(k), c_expr(v)) for k, v in node.ops.items()])
        return "(EProject %s %s %s)" % (src[0], ops, sl(node.group_by))
    if name == "SelectRowsNode":
        return "(ESelectRows %s %s)" % (src[0], c_expr(node.expr))
    if name == "SelectColumnsNode":
        return "(ESelectCols %s %s)" % (src[0], sl(node.column_selection))
    if name == "DropColumnsNode":
        return "(EDropCols %s %s)" % (src[0], sl(node.column_deletions))
    if name == "RenameColumnsNode":
        return "(ERename %s %s)" % (src[0], c_pairs(list(node.column_remapping.items())))
    if name == "MapColumnsNode":
        return "(EMapCols %s %s %s)" % (src[0], c_pairs(list(node.column_remapping.items())), sl(node.column_deletions or []))
    if name == "OrderRowsNode":
        lim = node.limit
        if lim is not None and (isinstance(lim, bool) or type(lim) is not int or lim < 0):
            raise Unsupported("limit %r" % (lim,))
        return "(EOrder %s %s %s %s)" % (src[0], sl(node.order_columns), sl(node.reverse), "None" if lim is None else "(Some %d%%nat)" % lim)
    if name == "NaturalJoinNode":
        return "(EJoin %s %s %s %s %s)" % (src[0], src[1], sl(node.on_a), sl(node.on_b), cstr(node.jointype))
    if name == "ConcatRowsNode":
        idc = "None" if node.id_column is None else "(Some %s)" % cstr(node.id_column)
        return "(EConcat %s %s %s %s %s)" % (src[0], src[1], idc, cstr(node.a_name), cstr(node.b_name))
    if name == "ConvertRecordsNode":
        rm = node.record_map
        return "(EConvert %s (mkrm %s %s %s))" % (src[0], c_spec(rm.blocks_in), c_spec(rm.blocks_out), cbool(bool(rm.strict)))
    raise Unsupported("node " + name)


def walk_nodes(node, seen=None):
    seen = set() if seen is None else seen
    if id(node) in seen:
        return
    seen.add(id(node))
    yield node
    for s in node.sources:
        yield from walk_nodes(s, seen)


def terms_of(node):
    name = node.node_name
    if name in ("ExtendNode", "ProjectNode"):
        return list(node.ops.values())
    if name == "SelectRowsNode":
        return [node.expr]
    return []


def strings_of(node):
    """every string that is printed with repr somewhere in the pipeline text (for the non-printable code points)"""
    out = []
    er = env()["er"]

    def term_strings(t):
        if isinstance(t, er.Expression):
            for a in t.args:
                term_strings(a)
        elif isinstance(t, er.Value):
            if isinstance(t.value, str):
                out.append(t.value)
        elif isinstance(t, er.ListTerm):
            for v in t.value:
                vv = v.value if isinstance(v, er.Value) else v
                if isinstance(vv, str):
                    out.append(vv)
        elif isinstance(t, er.ColumnReference):
            out.append(t.column_name)
    for n in walk_nodes(node):
        out.extend(str(c) for c in n.column_names)
        for t in terms_of(n):
            term_strings(t)
        for attr in ("table_name", "jointype", "id_column", "a_name", "b_name"):
            v = getattr(n, attr, None)
            if isinstance(v, str):
                out.append(v)
        for attr in ("partition_by", "order_by", "reverse", "group_by", "column_selection", "column_deletions", "order_columns", "on_a", "on_b"):
            v = getattr(n, attr, None)
            if isinstance(v, (list, tuple)):
                out.extend(str(x) for x in v)
        for attr in ("column_remapping", "qualifiers", "ops"):
            v = getattr(n, attr, None)
            if isinstance(v, dict):
                out.extend(str(k) for k in v.keys())
                out.extend(str(x) for x in v.values() if isinstance(x, str))
        rm = getattr(n, "record_map", None)
        if rm is not None:
            for sp in (rm.blocks_in, rm.blocks_out):
                if sp is not None:
                    out.extend(sp.record_keys), out.extend(sp.control_table_keys)
                    out.extend(str(c) for c in sp.control_table.columns)
                    for c in sp.control_table.columns:
                        out.extend(str(x) for x in sp.control_table[c] if isinstance(x, str))
    return out


def names_of_term(t, acc):
    er = env()["er"]
    if isinstance(t, er.Expression):
        acc.add(t.op)
        for a in t.args:
            names_of_term(a, acc)


_KNOWN_CACHE = {}


def known_names(extra):
    """the names Expression.__init__ accepts (_can_find_method_by_name), among the names this case can mention"""
    E = env()
    er = E["er"]
    if "base" not in _KNOWN_CACHE:
        cand = set(E["dm"].impl_map.keys()) | set(E["dm"].user_fun_map.keys()) | set(dir(er.Value(0)))
        cand |= {"_count", "_row_number", "_size", "_connected_components", "_ngroup", "_uniform", "fmax", "fmin", "around", "connected_components",
                 "+", "-", "*", "/", "//", "%", "**", "==", "!=", "<", "<=", ">", ">=", "and", "or", "not", "&", "|", "^", "%+%", "%?%", "%/%"}
        _KNOWN_CACHE["base"] = cand
        _KNOWN_CACHE["ok"] = {}
    out = []
    for n in sorted(_KNOWN_CACHE["base"] | set(extra)):
        ok = _KNOWN_CACHE["ok"].get(n)
        if ok is None:
            try:
                ok = bool(er._can_find_method_by_name(n))
            except Exception:
                ok = False
            _KNOWN_CACHE["ok"][n] = ok
        if ok:
            out.append(n)
    return out


ALL_NAMES = set()          # every operator / method name mentioned by a case of this run: the shared `known` list K0 is computed from it


def env_c(node_or_terms, extra_strings=()):
    """(mkenv K0 W0 ftab npl) for one pipeline; K0 / W0 are defined once per case file (see preamble())"""
    names, floats, strings = set(), set(), list(extra_strings)
    if isinstance(node_or_terms, list):
        terms = node_or_terms
    else:
        terms = [t for n in walk_nodes(node_or_terms) for t in terms_of(n)]
        strings += strings_of(node_or_terms)
    for t in terms:
        names_of_term(t, names)
        floats_of_term(t, floats)
    ALL_NAMES.update(names)
    return "(mkenv K0 W0 %s %s)" % (ftab_c(floats), npl_c(strings)), floats


def preamble():
    """the names the running library accepts (among everything this run mentions) and its windowed-function names, once per file"""
    er = env()["er"]
    win = sorted(er.fn_names_that_imply_windowed_situation)
    return (PREAMBLE + "Definition K0 : list string := %s.\nDefinition W0 : list string := %s.\n"
            % (clist([cstr(n) for n in known_names(ALL_NAMES)]), clist([cstr(n) for n in win])))


PREAMBLE = ("From Coq Require Import List Bool ZArith NArith QArith String.\nImport ListNotations.\n"
            "From DA Require Import Base.Cases Base.PyRT Model.Equiv Model.PyExpr Model.ExprParse Model.PipePrintStr Model.PipePrintSyn "
            "Model.PipePrint Model.PipePrintCases.\nOpen Scope string_scope.\nOpen Scope list_scope.\n")


# ================================================================================================ scripts
# A pipeline is a JSON script (pipes.py's format, extended): table nodes carry "columns"/"qualifiers"; an expression is a
# text or {"term": T} with T = ["col", name] | ["val", V] | ["list", [V..]] | ["dict", [[V, V]..]] | ["op", op, inline, method, [T..]];
# V = ["int", n] | ["float", repr] | ["bool", b] | ["none"] | ["str", s] | ["nan"] | ["inf", neg] | ["np.float64", repr] | ["np.int64", n];
# {"op": "convert_records", "src": .., "recmap": {"blocks_in": spec|None, "blocks_out": spec|None, "strict": b}};
# {"op": "sqlnode", "sql": [..], "columns": [..], "view_name": ..}

def val_of(V):
    np = env()["np"]
    k = V[0]
    if k == "int":
        return int(V[1])
    if k == "float":
        return float(V[1])
    if k == "bool":
        return bool(V[1])
    if k == "none":
        return None
    if k == "str":
        return V[1]
    if k == "nan":
        return float("nan")
    if k == "inf":
        return -math.inf if V[1] else math.inf
    if k == "np.float64":
        return np.float64(float(V[1]))
    if k == "np.int64":
        return np.int64(int(V[1]))
    raise ValueError(k)


BIN_DUNDER = {"+": "__add__", "-": "__sub__", "*": "__mul__", "/": "__truediv__", "//": "__floordiv__", "%": "__mod__", "**": "__pow__",
              "==": "__eq__", "!=": "__ne__", "<": "__lt__", "<=": "__le__", ">": "__gt__", ">=": "__ge__"}


def term_of(T):
    """T-form -> Term, built the way a user builds term objects: through the operators and methods of the Term API
    (`-a`, `a ** b`, `a.maximum(b)`, ...), never through the raw Expression constructor"""
    er = env()["er"]
    k = T[0]
    if k == "col":
        return er.ColumnReference(T[1])
    if k == "val":
        return er.Value(val_of(T[1]))
    if k == "list":
        return er.ListTerm([er.Value(val_of(v)) for v in T[1]])
    if k == "dict":
        return er.DictTerm({val_of(a): val_of(b) for a, b in T[1]})
    op, args = T[1], [term_of(a) for a in T[4]]
    if T[2]:                                   # inline operator
        if len(args) == 1:
            if op != "-":
                raise ValueError("unary " + op)
            return -args[0]
        r = args[0]
        for a in args[1:]:
            if op in ("and", "or"):
                raise ValueError("and / or have no operator in the Term API")
            r = getattr(r, BIN_DUNDER[op])(a)
        return r
    if op == "fmax":
        return args[0].fmax(args[1])
    return getattr(args[0], op)(*args[1:])


def decode_expr(v):
    if isinstance(v, dict) and "term" in v:
        return term_of(v["term"])
    if isinstance(v, dict) and "py" in v:
        return val_of(v["py"])
    return v


def build_spec(s):
    E = env()
    if s is None:
        return None
    return E["cd"].RecordSpecification(E["pd"].DataFrame({k: list(v) for k, v in s["control_table"].items()}), record_keys=list(s["record_keys"]),
                                       control_table_keys=list(s["control_table_keys"]), strict=bool(s["strict"]))


def build(script, memo=None):
    """script -> real operator DAG through the public builder API"""
    E = env()
    memo = {} if memo is None else memo
    key = id(script)
    if key in memo:
        return memo[key]
    op = script["op"]
    if op == "table":
        from data_algebra.data_ops import TableDescription
        r = TableDescription(table_name=script["name"], column_names=list(script["columns"]), qualifiers=script.get("qualifiers"))
    elif op == "sqlnode":
        r = E["vr"].SQLNode(sql=list(script["sql"]), column_names=list(script["columns"]), view_name=script["view_name"])
    else:
        src = build(script["src"], memo)
        if op == "extend":
            r = src.extend({k: decode_expr(v) for k, v in script["ops"].items()}, partition_by=script.get("partition_by") or None,
                           order_by=script.get("order_by") or None, reverse=script.get("reverse") or None)
        elif op == "project":
            r = src.project({k: decode_expr(v) for k, v in script["ops"].items()}, group_by=script.get("group_by") or None)
        elif op == "select_rows":
            r = src.select_rows(decode_expr(script["expr"]))
        elif op == "convert_records":
            rm = script["recmap"]
            r = src.convert_records(E["cd"].RecordMap(blocks_in=build_spec(rm["blocks_in"]), blocks_out=build_spec(rm["blocks_out"]), strict=bool(rm["strict"])))
        elif op == "order_rows":
            r = src.order_rows(script["columns"], reverse=script.get("reverse") or None, limit=script.get("limit"))
        else:
            r = E["pipes"].apply_step(src, script, lambda b: build(b, memo))
    memo[key] = r
    return r


def walk_script(script):
    yield script
    if "src" in script:
        yield from walk_script(script["src"])
    if "b" in script:
        yield from walk_script(script["b"])


def normalise(script, tmap):
    s = json.loads(json.dumps(script))
    for n in walk_script(s):
        if n["op"] == "table" and "columns" not in n:
            n["columns"] = [c for c, _ in tmap[n["name"]]["spec"]]
    return s


# ================================================================================================ generators
STR_ALPHABET = ["a", "b", "Z", "0", " ", "'", '"', "\\", "\n", "\t", "\r", "\x00", "\x07", "\x1b", "\x7f", "%", "{", "}", "#", "é", "ß", "😀", "→",
                "\x85", "\xa0", "\xad", " ", "﻿", "\U000e0001", "\\n", "\\'", "%s", "{}", "''", '""', "\\\\", "x", "_"]


def gen_string(rng, maxlen=8):
    n = rng.choice([0, 1, 1, 2, 3, 4, maxlen])
    return "".join(rng.choice(STR_ALPHABET) for _ in range(n))


LIT_PIECES = ["a", "B", "7", " ", "\\\\", "\\'", '\\"', "\\n", "\\r", "\\t", "\\a", "\\b", "\\f", "\\v", "\\0", "\\7", "\\12", "\\101", "\\377", "\\400", "\\18",
              "\\x41", "\\xe9", "\\x0", "\\xg1", "\\u00e9", "\\u2028", "\\ud800", "\\u12", "\\U0001f600", "\\U00110000", "\\U0001f60", "\\q", "\\ ", "\\%", "\\\n",
              "é", "😀", "'", '"', "\n", "%", "{"]


def gen_literal(rng):
    q = rng.choice(["'", '"'])
    body = "".join(rng.choice(LIT_PIECES) for _ in range(rng.choice([0, 1, 2, 3, 5])))
    r = rng.random()
    if r < 0.06:
        return q + body                      # unterminated
    if r < 0.10:
        return rng.choice(["b", "r", "u", "f"]) + q + body + q
    if r < 0.13:
        return q * 3 + body + q * 3
    return q + body + q


def literal_value(lit):
    """what Python makes of the literal text (None: not a str value / error)"""
    try:
        with warnings.catch_warnings():
            warnings.simplefilter("ignore")
            v = ast.literal_eval(lit)
    except Exception:
        return None
    return v if isinstance(v, str) else None


# columns of the corner table: name -> type
CORNER_COLS = {"x": "int", "y": "float", "z": "int", "s": "str", "g": "str", "b": "bool"}
INT_LITS = ["0", "1", "2", "3", "7", "10", "12345678901234567890", "-1", "-3", "-12345678901234567890"]
FLT_LITS = ["0.5", "2.5", "0.1", "1e16", "1e+16", "1e-05", "1.5e300", "1.0", "100.0", "1e22", "123456789.123", "5e-324", "-0.5", "-0.0", "0.0", "3.", "1E3"]
STR_LITS = ["a", "b", "dd", "e f", "it's", 'say "hi"', "back\\slash", "new\nline", "tab\there", "%d%%", "{x}", "é😀", "", "'", '"', "\\", "\\'", "nbsp\xa0x", "\x85"]


class ExprGen:
    """expression TEXTS (as a user writes them) over typed columns, rich in the corners the property names"""

    def __init__(self, rng, colty):
        self.rng, self.colty = rng, colty

    def cols(self, ty):
        return [c for c, t in self.colty.items() if t == ty or (ty == "num" and t in ("int", "float"))]

    def strlit(self):
        s = self.rng.choice(STR_LITS) if self.rng.random() < 0.8 else gen_string(self.rng, 5)
        return repr(s)

    def numlit(self):
        return self.rng.choice(INT_LITS if self.rng.random() < 0.5 else FLT_LITS)

    def num(self, d):
        rng = self.rng
        cs = self.cols("num")
        if d <= 0 or rng.random() < 0.22 or not cs:
            return rng.choice(cs) if cs and rng.random() < 0.65 else self.numlit()
        r = rng.random()
        a = self.num(d - 1)
        if r < 0.22:
            return f"{a} {rng.choice(['+', '-', '*', '/', '%', '//'])} {self.num(d - 1)}"
        if r < 0.30:
            return f"({a} {rng.choice(['+', '-', '*'])} {self.num(d - 1)}) {rng.choice(['*', '-', '/'])} {self.num(d - 1)}"
        if r < 0.38:
            return f"{a} + {self.num(d - 1)} + {self.num(d - 1)}" if rng.random() < 0.5 else f"{a} * {self.num(d - 1)} * {self.num(d - 1)}"
        if r < 0.58:
            b = self.num(d - 1)
            return rng.choice([f"-{a}", f"-({a})", f"(-{a}) ** 2", f"-{a} ** 2", f"-(-{a})", f"--{a}", f"{a} ** {b}", f"{a} ** -2", f"{a} ** {b} ** 2",
                               f"({a} ** {b}) ** 2", f"(-3) ** {a}", f"-3 ** {a}", f"2 - -{a}", f"+{a}", f"(-{a}).abs()", f"-{a}.abs()", f"(-2.5) ** {a}",
                               f"{a} ** (-{b})", f"-{a} * -{b}", f"{a} - (-3)", f"(-{a} + {b}) ** 2"])
        c = rng.choice(cs)
        if r < 0.70:
            return rng.choice([f"{c}.abs()", f"({a}).abs()", f"{c}.maximum({a})", f"{c}.minimum(-1)", f"fmax({c}, {a})", f"{c}.round()", f"{c}.around(2)",
                               f"{c}.floor()", f"({a}).sign()", f"{c}.coalesce(0)", f"{c}.coalesce_0()", f"{c} %?% -1", f"{c}.exp().log()"])
        if r < 0.82:
            return f"({self.boolean(d - 1)}).if_else({a}, {self.num(d - 1)})"
        ss = self.cols("str")
        if ss and r < 0.92:
            keys = rng.sample(STR_LITS, rng.choice([1, 2, 3]))
            dflt = rng.choice(["", ", 0", ", -1", ", 2.5"])
            return "%s.mapv({%s}%s)" % (rng.choice(ss), ", ".join("%r: %s" % (k, self.numlit()) for k in keys), dflt)
        return f"{c}.where({self.boolean(d - 1)}, {a})" if False else f"({a})"

    def boolean(self, d):
        rng = self.rng
        r = rng.random()
        ns, ss, bs = self.cols("num"), self.cols("str"), self.cols("bool")
        if d > 0 and r < 0.2:
            return f"{self.boolean(d - 1)} {rng.choice(['and', 'or'])} {self.boolean(d - 1)}"
        if d > 0 and r < 0.3:
            return rng.choice([f"not {self.boolean(d - 1)}", f"not ({self.boolean(d - 1)})"])
        if ss and r < 0.45:
            return f"{rng.choice(ss)} {rng.choice(['==', '!='])} {self.strlit()}"
        if ss and r < 0.58:
            n = rng.choice([1, 2, 2, 3, 4])
            return "%s.is_in([%s])" % (rng.choice(ss), ", ".join(self.strlit() for _ in range(n)))
        if ns and r < 0.68:
            n = rng.choice([1, 2, 3])
            return "%s.is_in([%s])" % (rng.choice(ns), ", ".join(rng.choice(INT_LITS) for _ in range(n)))
        if ns and r < 0.76:
            return rng.choice([f"{rng.choice(ns)}.is_null()", f"{rng.choice(ns)}.is_bad()", f"({self.num(d)}).is_nan()"])
        if bs and r < 0.82:
            return rng.choice(bs)
        return f"{self.num(d)} {rng.choice(['<', '<=', '>', '>=', '==', '!='])} {self.num(d)}"

    def string(self, d):
        rng = self.rng
        ss = self.cols("str")
        r = rng.random()
        if not ss or r < 0.25:
            return self.strlit()
        c = rng.choice(ss)
        if r < 0.5:
            return f"{c} %+% {self.strlit()}"
        if r < 0.65:
            return f"{c}.concat({self.strlit()})"
        if r < 0.8:
            return f"{c}.coalesce({self.strlit()})"
        if r < 0.9:
            return f"({self.boolean(d)}).if_else({c}, {self.strlit()})"
        return c

    def any(self, d=2):
        r = self.rng.random()
        if r < 0.55:
            return self.num(d), "float"
        if r < 0.75:
            return self.boolean(d), "bool"
        return self.string(d), "str"


def gen_term(rng, colty, d=2):
    """an expression OBJECT built without the parser (T-form), including shapes the parser never builds"""
    cols = list(colty)
    r = rng.random()
    if d <= 0 or r < 0.25:
        if rng.random() < 0.5:
            return ["col", rng.choice(cols)]
        return ["val", rng.choice([["int", 3], ["int", -3], ["float", "2.5"], ["float", "-2.5"], ["float", "1e16"], ["float", "-0.0"], ["bool", True], ["str", "it's"],
                                   ["str", 'a"b\\c\n'], ["int", 12345678901234567890], ["np.float64", "1.5"], ["np.int64", 2], ["nan"], ["inf", False], ["inf", True]])]
    a = gen_term(rng, colty, d - 1)
    b = gen_term(rng, colty, d - 1)
    if r < 0.45:
        return ["op", rng.choice(["+", "-", "*", "/", "**", "==", "<", "%", "//"]), True, False, [a, b]]
    if r < 0.55:
        return ["op", "+", True, False, [a, b, gen_term(rng, colty, d - 1)]]
    if r < 0.68:
        return ["op", "-", True, False, [a]]
    if r < 0.80:
        return ["op", rng.choice(["abs", "sin", "is_null", "round", "floor"]), False, True, [a]]
    if r < 0.90:
        return ["op", rng.choice(["maximum", "minimum", "coalesce"]), False, True, [a, b]]
    if r < 0.95:
        return ["op", "is_in", False, True, [["col", rng.choice(cols)], ["list", [["int", 1], ["int", -2]]]]]
    return ["op", "fmax", False, False, [a, b]]


WEIRD_NAMES = ["my col", "a-b", "2x", "None", "True", "if", "class", "größe", "x.y", "a'b", 'q"t', "back\\s", "nl\nx", "", "lambda", "inf", "nan"]
PLAIN_NAMES = ["x", "y", "z", "s", "g", "b", "k", "v", "w", "id", "val_1", "_t", "Col9", "abs", "sum"]


class CornerGen:
    """pipelines over one typed table, rich in the corners the property names; every step is applied through the builder API"""

    def __init__(self, rng):
        self.rng = rng
        self.fresh = 0

    def newcol(self, colty):
        while True:
            self.fresh += 1
            c = self.rng.choice(["n", "m", "q", "r", "t", "u"]) + str(self.fresh)
            if c not in colty:
                return c

    def table(self, name="d", weird=False):
        rng = self.rng
        colty = dict(CORNER_COLS)
        if rng.random() < 0.3:
            for c in rng.sample(PLAIN_NAMES[6:], 2):
                colty.setdefault(c, rng.choice(["int", "float", "str"]))
        if weird:
            for c in rng.sample(WEIRD_NAMES, rng.choice([1, 2])):
                colty[c] = rng.choice(["int", "str"])
        quals = None
        if rng.random() < 0.15:
            quals = {k: rng.choice(["main", "s'1", 'q"x', "ü"]) for k in rng.sample(["schema", "catalog", "db"], rng.choice([1, 2]))}
        tname = name if rng.random() < 0.8 else rng.choice(["my table", "t'1", 'T"2', "tä", "d\\e"])
        return {"op": "table", "name": tname, "columns": list(colty), "qualifiers": quals}, colty

    def step(self, script, colty, depth_left):
        rng = self.rng
        g = ExprGen(rng, colty)
        r = rng.random()
        cols = list(colty)
        if r < 0.30:                                            # extend, plain
            ops, new = {}, dict(colty)
            for _ in range(rng.choice([1, 1, 2, 3])):
                text, ty = g.any(rng.choice([1, 2, 3]))
                k = self.newcol(new) if rng.random() < 0.8 else rng.choice(cols)
                if k in ops:
                    continue
                if rng.random() < 0.12:
                    ops[k] = {"term": gen_term(rng, colty, 2)}
                elif rng.random() < 0.05:
                    ops[k] = {"py": rng.choice([["int", 1], ["float", "2.5"], ["bool", True], ["none"], ["int", -4]])}
                else:
                    ops[k] = text
                new[k] = ty
            return {"op": "extend", "src": script, "ops": ops}, new
        if r < 0.42:                                            # windowed extend
            ns = g.cols("num")
            if not ns:
                return None
            part = rng.choice([[], ["g"], ["g", "s"], 1]) if "g" in colty and "s" in colty else rng.choice([[], 1])
            ordered = rng.random() < 0.5
            k = self.newcol(colty)
            c = rng.choice(ns)
            if ordered:
                fn = rng.choice([f"{c}.cumsum()", f"{c}.cummax()", "_row_number()", f"{c}.shift()", f"{c}.shift(-1)", f"{c}.shift(2)", f"{c}.cumcount()"])
                oc = [x for x in rng.sample(ns, min(len(ns), rng.choice([1, 2]))) if part == 1 or x not in (part or [])]
                if not oc:
                    return None
                rev = [x for x in oc if rng.random() < 0.4]
                s = {"op": "extend", "src": script, "ops": {k: fn}, "partition_by": part, "order_by": oc, "reverse": rev}
            else:
                fn = rng.choice([f"{c}.sum()", f"{c}.max()", f"{c}.mean()", "_size()", f"{c}.min()", f"{c}.count()"])
                s = {"op": "extend", "src": script, "ops": {k: fn}, "partition_by": part if part != [] else 1}
            new = dict(colty)
            new[k] = "float"
            return s, new
        if r < 0.50:                                            # project
            ns = g.cols("num")
            gb = [c for c in ["g", "s"] if c in colty and rng.random() < 0.6]
            ops, new = {}, {c: colty[c] for c in gb}
            for _ in range(rng.choice([0, 1, 2])):
                if not ns:
                    break
                k = self.newcol(colty)
                ops[k] = rng.choice([f"{rng.choice(ns)}.sum()", f"{rng.choice(ns)}.mean()", "_size()", f"{rng.choice(ns)}.max()", f"{rng.choice(ns)}.min()"])
                new[k] = "float"
            if not ops and not gb:
                return None
            return {"op": "project", "src": script, "ops": ops, "group_by": gb}, new
        if r < 0.60:
            if rng.random() < 0.1:
                return {"op": "select_rows", "src": script, "expr": {"term": gen_term(rng, colty, 2)}}, colty
            return {"op": "select_rows", "src": script, "expr": g.boolean(rng.choice([0, 1, 2]))}, colty
        if r < 0.66:
            keep = [c for c in cols if rng.random() < 0.7] or cols[:1]
            rng.shuffle(keep) if rng.random() < 0.3 else None
            return {"op": "select_columns", "src": script, "columns": keep}, {c: colty[c] for c in keep}
        if r < 0.71:
            drop = [c for c in cols if rng.random() < 0.25]
            if not drop or len(drop) == len(cols):
                return None
            return {"op": "drop_columns", "src": script, "columns": drop}, {c: t for c, t in colty.items() if c not in drop}
        if r < 0.76:
            olds = rng.sample(cols, min(len(cols), rng.choice([1, 2])))
            m = {self.newcol(colty) if rng.random() < 0.8 else rng.choice(["new col", "q't", "ü2"]) + str(self.fresh): o for o in olds}
            new = {}
            inv = {o: n for n, o in m.items()}
            for c, t in colty.items():
                new[inv.get(c, c)] = t
            return {"op": "rename_columns", "src": script, "map": m}, new
        if r < 0.80:
            olds = rng.sample(cols, min(len(cols), rng.choice([1, 2, 3])))
            m, new = {}, {}
            for o in olds:
                m[o] = None if (rng.random() < 0.35 and len(cols) > len(olds)) else self.newcol(colty)
            if all(v is None for v in m.values()) and len(m) == len(cols):
                return None
            for c, t in colty.items():
                if c in m:
                    if m[c] is not None:
                        new[m[c]] = t
                else:
                    new[c] = t
            if not new:
                return None
            return {"op": "map_columns", "src": script, "map": m}, new
        if r < 0.88:
            oc = rng.sample(cols, min(len(cols), rng.choice([0, 1, 2])))
            rev = [c for c in oc if rng.random() < 0.4]
            lim = rng.choice([None, None, 0, 1, 3, 1000000])
            if not oc and lim is None:
                return None
            return {"op": "order_rows", "src": script, "columns": oc, "reverse": rev, "limit": lim}, colty
        if r < 0.94 and depth_left > 0:                         # join with a small second table
            keys = [c for c in ["g", "x", "s"] if c in colty]
            if not keys:
                return None
            k = rng.choice(keys)
            renamed = rng.random() < 0.4
            bk = "key_b" if renamed else k
            extra = self.newcol(colty)
            b = {"op": "table", "name": rng.choice(["e", "e2", "other t"]), "columns": [bk, extra], "qualifiers": None}
            on = [[k, bk]] if renamed else ([k] if rng.random() < 0.7 else [[k, k]])
            jt = rng.choice(["left", "LEFT", "inner", "Inner", "full", "right", "outer"])
            new = dict(colty)
            if renamed:
                new[bk] = colty[k]
            new[extra] = "int"
            return {"op": "natural_join", "src": script, "b": b, "on": on, "jointype": jt}, new
        if depth_left > 0:                                      # concat with a renamed copy of the same table
            b = {"op": "table", "name": rng.choice(["d_more", "d'2"]), "columns": rng.sample(cols, len(cols)), "qualifiers": None}
            idc = rng.choice([None, "source_name", "src id", "it's", 'q"'])
            if idc in colty:
                return None
            new = dict(colty)
            if idc is not None:
                new[idc] = "str"
            return {"op": "concat_rows", "src": script, "b": b, "id_column": idc, "a_name": rng.choice(["a", "left's", 'A"', "", "ü\\"]),
                    "b_name": rng.choice(["b", "right\n", "{b}", "%s"])}, new
        return None

    def recmap_pipeline(self):
        rng = self.rng
        keys = rng.sample(["id", "grp", "rec key", "i'd"], rng.choice([0, 1, 2]))
        kcol = rng.choice(["k", "measure", "the key"])
        nval = rng.choice([1, 2])
        nrow = rng.choice([2, 3])
        kvals = rng.sample(["a", "b", "c", "it's", 'q"', "d\\e", "ü"], nrow)
        ct = {kcol: kvals}
        content = []
        for j in range(nval):
            vs = ["%s_%d_%d" % (rng.choice(["v", "w", "val's"]), j, i) for i in range(nrow)]
            ct[rng.choice(["v", "value", "val col"]) + str(j)] = vs
            content += vs
        spec = {"record_keys": keys, "control_table": ct, "control_table_keys": [kcol], "strict": True}
        unpivot = rng.random() < 0.5
        if unpivot:
            src_cols = keys + content
            rm = {"blocks_in": None, "blocks_out": spec, "strict": True}
        else:
            src_cols = keys + list(ct)
            rm = {"blocks_in": spec, "blocks_out": None, "strict": True}
        t = {"op": "table", "name": "recs", "columns": src_cols, "qualifiers": None}
        s = {"op": "convert_records", "src": t, "recmap": rm}
        if rng.random() < 0.3:
            out = content if not unpivot else list(ct)
            s = {"op": "select_columns", "src": s, "columns": keys + out[:1]} if (keys + out[:1]) else s
        return s

    def pipeline(self, depth, weird=False):
        s, colty = self.table(weird=weird)
        n = tries = 0
        while n < depth and tries < depth * 8:
            tries += 1
            r = self.step(s, colty, depth - n)
            if r is None:
                continue
            s2, colty2 = r
            try:
                build(s2)
            except Exception:
                continue                       # the builder rejected the step (C26's subject): try another
            s, colty = s2, colty2
            n += 1
        return s, colty


def special_pipelines():
    """fixed pipelines for the corners named in the property text and for the findings"""
    T = {"op": "table", "name": "d", "columns": ["x", "y", "s", "g"], "qualifiers": None}
    TW = {"op": "table", "name": "d", "columns": ["x", "my col", "None", "if", "größe", "a-b"], "qualifiers": None}
    out = [
        {"op": "extend", "src": T, "ops": {"a": "(-x) ** 2", "b": "-x ** 2", "c": "-(-x)", "e": "x ** -2", "f": "x ** y ** 2", "h": "(x ** y) ** 2",
                                            "i": "-3 ** x", "j": "(-3) ** x", "k": "2 - -3", "l": "1e16 + 0.1 + 1e-07 + 123456789012345678901234567890"}},
        {"op": "extend", "src": T, "ops": {"a": "s %+% 'it\\'s \"q\" \\\\ \\n %s {} é'", "b": "s.is_in(['a', \"b'c\", 'd\"e'])", "c": "s.mapv({'a': 1, 'b': -2}, -1)",
                                            "e": "(x > 1).if_else(y, -1.5)"}},
        {"op": "extend", "src": T, "ops": {"a": "x.sum()"}, "partition_by": 1},
        {"op": "extend", "src": T, "ops": {"a": "x.cumsum()"}, "partition_by": ["g"], "order_by": ["y", "x"], "reverse": ["y"]},
        {"op": "order_rows", "src": T, "columns": ["x"], "reverse": ["x"], "limit": 0},
        {"op": "order_rows", "src": T, "columns": [], "reverse": [], "limit": 3},
        {"op": "extend", "src": {"op": "order_rows", "src": T, "columns": ["x"], "reverse": [], "limit": None}, "ops": {"a": "x + 1"}},
        {"op": "extend", "src": {"op": "extend", "src": T, "ops": {"a": "x + 1"}}, "ops": {"b": "y + 1"}},
        {"op": "extend", "src": {"op": "extend", "src": T, "ops": {"a": "x + 1"}}, "ops": {"b": "a + 1"}},
        {"op": "select_columns", "src": {"op": "drop_columns", "src": T, "columns": ["g"]}, "columns": ["x", "y"]},
        {"op": "extend", "src": TW, "ops": {"n1": "größe + 1", "n2": "x + 2"}},
        {"op": "select_columns", "src": TW, "columns": ["my col", "None", "a-b"]},
        {"op": "extend", "src": TW, "ops": {"n1": {"term": ["op", "+", True, False, [["col", "if"], ["val", ["int", 1]]]]}}},
    ]
    for bad, cause in [(["col", "my col"], 0), (["col", "None"], 0), (["col", "a-b"], 0), (["val", ["nan"]], 0), (["val", ["inf", False]], 0),
                       (["val", ["np.float64", "1.5"]], 0), (["val", ["np.int64", 2]], 0)]:
        src = TW if bad[0] == "col" else T
        out.append({"op": "extend", "src": src, "ops": {"n1": {"term": ["op", "+", True, False, [["col", "x"], bad]]}}})
    out.append({"op": "extend", "src": T, "ops": {"n1": {"term": ["op", "**", True, False, [["val", ["float", "-0.0"]], ["col", "x"]]]}}})
    out.append({"op": "extend", "src": T, "ops": {"n1": "x.is_in([-1,])", "n2": "x.is_in([1])"}})
    out.append({"op": "extend", "src": {"op": "sqlnode", "sql": ["SELECT 1 AS x", "FROM t"], "columns": ["x"], "view_name": "v"}, "ops": {"y": "x + 1"}})
    return out


# ================================================================================================ the oracle (real code)
def variants(p, which=None):
    """(name, producer of the printed text); every way the API prints a pipeline.  `which`: restrict to these names"""
    E = env()
    vs = [("to_python", lambda: p.to_python()), ("to_python_indent", lambda: p.to_python(indent=4)),
          ("pretty", lambda: p.to_python(pretty=True)), ("repr", lambda: repr(p)), ("str", lambda: str(p))]
    if E["black"] is not None:
        vs.append(("black_narrow", lambda: p.to_python(pretty=True, black_mode=E["black"].FileMode(line_length=40))))
    return [v for v in vs if which is None or v[0] in which]


FAST_VARIANTS = ("to_python", "repr")          # black is slow: the other variants are run on a third of the pipelines in the quick tier


def corner_frames(rng, p):
    """random inputs for the tables of p (types guessed from the corner column names)"""
    E = env()
    frames = {}
    for k, td in p.get_tables().items():
        spec = []
        for c in td.column_names:
            ty = CORNER_COLS.get(c)
            if ty is None:
                ty = "str" if c in ("k", "key_b") and False else rng.choice(["int", "float", "str"])
            spec.append((c, ty))
        nrows = rng.choice([0, 1, 3, 5])
        rows = [[E["pipes"].gen_value(rng, ty, 0.15) for _, ty in spec] for _ in range(nrows)]
        frames[k] = E["pipes"].make_frame(spec, rows)
    return frames


def frames_same(a, b):
    """None when the two result frames are the same table (column order, row order, values with the 1e-8 rule); column
    labels are compared as text (a NaN label -- record transforms on empty inputs produce them -- is not equal to itself)"""
    E = env()

    def labelled(df):
        d = df.copy()
        d.columns = ["<%s:%s>" % (type(c).__name__, c) for c in df.columns]
        return d
    try:
        return E["pipes"].frames_equiv(labelled(a), labelled(b), check_col_order=True, check_row_order=True)
    except Exception as e:
        return None if a.equals(b) else "frames not comparable: " + type(e).__name__


def safe(f):
    try:
        return ("ok", f())
    except Exception as e:
        return ("exc", type(e).__name__ + ": " + str(e)[:160])


def causes_of(p):
    """which listed limitation (if any) a pipeline runs into: decides the known-finding signature"""
    E = env()
    er, np = E["er"], E["np"]
    found = set()

    def term(t, parent_pow_base=False):
        if isinstance(t, er.ColumnReference):
            n = t.column_name
            if not re.fullmatch(r"[^\W\d]\w*", n) or n in ("None", "True", "False"):
                found.add("non_identifier_column")
        elif isinstance(t, er.Value):
            v = t.value
            if isinstance(v, np.generic):
                found.add("numpy_scalar_constant")
            elif isinstance(v, float):
                if math.isnan(v):
                    found.add("nan_constant")
                elif math.isinf(v):
                    found.add("infinite_constant")
        elif isinstance(t, er.ListTerm):
            vals = [x.value if isinstance(x, er.Value) else x for x in t.value]
            for v in vals:
                if isinstance(v, float) and (math.isnan(v) or math.isinf(v)):
                    found.add("infinite_constant" if math.isinf(v) else "nan_constant")
        elif isinstance(t, er.Expression):
            for i, a in enumerate(t.args):
                term(a, parent_pow_base=(t.inline and i == 0 and len(t.args) > 1))
    for n in walk_nodes(p):
        if n.node_name == "SQLNode":
            found.add("sql_node")
        for t in terms_of(n):
            term(t)
    return sorted(found)


SQL_TEXT_ONLY = [0]        # rebuilt pipelines whose SQL text differs while both texts return the same table (counted in the evidence)


def oracle(p, rng, frames=None, which=None):
    """-> list of failures: dicts {variant, kind, detail, text}"""
    E = env()
    fails = []
    sql_p = safe(lambda: p.to_sql())
    if frames is None:
        frames = corner_frames(rng, p)
    res_p = safe(lambda: E["pipes"].eval_pandas(p, frames))

    def compare(name, q, text):
        a, b = safe(lambda: q == p), safe(lambda: p == q)
        if a != ("ok", True) or b != ("ok", True):
            fails.append({"variant": name, "kind": "not_equal", "detail": f"q == p: {a[1]!r}, p == q: {b[1]!r}", "text": text})
            return
        sql_q = safe(lambda: q.to_sql())
        if sql_q[0] != sql_p[0]:
            fails.append({"variant": name, "kind": "sql_differs", "detail": f"{sql_p[1][:200]!r} vs {sql_q[1][:200]!r}", "text": text})
            return
        if sql_p[0] == "ok" and sql_q[1] != sql_p[1]:
            # The property asks for an equal pipeline with the same RESULT, not for the same SQL text: the generator lists the columns of
            # an intermediate SELECT in the iteration order of a Python set, which a pickle round trip (sets are rebuilt element by
            # element) may change.  Texts that differ are therefore executed on SQLite on the corner frames: only a different table or a
            # different failure is a violation (a difference that is only textual is counted).
            ra = safe(lambda: E["pipes"].eval_sqlite(p, frames, sql=sql_p[1]))
            rb = safe(lambda: E["pipes"].eval_sqlite(q, frames, sql=sql_q[1]))
            same_sql_result = ra[0] == rb[0] and (ra[0] != "ok" or E["pipes"].frames_equiv(ra[1], rb[1], check_col_order=True, check_row_order=False) is None)
            if not same_sql_result:
                fails.append({"variant": name, "kind": "sql_differs", "detail": f"{sql_p[1][:200]!r} vs {sql_q[1][:200]!r}; executed: {str(ra[1])[:80]} / {str(rb[1])[:80]}", "text": text})
                return
            SQL_TEXT_ONLY[0] += 1
        res_q = safe(lambda: E["pipes"].eval_pandas(q, frames))
        if res_q[0] != res_p[0]:
            fails.append({"variant": name, "kind": "result_differs", "detail": f"original {res_p[0]}: {str(res_p[1])[:120]} / rebuilt {res_q[0]}: {str(res_q[1])[:120]}", "text": text})
        elif res_p[0] == "ok":
            why = frames_same(res_p[1], res_q[1])
            if why is not None:
                fails.append({"variant": name, "kind": "result_differs", "detail": why, "text": text})
    for name, mk in variants(p, which):
        t = safe(mk)
        if t[0] != "ok":
            fails.append({"variant": name, "kind": "print_raises", "detail": t[1], "text": None})
            continue
        q = safe(lambda: E["eval_da_ops"](t[1], data_model_map=None))
        if q[0] != "ok":
            fails.append({"variant": name, "kind": "rebuild_raises", "detail": q[1], "text": t[1]})
            continue
        compare(name, q[1], t[1])
    q = safe(lambda: pickle.loads(pickle.dumps(p)))
    if q[0] != "ok":
        fails.append({"variant": "pickle", "kind": "rebuild_raises", "detail": q[1], "text": None})
    else:
        compare("pickle", q[1], None)
    return fails, {"evaluated": res_p[0] == "ok", "sql": sql_p[0] == "ok"}


def script_size(s):
    return sum(1 for _ in walk_script(s))


def shrink_script(script, fails):
    """smaller script on which `fails` still holds: drop steps (replace a node by its source), drop assignments"""
    cur = json.loads(json.dumps(script))
    changed = True
    steps = 0
    while changed and steps < 60:
        changed = False
        # replace the whole script by a sub-script
        for n in list(walk_script(cur))[1:]:
            steps += 1
            try:
                if fails(n):
                    cur, changed = json.loads(json.dumps(n)), True
                    break
            except Exception:
                pass
        if changed:
            continue
        # bypass one step: parent.src := node.src
        nodes = list(walk_script(cur))
        for parent in nodes:
            child = parent.get("src")
            if child is None or "src" not in child:
                continue
            cand = json.loads(json.dumps(cur))
            for pn in walk_script(cand):
                if json.dumps(pn, sort_keys=True) == json.dumps(parent, sort_keys=True):
                    pn["src"] = pn["src"]["src"]
                    break
            steps += 1
            try:
                if fails(cand):
                    cur, changed = cand, True
                    break
            except Exception:
                pass
        if changed:
            continue
        # drop one assignment
        for i, n in enumerate(list(walk_script(cur))):
            if n["op"] in ("extend", "project") and len(n.get("ops", {})) > 1:
                for k in list(n["ops"]):
                    cand = json.loads(json.dumps(cur))
                    m = list(walk_script(cand))[i]
                    del m["ops"][k]
                    steps += 1
                    try:
                        if fails(cand):
                            cur, changed = cand, True
                            break
                    except Exception:
                        pass
                if changed:
                    break
    return cur


LISTED_CAUSES = ("non_identifier_column", "infinite_constant", "nan_constant")


def signature(fail, causes):
    """the cause that explains the failure: a cause without a listed finding first (so that it is reported), else the first listed one"""
    unlisted = [c for c in causes if c not in LISTED_CAUSES]
    cause = unlisted[0] if unlisted else (causes[0] if causes else "none")
    return {"oracle": "roundtrip", "cause": cause, "failure": fail["kind"] if fail["kind"] in ("rebuild_raises", "print_raises") else "differs"}


def report(chk, script, fail, causes, rng_seed):
    """one oracle failure -> impl_violation (after shrinking the script, unless a listed finding already matches it)"""
    import random
    sig = signature(fail, causes)
    for f in chk.known:
        if lib.match_sig(f.get("signature", {}), sig):
            return chk.impl_violation(f["what"], {"kind": "oracle", "script": script}, sig)

    def still_fails(s):
        p = build(s)
        fs, _ = oracle(p, random.Random(rng_seed))
        return any(f["variant"] == fail["variant"] and f["kind"] == fail["kind"] for f in fs) and causes_of(p) == causes
    small = script
    try:
        if still_fails(script):
            small = shrink_script(script, still_fails)
    except Exception:
        pass
    try:
        p = build(small)
        fs, _ = oracle(p, random.Random(rng_seed))
        f2 = next((f for f in fs if f["variant"] == fail["variant"] and f["kind"] == fail["kind"]), fail)
    except Exception:
        f2 = fail
    what = (f"a printed pipeline does not rebuild to an equal pipeline with identical results: {f2['variant']} / {f2['kind']} ({f2['detail'][:160]})")
    replay = {"kind": "oracle", "script": small, "variant": f2["variant"], "failure": f2["kind"], "detail": f2["detail"], "text": f2.get("text"), "frame_seed": rng_seed,
              "expected": "eval_da_ops(text) == p, p == that, identical to_sql and Pandas results", "causes": causes}
    return chk.impl_violation(what, replay, signature(f2, causes))


# ================================================================================================ the run
def corpus_scripts():
    out = []
    for fn in sorted(glob.glob(os.path.join(lib.ROOT, "corpus", "C12", "*.json"))):
        try:
            out.append(json.load(open(fn))["script"])
        except Exception:
            pass
    return out


def run(chk):
    import random, time
    rng, tier = chk.rng, chk.tier
    n = N[tier]
    E = env()
    phase, tph = {}, time.time()
    chk.prove([], extra_vo=["theories/Model/PipePrintCases.vo"])
    phase["prove"] = round(time.time() - tph, 1)
    tph = time.time()
    chk.cov["trusted_base"] = [
        "Coq 8.16.1 kernel + vm_compute",
        "hand models Model/PipePrintStr.v (str.__repr__, Python string-literal values, Expression.to_python as text, the lark lexer on that text), Model/PipePrintSyn.v (tokens / syntax / parser of the printed Python subset), "
        "Model/PipePrint.v (to_python_src_ of every node class, RecordMap / RecordSpecification repr, the evaluation eval_da_ops performs incl. the builder steps that decide which tree comes out); sampled by correspondence on every run",
        "C13's models Model/PyExpr.v, ExprPrint.v, ExprParse.v (expression objects, to_python tokens, lark parser model + walker) and its theorem printable_roundtrip; C11's Model/Equiv.v (operator trees, ==) and its theorems; Gen/G_MergeOps.v regenerated from data_ops_utils.py",
        "Python itself: repr(float) / float(text) (a parameter of the model: the theorems assume float(repr(x)) == x and that repr(x) is one FLOAT_NUMBER literal; checked for every float that reaches a case), "
        "str.isprintable (a parameter: the theorems hold for every choice), CPython's tokenizer and parser (the model has its own parser of the printed subset; token streams and rebuilt trees are compared)",
        "black is outside the model: it is assumed to change layout, string quotes and trailing commas only (the model's parser reads the black-formatted token stream too; compared on every run); pickle is oracle-only",
        "harness/props/C12.py serialisation of Term objects / operator nodes (copied from C11 / C13)",
    ]
    chk.assumptions = [
        "theorems are about pipelines in builder-normal form (Model/PipePrint.normal: no skipped order_rows, unmerged mergeable extends or collapsed select_columns left in the tree; flags as the constructors compute them) -- every tree the builder API produces; reported as normal_form_coverage",
        "expressions are printable in C13's sense (what the parser builds; no infinite constant) and lexable (column / method names are ASCII identifiers that are not keywords; no nan: C13's value type has none)",
        "float(repr(x)) == x and repr(x) is a FLOAT_NUMBER literal, for the float constants of the pipeline (Python's float repr; hypothesis float_lex_ok of the theorems)",
        "validation by the builders beyond the structural tests transcribed in Model/PipePrint.v (window-function catalogue) is C26's subject; generated pipelines are accepted ones",
        "SQLNode, DictTerm inside pipelines (mapv), control-table cells that are not strings, pipelines whose expressions name keyword / non-ASCII columns: no image in the model (oracle only)",
    ]
    chk.cov["rule"] = ("(a) random strings over quotes, backslashes, control characters, %, braces, printable and non-printable non-ASCII code points; (b) random literal texts over every escape form; "
                       "(c) expression texts from a typed grammar rich in unary minus, power chains, negative / float / huge constants, quoted strings, is_in lists, mapv dicts, if_else, plus term objects built without the parser; "
                       "(d) pipelines of harness/pipes.py and (e) corner pipelines over one typed table: windowed extends (partition_by=1, order_by, reverse), limits 0/None, joins on pairs, concat labels with quotes, "
                       "record maps, qualifiers, odd table / column names; a fixed list of witnesses; non-trivial = at least 2 steps or a corner expression; distinct by printed text")
    terms, meta = [], []
    all_floats = set()

    def add_case(term, info):
        terms.append(term)
        meta.append(info)

    # ---------------------------------------------------------------- (a) repr of str / literal values
    strings = [gen_string(rng) for _ in range(n["strings"])] + STR_LITS + WEIRD_NAMES
    for s in strings:
        lit = repr(s)
        chk.count(("str", s), nontrivial=len(s) > 0)
        if literal_value(lit) != s:
            chk.impl_violation("repr(str) does not evaluate back to the string", {"kind": "repr", "string": s}, {"oracle": "repr"})
        add_case("(CRepr %s %s %s)" % (npl_c([s]), cstr(s), cstr(lit)), {"kind": "repr", "string": s})
    for _ in range(n["literals"]):
        lit = gen_literal(rng)
        if "\\N" in lit:
            continue
        v = literal_value(lit)
        if lit[:1] not in "'\"" or lit[:3] in ("'''", '"""'):
            v = None                  # prefixes and triple quotes are outside the model: it must answer None
        add_case("(CUnq %s %s)" % (cstr(lit), "None" if v is None else "(Some %s)" % cstr(v)), {"kind": "literal", "literal": lit})
    chk.dist("string_cases", len(terms))
    phase["strings"] = round(time.time() - tph, 1)
    tph = time.time()

    # ---------------------------------------------------------------- (c) expressions
    from data_algebra.data_ops import TableDescription
    er = E["er"]
    dd = {k: er.ColumnReference(k) for k in CORNER_COLS}
    g = ExprGen(rng, CORNER_COLS)
    n_expr = 0
    for i in range(n["exprs"]):
        if i % 6 == 5:
            try:
                t = term_of(gen_term(rng, CORNER_COLS, 3))
                text0 = None
            except Exception:
                continue
        else:
            text0, _ = g.any(rng.choice([1, 2, 3, 4]))
            try:
                t = E["pbl"].parse_by_lark(text0, data_def=dd)
            except Exception:
                chk.dist("expr_rejected")
                continue
        try:
            text = str(t.to_python())
        except Exception as e:
            chk.impl_violation(f"to_python() raises {type(e).__name__}", {"kind": "expr", "source": text0}, {"oracle": "expr_print"})
            continue
        n_expr += 1
        chk.count(("expr", text), nontrivial=len(text) > 3)
        try:
            e13 = expr13_c(t)
        except Unsupported as u:
            chk.dist("expr_outside_model:" + str(u))
            continue
        fl = set()
        floats_of_term(t, fl)
        all_floats |= fl
        strs = []
        _collect_strings(t, strs)
        add_case("(CText %s %s %s %s)" % (ftab_c(fl), npl_c(strs), e13, cstr(text)), {"kind": "expr_text", "text": text, "source": text0})
        toks = lark_lex(text)
        if toks is not None and all(k[0] != "other" for k in toks) and _names_ascii(toks):
            extra = [k[2] for k in toks if k[0] == "float"]
            add_case("(CLex %s %s (Some %s))" % (ftab_c(fl, extra), cstr(text), clist([tok13_c(k) for k in toks])), {"kind": "lex", "text": text})
            # parse_by_lark of the printed text in the context of the corner columns
            r = safe(lambda: E["pbl"].parse_by_lark(text, data_def=dd))
            names = set()
            names_of_term(t, names)
            if r[0] == "ok":
                try:
                    rc = "(Ok %s)" % expr13_c(r[1])
                except Unsupported:
                    rc = None
            else:
                rc = "Err"
            if rc is not None and not (set(CORNER_COLS) & set(keyword.kwlist)):
                ALL_NAMES.update(names)
                add_case("(CParse %s K0 %s %s %s)" % (ftab_c(fl, extra), clist([cstr(c) for c in CORNER_COLS]), cstr(text), rc),
                         {"kind": "parse", "text": text})
    chk.dist("expressions", n_expr)
    phase["expressions"] = round(time.time() - tph, 1)
    tph = time.time()

    # ---------------------------------------------------------------- (d, e) pipelines
    scripts = []
    for s in corpus_scripts():
        scripts.append(("corpus", s, None))
    for s in special_pipelines():
        scripts.append(("special", s, None))
    pipes = E["pipes"]
    for i in range(n["pipes"]):
        tables = [pipes.gen_table(rng, "d1", colnames=["a", "b", "c", "d", "e", "g", "h"]), pipes.gen_table(rng, "d2", colnames=["a", "c", "k", "m", "g", "q", "r"])]
        gen = pipes.Gen(rng, tables)
        try:
            s, colty, order = gen.pipeline(rng.choice([1, 2, 3, 4, 5]))
        except Exception:
            continue
        tmap = {t["name"]: t for t in tables}
        scripts.append(("pipes", normalise(s, tmap), {k: pipes.table_frame(t) for k, t in tmap.items()}))
    cg = CornerGen(rng)
    for i in range(n["corner"]):
        r = rng.random()
        try:
            if r < 0.08:
                s = cg.recmap_pipeline()
            else:
                s, _ = cg.pipeline(rng.choice([1, 2, 2, 3, 4, 6]), weird=(r > 0.9))
        except Exception:
            continue
        scripts.append(("corner", s, None))

    n_normal = n_modelled = n_black = 0
    seen_text = set()
    oracle_stats = {"pipelines": 0, "evaluated_on_pandas": 0, "sql_generated": 0, "failures": 0, "known": 0}
    for origin, script, frames in scripts:
        try:
            p = build(script)
        except Exception as e:
            chk.dist("script_rejected_by_builder")
            continue
        t0 = safe(lambda: p.to_python())
        key = t0[1] if t0[0] == "ok" else json.dumps(script, sort_keys=True, default=str)
        if key in seen_text and origin not in ("corpus", "special"):
            continue
        seen_text.add(key)
        nsteps = script_size(script)
        chk.count(("pipe", key), nontrivial=nsteps >= 3)
        chk.dist("origin_" + origin)
        for nd in walk_nodes(p):
            chk.dist("node_" + nd.node_name)
        oracle_stats["pipelines"] += 1
        seed = rng.randrange(1 << 30)
        which = None if (origin in ("corpus", "special") or rng.random() < (0.6 if tier == "thorough" else 0.34)) else FAST_VARIANTS
        fails, st = oracle(p, random.Random(seed), frames, which)
        oracle_stats["variants_all" if which is None else "variants_fast"] = oracle_stats.get("variants_all" if which is None else "variants_fast", 0) + 1
        oracle_stats["evaluated_on_pandas"] += int(st["evaluated"])
        oracle_stats["sql_generated"] += int(st["sql"])
        causes = causes_of(p)
        if fails:
            oracle_stats["failures"] += 1
            new = report(chk, script, fails[0], causes, seed)
            if not new:
                oracle_stats["known"] += 1
        elif causes and origin == "special":
            chk.dist("finding_witness_no_longer_fails:" + "+".join(causes))
        if len(chk.cov["samples"]) < 4 and t0[0] == "ok" and nsteps >= 3:
            chk.sample({"text": t0[1][:600], "oracle_failures": len(fails)})
        # ---- correspondence
        if t0[0] != "ok":
            continue
        try:
            cp = c_op(p)
            ec, fl = env_c(p)
            toks = py_tokens(t0[1])
        except Unsupported as u:
            chk.dist("pipeline_outside_model:" + str(u).split(" ")[0])
            continue
        except TokenizeFailed as u:
            chk.corr_break("the text of to_python() is not a Python token stream: " + str(u), {"script": script, "text": t0[1][:1500]})
            continue
        if _uses_keyword_column(p):
            chk.dist("pipeline_outside_model:keyword_or_non_ascii_column_in_expression")
            continue
        all_floats |= fl
        n_modelled += 1
        info = {"kind": "pipeline", "script": script, "origin": origin}
        add_case("(CPrint %s %s %s)" % (ec, cp, clist([ptok_c(t) for t in toks])), dict(info, what="print"))
        for vname, mk in (("to_python", lambda: t0[1]), ("pretty", lambda: p.to_python(pretty=True))):
            tv = safe(mk)
            if tv[0] != "ok":
                continue
            if vname == "pretty":
                # the assumption about black: layout, quote style and trailing commas only
                try:
                    if norm_tokens(py_tokens(tv[1])) != norm_tokens(toks):
                        chk.corr_break("black changed the token stream of a printed pipeline beyond layout / quotes / trailing commas", {"script": script, "plain": t0[1][:1200], "black": tv[1][:1200]})
                    n_black += 1
                except (Unsupported, TokenizeFailed):
                    pass
            q = safe(lambda: E["eval_da_ops"](tv[1], data_model_map=None))
            try:
                tk = py_tokens(tv[1])
                rc = "None" if q[0] != "ok" else "(Some %s)" % c_op(q[1])
            except (Unsupported, TokenizeFailed):
                continue
            add_case("(CRebuild %s %s %s)" % (ec, clist([ptok_c(t) for t in tk]), rc), dict(info, what="rebuild:" + vname))
        if not causes and not fails:
            add_case("(CNormal %s %s true)" % (ec, cp), dict(info, what="normal"))
            n_normal += 1
    chk.cov["oracle"].update(oracle_stats)
    chk.cov["oracle"]["what"] = "q = eval_da_ops(text) for to_python plain / indent=4 / pretty, repr, str, black line_length=40, and pickle: no exception, q == p, p == q, same to_sql text or -- when only the text differs -- the same table from both texts on SQLite, same Pandas result (column and row order)"
    chk.cov["oracle"]["sql_text_differs_same_table"] = SQL_TEXT_ONLY[0]
    check_float_assumption(chk, all_floats)

    phase["pipelines_and_oracle"] = round(time.time() - tph, 1)
    tph = time.time()
    # ---------------------------------------------------------------- run the cases inside Coq
    failing, errors, n_checked = lib.run_case_files("cases_C12", preamble(), terms, "check_cases", per_file=PER_FILE)
    kinds = {}
    for m in meta:
        k = m.get("what") or m["kind"]
        k = k.split(":")[0]
        kinds[k] = kinds.get(k, 0) + 1
    chk.cov["correspondence"] = {"cases": len(terms), "checked_in_coq": n_checked, "by_kind": kinds, "disagreements": len(failing), "errors": len(errors),
                                 "pipelines_with_model_image": n_modelled, "black_token_streams_compared": n_black, "normal_form_coverage": f"{n_normal} pipelines without a listed limitation, all required to be normal"}
    chk.cov["traces_validated_against_impl"] = n_checked
    phase["coq_cases"] = round(time.time() - tph, 1)
    chk.cov["phase_s"] = phase
    for e in errors[:3]:
        chk.corr_break("case file did not compile: " + e[:300], e)
    for idx in failing[:8]:
        m = meta[idx]
        chk.corr_break(f"model and implementation disagree on {m.get('what') or m['kind']}: {json.dumps(m, default=str)[:300]}", {"case": m, "term": terms[idx][:3000]})
    if failing or errors:
        search_after_break(chk, rng, [meta[i] for i in failing], n["search"])


def _collect_strings(t, out):
    er = env()["er"]
    if isinstance(t, er.Expression):
        for a in t.args:
            _collect_strings(a, out)
    elif isinstance(t, er.Value):
        if isinstance(t.value, str):
            out.append(t.value)
    elif isinstance(t, er.ListTerm):
        for v in t.value:
            vv = v.value if isinstance(v, er.Value) else v
            if isinstance(vv, str):
                out.append(vv)
    elif isinstance(t, er.DictTerm):
        for k, v in t.value.items():
            for x in (k, v):
                if isinstance(x, str):
                    out.append(x)


def _names_ascii(toks):
    return all(k[0] != "name" or re.fullmatch(r"[A-Za-z_][A-Za-z_0-9]*", k[1]) for k in toks)


def _uses_keyword_column(p):
    er = env()["er"]

    def term(t):
        if isinstance(t, er.ColumnReference):
            n = t.column_name
            return n in keyword.kwlist or (re.fullmatch(r"[^\W\d]\w*", n) is not None and not n.isascii())
        if isinstance(t, er.Expression):
            return any(term(a) for a in t.args)
        return False
    return any(term(t) for n in walk_nodes(p) for t in terms_of(n))


def search_after_break(chk, rng, failing_meta, budget):
    """a model / implementation disagreement is not a violation by itself: look for an input on which the REAL code fails the
    property -- the disagreeing pipelines first (already done by the oracle in run), then a larger random corpus"""
    import random
    if any(v[2] for v in chk.violations):
        return
    cg = CornerGen(rng)
    for i in range(budget):
        try:
            s, _ = cg.pipeline(rng.choice([1, 2, 3, 4, 6]), weird=False)
            p = build(s)
        except Exception:
            continue
        seed = rng.randrange(1 << 30)
        fails, _ = oracle(p, random.Random(seed))
        if fails and report(chk, s, fails[0], causes_of(p), seed):
            return


def replay(path):
    import random
    r = json.load(open(path))
    if r.get("kind") == "repr":
        s = r["string"]
        bad = literal_value(repr(s)) != s
        print("repr round trip", "FAILS" if bad else "holds")
        return 1 if bad else 0
    if "script" not in r:
        print("replay file names a broken proof / correspondence only:", r.get("what"))
        return 1
    try:
        p = build(r["script"])
    except Exception as e:
        print("the builder now rejects the script:", type(e).__name__, e)
        return 0
    fails, _ = oracle(p, random.Random(r.get("frame_seed", 0)))
    for f in fails:
        print("FAILS", f["variant"], f["kind"], f["detail"][:200])
    if not fails:
        print("every printed form rebuilds to an equal pipeline with identical results")
    return 1 if fails else 0
