"""C25 -- the evaluation result cache is transparent.
proof: Props/C25.v about the hand model Model/Cache.v (heap of frames, cache of private copies; refinement to a value map)
tie:   correspondence: random store/get/mutate/read histories on the real ResultCache and on the model (vm_compute)
oracle: real cache vs. a dict keyed by (dialect, sql, frozen data map) of frame contents; hash separation probes"""
import json, os, warnings
import lib
from lib import clist, cstr, cbool

warnings.filterwarnings("ignore")
N = {"quick": 500, "thorough": 12000}


def frame_pool():
    import pandas as pd, numpy as np
    base = {"x": [1, 2, 3], "y": ["a", "b", "c"]}
    P = {
        "base": pd.DataFrame(base),
        "val": pd.DataFrame({"x": [1, 2, 4], "y": ["a", "b", "c"]}),
        "sval": pd.DataFrame({"x": [1, 2, 3], "y": ["a", "b", "d"]}),
        "col": pd.DataFrame({"x": [1, 2, 3], "z": ["a", "b", "c"]}),
        "rows": pd.DataFrame({"x": [3, 2, 1], "y": ["c", "b", "a"]}),
        "short": pd.DataFrame({"x": [1, 2], "y": ["a", "b"]}),
        "narrow": pd.DataFrame({"x": [1, 2, 3]}),
        "float": pd.DataFrame({"x": [1.0, 2.0, 3.5], "y": ["a", "b", "c"]}),
        "null": pd.DataFrame({"x": [1.0, np.nan, 3.0], "y": ["a", "b", "c"]}),
        "colorder": pd.DataFrame({"y": ["a", "b", "c"], "x": [1, 2, 3]}),
        # the same SET of column names bound to different columns (values identical by position)
        "ab": pd.DataFrame({"a": [1, 2], "b": [3, 4]}), "ba": pd.DataFrame({"b": [1, 2], "a": [3, 4]}),
        "ab_swapped_values": pd.DataFrame({"a": [3, 4], "b": [1, 2]}),
        "empty": pd.DataFrame({"x": pd.Series([], dtype="int64")}),
        "r1": pd.DataFrame({"r": [10]}), "r2": pd.DataFrame({"r": [20]}), "r3": pd.DataFrame({"r": [10, 20]}),
    }
    return P


def ident(df):
    import math
    vals = []
    for r in df.itertuples(index=False):
        vals.append(tuple(None if (isinstance(v, float) and math.isnan(v)) else (repr(type(v).__name__), v) for v in r))
    return (tuple(df.columns), tuple(str(t) for t in df.dtypes), tuple(vals))


class Ids:
    def __init__(self):
        self.d = {}

    def of(self, df):
        k = ident(df)
        if k not in self.d:
            self.d[k] = len(self.d)
        return self.d[k]


def gen_history(rng, maxlen):
    names = ["S", "P"]
    sqls = ["select 1", "select 2", "SELECT 1"]
    pool = ["base", "val", "sval", "col", "rows", "short", "narrow", "float", "null", "colorder", "empty", "r1", "r2", "r3"]
    ops, nh = [], 0
    for _ in range(rng.randint(2, maxlen)):
        r = rng.random()
        if nh == 0 or r < 0.3:
            ops.append(["new", rng.choice(pool)]); nh += 1
        elif r < 0.45:
            ops.append(["mutate", rng.randrange(nh), rng.choice([7, 8, 9])])
        elif r < 0.7:
            dm = {k: rng.randrange(nh) for k in rng.sample(["a", "b", "c"], rng.randint(1, 2))}
            ops.append(["store", rng.choice(names), rng.choice(sqls), dm, rng.randrange(nh)])
        elif r < 0.9:
            dm = {k: rng.randrange(nh) for k in rng.sample(["a", "b", "c"], rng.randint(1, 2))}
            ops.append(["get", rng.choice(names), rng.choice(sqls), dm]); nh += 1      # nh is an upper bound (a failed get adds none)
        else:
            ops.append(["read", rng.randrange(nh)])
    return ops


def run_impl(ops):
    """returns (outputs, normalised ops with handles fixed up to the handles that really exist)"""
    import pandas as pd
    import data_algebra.SQLite, data_algebra.PostgreSQL
    from data_algebra.eval_cache import ResultCache
    models = {"S": data_algebra.SQLite.SQLiteModel(), "P": data_algebra.PostgreSQL.PostgreSQLModel()}
    pool = frame_pool()
    ids = Ids()
    cache = ResultCache()
    heap, outs, nops = [], [], []
    for o in ops:
        if o[0] == "new":
            heap.append(pool[o[1]].copy()); outs.append(["loc", len(heap) - 1]); nops.append(["new", ids.of(heap[-1])])
        elif o[0] == "mutate":
            h = o[1] % len(heap)
            df = heap[h]
            if df.shape[0] == 0 or str(df.dtypes.iloc[0]) not in ("int64", "float64"):
                continue
            df.iloc[0, 0] = o[2]                        # in place
            outs.append(["unit"]); nops.append(["mutate", h, ids.of(df)])
        elif o[0] == "store":
            dm = {k: v % len(heap) for k, v in o[3].items()}
            res = o[4] % len(heap)
            cache.store(db_model=models[o[1]], sql=o[2], data_map={k: heap[v] for k, v in dm.items()}, res=heap[res])
            outs.append(["unit"]); nops.append(["store", o[1], o[2], dm, res])
        elif o[0] == "get":
            dm = {k: v % len(heap) for k, v in o[3].items()}
            try:
                r = cache.get(db_model=models[o[1]], sql=o[2], data_map={k: heap[v] for k, v in dm.items()})
                heap.append(r); outs.append(["loc", len(heap) - 1])
            except KeyError:
                outs.append(["keyerror"])
            nops.append(["get", o[1], o[2], dm])
        else:
            h = o[1] % len(heap)
            outs.append(["val", ids.of(heap[h])]); nops.append(["read", h])
    return outs, nops, models


def oracle(nops, outs, names):
    """value-level reference: dict keyed by (name, sql, frozen map of frame ids)"""
    heap, cache = [], {}
    for i, (o, r) in enumerate(zip(nops, outs)):
        if o[0] == "new":
            heap.append(o[1]); exp = ["loc", len(heap) - 1]
        elif o[0] == "mutate":
            heap[o[1]] = o[2]; exp = ["unit"]
        elif o[0] == "store":
            key = (o[1], o[2], frozenset((k, heap[v]) for k, v in o[3].items()))
            cache[key] = heap[o[4]]; exp = ["unit"]
        elif o[0] == "get":
            key = (o[1], o[2], frozenset((k, heap[v]) for k, v in o[3].items()))
            if key in cache:
                heap.append(cache[key]); exp = ["loc", len(heap) - 1]
            else:
                exp = ["keyerror"]
        else:
            exp = ["val", heap[o[1]]]
        if r != exp:
            return i, f"operation {o} gave {r}, a transparent cache gives {exp}"
    return None


def cop(o):
    def dm(d):
        return clist(["(%s, %d%%nat)" % (cstr(k), v) for k, v in d.items()])
    if o[0] == "new":
        return "CNew %d%%nat" % o[1]
    if o[0] == "mutate":
        return "CMutate %d%%nat %d%%nat" % (o[1], o[2])
    if o[0] == "store":
        return "CStore %s %s %s %d%%nat" % (cstr(o[1]), cstr(o[2]), dm(o[3]), o[4])
    if o[0] == "get":
        return "CGet %s %s %s" % (cstr(o[1]), cstr(o[2]), dm(o[3]))
    return "CRead %d%%nat" % o[1]


def cout(r):
    return {"loc": lambda: "RLoc %d%%nat" % r[1], "val": lambda: "RVal %d%%nat" % r[1], "unit": lambda: "RUnit", "keyerror": lambda: "RKeyError"}[r[0]]()


def hash_probes(chk):
    """frames that differ in one value / column name / shape / row order / dtype must not share a hash"""
    import itertools
    from data_algebra.eval_cache import hash_data_frame
    import pandas as pd
    pool = frame_pool()
    pool["bool"] = pd.DataFrame({"x": [True, False, True]})
    pool["int01"] = pd.DataFrame({"x": [1, 0, 1]})
    pool["str1"] = pd.DataFrame({"x": ["1", "0", "1"]})
    pool["f01"] = pd.DataFrame({"x": [1.0, 0.0, 1.0]})
    # identical values under column labels that differ only in where one label ends and the next begins (equal concatenation),
    # in separators inside a label, and in the label's type: a key that folds the labels into a digest without delimiting them merges these
    two = [[1, 2], [3, 4]]
    for nm, labels in (("lab_ab_c", ["ab", "c"]), ("lab_a_bc", ["a", "bc"]), ("lab_abc_", ["abc", ""]), ("lab__abc", ["", "abc"]),
                       ("lab_1_23", [1, 23]), ("lab_12_3", [12, 3]), ("lab_s1_s23", ["1", "23"]), ("lab_xcy_z", ["x, y", "z"]), ("lab_x_ycz", ["x", "y, z"]),
                       ("lab_q", ["a'", "b"]), ("lab_q2", ["a", "'b"])):
        pool[nm] = pd.DataFrame(two, columns=labels)
    n = 0
    for (a, fa), (b, fb) in itertools.combinations(sorted(pool.items()), 2):
        n += 1
        chk.count(("hash", a, b), nontrivial=True)
        same_content = ident(fa) == ident(fb)
        if (hash_data_frame(fa) == hash_data_frame(fb)) != same_content:
            kind = "dtype_only" if (tuple(fa.columns) == tuple(fb.columns) and fa.shape == fb.shape and
                                    all(x == y for x, y in zip(fa.to_numpy().ravel().tolist(), fb.to_numpy().ravel().tolist()))) else "content"
            chk.impl_violation(f"different data frames share a cache hash ({a} vs {b})",
                               {"kind": "impl-violation", "probe": "hash", "a": a, "b": b, "frame_a": fa.to_dict("list"), "frame_b": fb.to_dict("list"),
                                "dtypes_a": [str(t) for t in fa.dtypes], "dtypes_b": [str(t) for t in fb.dtypes]}, {"probe": "hash", "differ": kind, "dtypes": "|".join(sorted({str(t) for t in fa.dtypes} | {str(t) for t in fb.dtypes}))})
    chk.cov["oracle"]["hash_pairs"] = n


def run(chk):
    rng = chk.rng
    n = N[chk.tier]
    chk.prove([], extra_vo=["theories/Model/CacheCases.vo"])
    chk.cov["trusted_base"] = ["Coq 8.16.1 kernel + vm_compute", "hand model Model/Cache.v of eval_cache.py (heap of frames, private copies, key = (str(db_model), sql, sorted (name, hash) pairs))",
                               "hash_data_frame (pandas.util.hash_pandas_object + SHA-256) separates different frames: THEOREM HYPOTHESIS hash_inj, probed on every run, not verified",
                               "list.sort on keys is a canonical permutation (theorem hypotheses sort_perm/sort_canon; case files use insertion sort on code points)",
                               "pandas DataFrame.copy()/equals() semantics; correspondence harness harness/props/C25.py (frame identity = columns + dtypes + values)"]
    chk.assumptions = ["the caller only mutates frames it holds (theorem hypothesis well_behaved)", "data maps have unique string keys (Python dict)"]
    chk.cov["rule"] = ("random histories (2..14 quick / 2..40 thorough operations: new frame from a 14-frame pool differing in one value/column/shape/row order/dtype, in-place "
                       "mutation, store, get, read) over 2 dialects x 3 SQL strings x data maps with 1-2 of 3 keys; plus all pairs of 33 probe frames for hash separation (incl. 11 label-boundary frames: same values, labels with equal concatenation / separators inside / int vs str labels); "
                       "non-trivial = history with >=1 store and >=1 get; distinct by content")
    maxlen = 14 if chk.tier == "quick" else 40
    terms, meta = [], []
    for i in range(n):
        ops = gen_history(rng, maxlen)
        try:
            outs, nops, models = run_impl(ops)
        except Exception as e:
            chk.corr_break("ResultCache raised unexpectedly", {"ops": ops, "error": repr(e)})
            continue
        kinds = [o[0] for o in nops]
        chk.count(json.dumps(nops), nontrivial=("store" in kinds and "get" in kinds))
        for o, r in zip(nops, outs):
            chk.dist(o[0] + (":" + r[0] if o[0] == "get" else ""))
        if i < 2:
            chk.sample({"ops": nops, "outputs": outs})
        bad = oracle(nops, outs, models)
        if bad is not None:
            chk.impl_violation("result cache is not transparent: " + bad[1], {"kind": "impl-violation", "ops": ops, "normalised_ops": nops, "observed": outs, "reason": bad[1]}, {"probe": "history"})
        names = {k: str(m) for k, m in models.items()}
        def nm(o):
            o = list(o)
            if o[0] in ("store", "get"):
                o[1] = names[o[1]]
            return o
        terms.append("(%s, %s)" % (clist([cop(nm(o)) for o in nops]), clist([cout(r) for r in outs])))
        meta.append({"ops": nops, "observed": outs})
    hash_probes(chk)
    if os.path.exists(os.path.join(lib.COQ, "theories/Model/CacheCases.vo")):
        pre = ("From Coq Require Import List ZArith Bool String.\nImport ListNotations.\nOpen Scope string_scope.\n"
               "From DA Require Import Base.PyRT Base.Cases Model.Cache Model.CacheCases.\nOpen Scope list_scope.\n")
        failing, errors, nchecked = lib.run_case_files("C25", pre, terms, "check_cases", per_file=200)
        chk.cov["correspondence"] = {"cases": len(terms), "checked_in_coq": nchecked, "disagreements": len(failing), "errors": errors[:2]}
        chk.cov["traces_validated_against_impl"] = nchecked
        if errors:
            chk.corr_break("correspondence case files failed to compile", errors[0])
        for i in failing[:3]:
            chk.corr_break("Model/Cache.v disagrees with eval_cache.ResultCache", meta[i])
    else:
        chk.corr_break("Model/CacheCases.vo not built", "")


def replay(path):
    r = json.load(open(path))
    if "ops" in r and "normalised_ops" in r:
        outs, nops, models = run_impl(r["ops"])
        bad = oracle(nops, outs, models)
        print(outs); print("divergence", bad)
        return 0 if bad is None else 1
    if r.get("probe") == "hash":
        import pandas as pd
        from data_algebra.eval_cache import hash_data_frame
        a = pd.DataFrame(r["frame_a"]).astype(dict(zip(r["frame_a"], r["dtypes_a"])))
        b = pd.DataFrame(r["frame_b"]).astype(dict(zip(r["frame_b"], r["dtypes_b"])))
        same = hash_data_frame(a) == hash_data_frame(b)
        print("hash equal:", same)
        return 1 if same else 0
    print(json.dumps(r, indent=1)[:3000])
    return 1
