"""C02 -- PostgreSQL SQL computes the same table as the Pandas executor.   PARTIAL: there is no PostgreSQL server in the sandbox.
proof:  Props/C02.v: the agreement theorem of C01 (Model/Sem.v + Model/SemStrict.v) instantiated at the written PostgreSQL
        conventions `fl_postgres`; `_refuted` witness for the unguarded statement (descending order, null key, limit); Examples of
        what fl_postgres changes with respect to SQLite (placement of nulls in orderings).
tie:    the PostgreSQL-dialect text of PostgreSQLModel.to_sql() -- native RIGHT / FULL JOIN, WITH, and with
        SQLFormatOptions(use_cte_elim=True) / use_with=False the CTE-elimination and nested-query paths SQLite's dialect never takes --
        is EXECUTED on SQLite 3.40.1 (shims for LN / POWER / CEILING).  The engine is SQLite, so the result is tied to
        sem_gen fl_sqlite (correspondence inside Coq); Pandas is tied to sem_gen fl_pandas.
oracle: Pandas result vs each variant's result, C01's comparison rule and decision rule.  A difference caused by SQLite's own
        ascending NULLS FIRST is a convention of the executing ENGINE, not of PostgreSQL (which sorts nulls last ascending, like
        Pandas): it is counted, never reported.  NULL ordering, NULLIF numeric division, BIGINT casts and PostgreSQL's own function
        semantics rest on the written flavour fl_postgres only."""
import json
import lib, pipes, execcorr as X, semstrict as SS
from props.C01 import load_cases

N = {"quick": 100, "thorough": 750}
VARIANTS = [("pgtext", "postgres", None),
            ("pgtext_cte_elim", "postgres", {"use_cte_elim": True}),
            ("pgtext_no_with", "postgres", {"use_with": False})]


def run(chk):
    chk.prove([], extra_vo=["theories/Model/SemCases.vo", "theories/Model/SemStrictCases.vo"])
    chk.cov["trusted_base"] = [
        "Coq 8.16.1 kernel + vm_compute",
        "hand model Model/Sem.v (sem_gen fl_pandas for Pandas; sem_gen fl_sqlite for the engine that executes the PostgreSQL text here; "
        "sem_gen fl_postgres = the WRITTEN conventions of a PostgreSQL server, tied to no implementation) -- modelled, not verified",
        "SQLite 3.40.1 as the executor of the PostgreSQL-dialect text (same quoting, WITH, native RIGHT / FULL JOIN, window functions; "
        "shims execcorr._pg_shims for LN, POWER, CEILING)",
        "harness/semconv.py, harness/pipes.py, harness/semstrict.py, harness/execcorr.py"]
    chk.assumptions = [
        "PARTIAL CLAIM: no PostgreSQL server exists in the sandbox.  What is checked against an engine is the PostgreSQL-dialect TEXT run on SQLite; "
        "what a real server would do differently (NULLS LAST ascending / FIRST descending, NULLIF numeric division, BIGINT casts, PostgreSQL's "
        "function semantics, type checking of the text) rests on the written flavour fl_postgres and is not tied to any implementation",
        "a difference caused by SQLite's ascending NULLS FIRST is a convention of the executing engine, counted as engine_convention_nulls_first_asc",
        "C01's assumptions (fragment of Model/Sem.v, accepted convention, comparison rule)"]
    chk.cov["rule"] = ("C01's stream, biased to pipelines that reuse a sub-pipeline (shared node on both sides of a join / concat_rows) and to the paths only this dialect takes "
                       "(native RIGHT / FULL joins on same-named keys with unmatched rows on the right and on the left; joins / concats whose branches apply textually identical "
                       "extends, plain and windowed, to different tables or to differently filtered copies of one table); every case evaluated on Pandas "
                       "and as PostgreSQL-dialect text on SQLite under three option sets: default, use_cte_elim=True, use_with=False; non-trivial = depth >= 2")
    corpus, findings = load_cases("C02")
    SS.run_check(chk, "C02", VARIANTS, N[chk.tier], corpus, findings, deep=(chk.tier == "thorough"), engine_artifacts=("nulls_first_asc",), share_bias=True)


def replay(path):
    return SS.replay_case(json.load(open(path)), VARIANTS)
