"""C09 -- aggregation returns one row per group, and one row without grouping.
proof:  Props/C09.v over Model/Sem.v (all flavours): an ungrouped project has exactly one row whatever its input and whatever
        column steps follow; a grouped project has one row per distinct key combination (null = a key value); every input row is
        aggregated into the row of its key; a windowed extend keeps every row.
tie:    each backend's real result vs sem_gen <flavour> inside Coq (correspondence, every run).
oracle: on the real code, per backend: rows(project result) == number of distinct key combinations of the MATERIALISED input
        (computed independently in Python, null is a value), == 1 without group_by (also on empty input, also after steps that
        overwrite / drop every output); windowed extend keeps the row count and gives each row the aggregate of its own
        partition (null-key partition included)."""
import json, os, glob, math
import lib, pipes, execcorr as X

N = {"quick": 70, "thorough": 900}
BACKENDS = ("pandas", "sqlite", "pgtext", "polars", "pllazy")


def make_case(rng, big=False):
    """prefix -> project(group_by?) -> 0..2 column steps   |   prefix -> windowed extend with a group aggregate"""
    tabs = [pipes.gen_table(rng, "d1", null_rate=rng.choice([0.0, 0.3, 0.5]), nrows=0 if rng.random() < 0.15 else None,
                            types=("int", "float", "str"), unique_col="uid"),
            pipes.gen_table(rng, "d2", null_rate=0.3, unique_col="uid")]
    g = pipes.Gen(rng, tabs, features=["extend", "select_rows", "select_columns", "rename_columns", "natural_join", "concat_rows", "order_rows", "drop_columns"])
    src, colty, order = g.pipeline(rng.randint(0, 3 if big else 2))
    nums = pipes.cols_of(colty, "num")
    kind = rng.random()
    info = {"src": src}
    if kind < 0.7:
        gb = rng.sample(order, rng.choice([0, 0, 1, 1, 2]) if len(order) > 1 else rng.choice([0, 1]))
        vals = [c for c in nums if c not in gb]
        ops = {}
        for i in range(rng.randint(0 if gb else 1, 2)):
            fn = rng.choice(pipes.AGGS)
            k = f"o{i}"
            ops[k] = "_size()" if (fn == "size" or not vals) else f"{rng.choice(vals)}.{fn}()"
        if not ops and not gb:
            return None
        s = {"op": "project", "src": src, "ops": ops, "group_by": gb}
        outs, cur = list(ops), gb + list(ops)
        info.update({"kind": "project", "group_by": gb})
        for _ in range(rng.choice([0, 0, 1, 2])):
            r = rng.random()
            if r < 0.35 and outs:                       # overwrite outputs by constants
                s = {"op": "extend", "src": s, "ops": {o: str(rng.choice([1, 2, 0.5])) for o in outs if rng.random() < 0.8} or {outs[0]: "1"}}
            elif r < 0.55:                               # add a constant column, then keep only it: every aggregate is pruned
                s = {"op": "extend", "src": s, "ops": {"cc": "1"}}
                keep = ["cc"] + [c for c in gb if rng.random() < 0.5]
                s = {"op": "select_columns", "src": s, "columns": keep}
                cur, outs = keep, []
            elif r < 0.8 and outs and len(cur) > len(outs):
                s = {"op": "drop_columns", "src": s, "columns": list(outs)}
                cur = [c for c in cur if c not in outs]
                outs = []
            elif outs:
                keep = [c for c in cur if c not in outs] or [outs[0]]
                s = {"op": "select_columns", "src": s, "columns": keep}
                outs = [o for o in outs if o in keep]
                cur = keep
        info["later"] = pipes.script_depth(s) - pipes.script_depth(src) - 1
    else:
        if not nums:
            return None
        part = rng.sample(order, rng.choice([1, 1, 2]) if len(order) > 1 else 1)
        if rng.random() < 0.5:
            # the partition key is RE-DEFINED by a plain extend immediately before the window (the SQL generator may merge the two
            # SELECTs; the window must still partition by the NEW key)
            k = part[0]
            others = [c for c in order if c not in part]
            if colty.get(k) in ("int", "float"):
                e = f"({k} > {rng.choice([0, 1, 2])}).if_else(1, 0)"
            elif others:
                e = rng.choice(others)
            else:
                e = None
            if e is not None:
                src = {"op": "extend", "src": src, "ops": {k: e}}
                colty = dict(colty)
                colty[k] = "int" if "if_else" in e else colty[e]
                nums = pipes.cols_of(colty, "num")
                info["src"] = src
                info["rekeyed"] = True
        vals = [c for c in nums if c not in part] or nums
        fn = rng.choice(["sum", "mean", "min", "max", "count", "size"])
        v = rng.choice(vals)
        e = "_size()" if fn == "size" else f"{v}.{fn}()"
        s = {"op": "extend", "src": src, "ops": {"w0": e}, "partition_by": part}
        info.update({"kind": "wextend", "partition_by": part, "fn": fn, "arg": v})
    try:
        ops_ = pipes.build(s, {t["name"]: t for t in tabs})
        srcops = pipes.build(src, {t["name"]: t for t in tabs}) if src["op"] != "table" else None
    except Exception:
        return None
    c = X.Case(s, tabs, ops_)
    c.info = info
    c.src_case = X.Case(src, tabs, srcops) if srcops is not None else None
    return c


def materialised_source(c, backend="pandas"):
    """the project's / window's input as THIS backend materialises it (a row filter upstream may legitimately keep different
    rows on different backends: comparisons with null are a destination convention, C01's business)"""
    if c.src_case is None:
        return c.frames[c.info["src"]["name"]]
    r, err = c.src_case.result(backend)
    return r


def distinct_keys(frame, gb):
    return len({tuple(pipes.norm_cell(v) for v in r) for r in frame[gb].to_numpy(dtype=object)})


def ref_agg(fn, vals):
    xs = [v for v in vals if v is not None]
    if fn == "size":
        return float(len(vals))
    if fn == "count":
        return float(len(xs))
    if not xs:
        return None if fn != "sum" else "sum-of-nothing"          # documented destination convention: 0 (Pandas) or NULL (SQL)
    if fn == "sum":
        return float(sum(xs))
    if fn == "mean":
        return float(sum(xs)) / len(xs)
    return float(min(xs)) if fn == "min" else float(max(xs))


def oracle(c, backend, res, src):
    """None or a description of the violation"""
    info = c.info
    if info["kind"] == "project":
        gb = info["group_by"]
        want = 1 if not gb else distinct_keys(src, gb)
        if len(res) != want:
            return f"{backend}: project{'' if gb else ' without group_by'} returned {len(res)} rows, its input has {want} distinct key combination(s) ({len(src)} rows)"
        return None
    if len(res) != len(src):
        return f"{backend}: windowed extend returned {len(res)} rows for {len(src)} input rows"
    part, fn, arg = info["partition_by"], info["fn"], info["arg"]
    groups = {}
    for r in src[part + [arg]].to_numpy(dtype=object):
        groups.setdefault(tuple(pipes.norm_cell(v) for v in r[:-1]), []).append(pipes.norm_cell(r[-1]))
    # compare as multisets of (partition key, value): rows are not identified individually
    want = sorted(((k, ref_agg(fn, vs)) for k, vs in groups.items() for _ in vs), key=lambda kv: pipes.sort_key(kv[0]))
    got = {}
    for r in res[part + ["w0"]].to_numpy(dtype=object):
        got.setdefault(tuple(pipes.norm_cell(v) for v in r[:-1]), []).append(pipes.norm_cell(r[-1]))
    for k, vs in groups.items():
        exp = ref_agg(fn, vs)
        obs = got.get(k)
        if obs is None or len(obs) != len(vs):
            return f"{backend}: partition {k} has {len(vs)} rows in the input and {0 if obs is None else len(obs)} in the result"
        if exp == "sum-of-nothing":
            continue
        for o in obs:
            if not pipes.cells_close(o, exp):
                return f"{backend}: a row of partition {k} got {fn} = {o!r}, the partition's value is {exp!r}"
    return None


def run(chk):
    rng = chk.rng
    chk.prove([], extra_vo=["theories/Model/SemCases.vo"])
    chk.cov["trusted_base"] = [
        "Coq 8.16.1 kernel + vm_compute",
        "hand model Model/Sem.v: what each backend computes for a pipeline (sem_gen <flavour>) -- modelled, not verified; compared with every backend's real result on every run",
        "harness/semconv.py, harness/pipes.py, harness/execcorr.py (PostgreSQL-dialect text runs on SQLite 3.40.1; no PostgreSQL server here)"]
    chk.assumptions = ["a backend that raises is not counted (raising is not returning a wrong row count)",
                       "sum over a partition/group with no non-null value is a documented destination convention and is not compared"]
    chk.cov["rule"] = ("random prefix (depth 0..2, quick / 0..3 thorough; joins, concats, filters) followed by project with 0..2 group keys (null rate up to 0.5, "
                       "15% empty inputs) and 0..2 later column steps that overwrite / drop / prune every aggregate, or by a windowed extend with a group aggregate "
                       "over 1..2 partition columns; five backends; non-trivial = grouped with a null key present, or ungrouped, or windowed; distinct by script+tables")
    cases = []
    for f in sorted(glob.glob(os.path.join(lib.ROOT, "corpus", "C09", "*.json"))):
        try:
            j = json.load(open(f))
            c = X.case_from_json(j["case"])
            c.info = j["info"]
            src = c.info["src"]
            c.src_case = X.Case(src, c.tabs, pipes.build(src, c.tables)) if src["op"] != "table" else None
            cases.append(c)
        except Exception:
            chk.dist("corpus_unreadable")
    n = N[chk.tier]
    tries = 0
    while len(cases) < n and tries < n * 20:
        tries += 1
        c = make_case(rng, chk.tier == "thorough")
        if c is not None:
            cases.append(c)
    items = []
    for c in cases:
        src = materialised_source(c)
        if src is None:
            chk.dist("source_raised_on_pandas")
            continue
        srcs = {b: materialised_source(c, b) for b in BACKENDS}
        gb = c.info.get("group_by") or c.info.get("partition_by") or []
        has_null_key = bool(gb) and any(pipes.norm_cell(v) is None for r in src[gb].to_numpy(dtype=object) for v in r)
        chk.count(c.key(), nontrivial=(c.info["kind"] == "wextend" or not gb or has_null_key))
        chk.dist(c.info["kind"] + ("_ungrouped" if c.info["kind"] == "project" and not gb else "") + ("_nullkey" if has_null_key else ""))
        chk.dist("input_rows_%d" % min(len(src), 9))
        if len(chk.cov["samples"]) < 3:
            chk.sample({"case": c.json(), "info": {k: v for k, v in c.info.items() if k != "src"}})
        for b in BACKENDS:
            res, err = c.result(b)
            if res is None:
                chk.dist(f"{b}_raised")
                continue
            items.append((c, b, res))
            if srcs[b] is None:
                chk.dist(f"{b}_source_raised")
                continue
            why = oracle(c, b, res, srcs[b])
            if why:
                def fails(cc, b=b, c=c):
                    return False          # shrinking keeps the shape: only rows are reduced below
                rep = {"kind": "impl-violation", "case": c.json(), "info": c.info, "backend": b, "why": why,
                       "observed": pipes.frame_to_json(res), "materialised_input": pipes.frame_to_json(srcs[b])}
                sig = {"backend": b if b not in ("pgtext",) else "sqlite", "kind": c.info["kind"], "grouped": bool(gb),
                       "cause": "row_count" if "rows" in why and "got" not in why else "value"}
                chk.impl_violation(why, rep, sig)
    failing, nchecked, errors = X.sem_correspondence(chk, "C09", items)
    chk.cov["correspondence"] = {"cases": len(items), "checked_in_coq": nchecked, "disagreements": len(failing), "errors": errors[:2]}
    chk.cov["traces_validated_against_impl"] = nchecked
    if errors:
        chk.corr_break("correspondence case files failed to compile", errors[0])
    for i in failing:
        c, b, res = items[i]
        src = materialised_source(c, b)
        if src is not None and oracle(c, b, res, src) is None:
            chk.dist(f"value_only_disagreement_{b}")          # row counts are right: values are C01/C03/C16's business
            continue
        chk.corr_break(f"Model/Sem.v and the {b} backend disagree on the rows of a project / windowed extend", X.describe(c, b, res, None))


def replay(path):
    r = json.load(open(path))
    if "case" not in r:
        print(json.dumps(r, indent=1)[:3000]); return 1
    c = X.case_from_json(r["case"])
    c.info = r["info"]
    src = c.info["src"]
    c.src_case = X.Case(src, c.tabs, pipes.build(src, c.tables)) if src["op"] != "table" else None
    b = r.get("backend", "pandas")
    res, err = c.result(b)
    if res is None:
        print("backend raised:", err); return 0
    why = oracle(c, b, res, materialised_source(c, b))
    print(why or "ok")
    return 1 if why else 0
