"""C04 -- SQL formatting and optimisation options never change query results.
proof:  Props/C04.v over the hand models Model/NearSql.v (NearSQL graph + abstract compositional engine semantics),
        Model/WithForm.v (to_with_form / to_with_form_stub / cte_cache), Model/SqlMerge.v (SQL-level extend merge),
        Model/Render.v (text generation; _clean_annotation regenerated, Gen/G_Quote.v; comment inertness imported from C14).
tie:    (a) the REAL NearSQL object graph from to_near_sql_implementation_ and the REAL to_with_form(cte_cache=None|{}) result,
            serialised field by field, compared inside Coq with the model's WITH list and cache (CWith);
            the graph generated with allow_extend_merges=False put through the model's merge_tree must be the graph generated
            with allow_extend_merges=True (CMerge);
        (b) the REAL to_sql() text, character for character, against Render.to_sql under sampled option combinations (CText);
            and the token stream of the real text must not depend on annotate / initial_commas / sql_indent (tokenizer below).
oracle: for every pipeline: ALL variants {SQLite, PostgreSQL dialect} x {merge on, off} x 16 SQLFormatOptions (sql_indent drawn
        per variant from ' ', 4 spaces, tab) are executed on in-memory SQLite on the pipeline's tables; within a dialect every
        variant must return the table returned by the variant closest to the library's defaults that runs (WITH form, merges
        on): same columns in the same order, same rows; same row order when the pipeline ends in a total order_rows.  A variant
        that raises, in generation or in execution, while another runs is a failure too.
findings: none listed.  Four defects found by this check are repaired in /repo: CTE reuse of a merged extend (efc7e6f), the cache
        key 'None' (0184359), KeyError in the merge test (05d5f06), ORDER BY / LIMIT operand written unwrapped into UNION ALL (92e24a2);
        their witnesses stay in corpus/C04 and run first; the model's flags (read off the code at run time) follow the code."""
import glob, json, os, re, time, warnings
import lib, pipes

warnings.filterwarnings("ignore")

N = {"quick": 70, "thorough": 400}
TEXTS_PER_CASE = {"quick": 2, "thorough": 5}
ID_RE = re.compile(r"\b(extend|project|select_rows|order_rows|map_columns|rename|natural_join|join_source_left|join_source_right|"
                   r"concat_rows|table_reference|convert_records_blocks_in|convert_records_blocks_out)_(\d+)\b")


# ------------------------------------------------------------------------------------------------ Coq literals
def cs(s):
    """Coq string literal; plain text (printable ASCII and newlines) as a literal with doubled quotes, anything else as bytes"""
    if all((32 <= ord(c) < 127) or c == "\n" for c in s):
        return '"' + s.replace('"', '""') + '"'
    return lib.cstr(s)


def copt(x, f=cs):
    return "None" if x is None else "(Some %s)" % f(x)


def clist(xs, f=cs):
    return "[" + "; ".join(f(x) for x in xs) + "]"


def cterms(t):
    if t is None:
        return "None"
    return "(Some %s)" % clist(list(t.items()), lambda kv: "(%s, %s)" % (cs(kv[0]), copt(kv[1])))


def cflags(fl):
    return "(mk_flags %s %s %s %s)" % tuple(lib.cbool(b) for b in fl)


# ------------------------------------------------------------------------------------------------ the real objects -> a plain tree
class Unsupported(Exception):
    pass


def ser_container(c, ctx):
    cols = None if c.columns is None else [str(x) for x in c.columns]
    return {"q": ser(c.near_sql, ctx), "cols": cols, "force": bool(c.force_sql), "pub": c.public_name_quoted}


def ser_terms(t):
    if t is None:
        return None
    if not isinstance(t, dict):
        raise Unsupported("terms is a %s" % type(t).__name__)
    for k, v in t.items():
        if not isinstance(k, str) or not (v is None or isinstance(v, str)):
            raise Unsupported("term types")
    return dict(t)


def ser(q, ctx):
    import data_algebra.near_sql as ns
    if isinstance(q, ns.NearSQLTable):
        return {"k": "table", "name": q.quoted_query_name, "terms": ser_terms(q.terms)}
    if isinstance(q, ns.NearSQLCommonTableExpression):
        return {"k": "cte", "name": q.quoted_query_name, "key": q.ops_key}
    base = {"name": q.quoted_query_name, "anno": q.annotation, "okey": q.ops_key}
    ctx.setdefault("okeys", set()).add(q.ops_key)
    if isinstance(q, ns.NearSQLUnaryStep):
        deps = q.declared_term_dependencies
        if deps is not None:
            deps = {k: sorted(str(x) for x in v) for k, v in deps.items()}
        base.update({"k": "unary", "terms": ser_terms(q.terms), "sub": ser_container(q.sub_sql, ctx), "sfx": list(q.suffix or []),
                     "mergeable": bool(q.mergeable), "deps": deps})
        return base
    if isinstance(q, ns.NearSQLBinaryStep):
        base.update({"k": "binary", "terms": ser_terms(q.terms), "s1": ser_container(q.sub_sql1, ctx), "joiner": q.joiner,
                     "s2": ser_container(q.sub_sql2, ctx), "sfx": list(q.suffix or [])})
        return base
    if isinstance(q, ns.NearSQLRawQStep):
        base.update({"k": "raw", "prefix": list(q.prefix), "sub": None if q.sub_sql is None else ser_container(q.sub_sql, ctx),
                     "sfx": list(q.suffix or []), "add_select": bool(q.add_select)})
        return base
    raise Unsupported(type(q).__name__)


def walk_tree(t, f):
    """apply f to every string of a serialised tree (names, texts, keys of terms / deps); field names are kept"""
    if isinstance(t, str):
        return f(t)
    if isinstance(t, list):
        return [walk_tree(x, f) for x in t]
    if isinstance(t, dict):
        if "k" in t or "q" in t:            # a node or a container: fixed field names
            out = {}
            for k, v in t.items():
                if k == "k":
                    out[k] = v
                elif k in ("terms", "deps") and isinstance(v, dict):
                    out[k] = {f(a): walk_tree(b, f) for a, b in v.items()}
                else:
                    out[k] = walk_tree(v, f)
            return out
        return {f(a): walk_tree(b, f) for a, b in t.items()}
    return t


class Interner:
    """ops_key strings are long (they contain the printed pipeline); they only matter up to equality, so each distinct one is
    replaced by a short token (injective).  The key of a common table expression is ops_key or ops_key + '_' + repr(columns):
    its ops_key prefix is replaced by the same token."""

    def __init__(self):
        self.m = {}

    def key(self, k):
        if k is None:
            return None
        if k not in self.m:
            self.m[k] = "K%d" % len(self.m)
        return self.m[k]

    def cte_key(self, k):
        if k is None:
            return None
        best = None
        for p in self.m:
            if (k == p or k.startswith(p + "_[")) and (best is None or len(p) > len(best)):
                best = p
        if best is None:
            return k            # e.g. the text "None..." built from an ops_key of None
        return self.m[best] + k[len(best):]


def intern_tree(t, it):
    """first pass: intern every step's ops_key; second pass: the keys of common table expressions"""
    def p1(n):
        if isinstance(n, dict):
            if n.get("k") in ("unary", "binary", "raw"):
                n = dict(n, okey=it.key(n["okey"]))
            return {k: p1(v) for k, v in n.items()}
        if isinstance(n, list):
            return [p1(x) for x in n]
        return n

    def p2(n):
        if isinstance(n, dict):
            if n.get("k") == "cte":
                n = dict(n, key=it.cte_key(n["key"]))
            return {k: p2(v) for k, v in n.items()}
        if isinstance(n, list):
            return [p2(x) for x in n]
        return n
    return p2(p1(t))


def cci(c):
    return "(mk_ci %s %s %s)" % (copt(c["cols"], clist), lib.cbool(c["force"]), copt(c["pub"]))


def cdeps(d):
    if d is None:
        return "None"
    return "(Some %s)" % clist(list(d.items()), lambda kv: "(%s, %s)" % (cs(kv[0]), clist(kv[1])))


def cnear(t):
    k = t["k"]
    if k == "table":
        return "(NTable %s %s)" % (cs(t["name"]), cterms(t["terms"]))
    if k == "cte":
        return "(NCte %s %s)" % (cs(t["name"]), copt(t["key"]))
    if k == "unary":
        return "(NUnary %s %s %s %s %s %s %s %s %s)" % (cs(t["name"]), cterms(t["terms"]), cnear(t["sub"]["q"]), cci(t["sub"]), clist(t["sfx"]),
                                                       copt(t["anno"]), lib.cbool(t["mergeable"]), cdeps(t["deps"]), copt(t["okey"]))
    if k == "binary":
        return "(NBinary %s %s %s %s %s %s %s %s %s %s)" % (cs(t["name"]), cterms(t["terms"]), cnear(t["s1"]["q"]), cci(t["s1"]), cs(t["joiner"]),
                                                           cnear(t["s2"]["q"]), cci(t["s2"]), clist(t["sfx"]), copt(t["anno"]), copt(t["okey"]))
    if t["sub"] is None:
        return "(NRaw0 %s %s %s %s %s %s)" % (cs(t["name"]), clist(t["prefix"]), clist(t["sfx"]), copt(t["anno"]), lib.cbool(t["add_select"]), copt(t["okey"]))
    return "(NRaw1 %s %s %s %s %s %s %s %s)" % (cs(t["name"]), clist(t["prefix"]), cnear(t["sub"]["q"]), cci(t["sub"]), clist(t["sfx"]), copt(t["anno"]),
                                                 lib.cbool(t["add_select"]), copt(t["okey"]))


def ccont(c):
    return "(%s, %s)" % (cnear(c["q"]), cci(c))


# ------------------------------------------------------------------------------------------------ the code under test
def make_model(dialect, merges):
    import data_algebra.SQLite, data_algebra.PostgreSQL
    m = data_algebra.SQLite.SQLiteModel() if dialect == "sqlite" else data_algebra.PostgreSQL.PostgreSQLModel()
    m.allow_extend_merges = bool(merges)
    return m


def start_id(ops, model):
    """the number to_sql starts its generated view names with for this pipeline (0, or past a table that is itself named like a
    view: 161d83f).  Read off a real to_sql call by recording the counter it hands to to_near_sql_implementation_."""
    seen = []
    real = ops.to_near_sql_implementation_

    def spy(*, db_model, using, temp_id_source, **kw):
        seen.append(temp_id_source[0])
        return real(db_model=db_model, using=using, temp_id_source=temp_id_source, **kw)
    try:
        ops.to_near_sql_implementation_ = spy
        model.to_sql(ops, sql_format_options=mk_options({"use_with": False, "use_cte_elim": False, "annotate": False, "initial_commas": False, "sql_indent": " "}))
    except Exception:       # noqa
        pass
    finally:
        try:
            del ops.to_near_sql_implementation_
        except AttributeError:
            pass
    return seen[0] if seen else 0


def near_sql_of(ops, model):
    """the NearSQL graph to_sql builds for the pipeline (same starting number for the generated names)"""
    ops.columns_used()
    return ops.to_near_sql_implementation_(db_model=model, using=None, temp_id_source=[start_id(ops, model)])


def probe_flags():
    """which of the four proposed repairs the code under test contains (read off its behaviour on three tiny inputs)"""
    import data_algebra.near_sql as ns
    from data_algebra.data_ops import TableDescription
    cache = {}
    raw = ns.NearSQLRawQStep(prefix=["SELECT 1"], query_name="q", quoted_query_name='"q"', sub_sql=None, ops_key=None)
    ns.NearSQLContainer(near_sql=raw).to_with_form_stub(cte_cache=cache)
    none_uncached = len(cache) == 0
    t = TableDescription(table_name="d", column_names=["a", "b", "c"])
    inner = t.extend({"x": "a.cumsum()"}, order_by=["b"])
    outer = inner.extend({"c": "c + 1"})
    m = make_model("postgres", True)
    q = near_sql_of(outer, m)
    rekeys = str(outer) in (q.ops_key or "")
    try:
        near_sql_of(inner.select_columns(["x", "a"]).extend({"y": "a + 1"}), make_model("postgres", True))
        skips = True
    except KeyError:
        skips = False
    # a UNION ALL operand ending in ORDER BY / LIMIT, nested form: written as a sub-select?
    from data_algebra.sql_format_options import SQLFormatOptions
    sql = m.to_sql(t.concat_rows(t.order_rows(["a"], limit=1), id_column=None),
                   sql_format_options=SQLFormatOptions(use_with=False, annotate=False, warn_on_method_support=False, warn_on_novel_methods=False))
    wraps = ') "order_rows_' in sql
    return (none_uncached, rekeys, skips, wraps)


INDENTS = (" ", "    ", "\t")


def all_options(rng=None):
    """the 16 combinations of the four switches; sql_indent is the default one, or drawn per combination when rng is given
    (the plainest combination keeps the default)"""
    out = []
    for use_with in (False, True):
        for cte in (False, True):
            for annotate in (False, True):
                for ic in (False, True):
                    plain = not (use_with or cte or annotate or ic)
                    ind = " " if (rng is None or plain) else rng.choice(INDENTS)
                    out.append({"use_with": use_with, "use_cte_elim": cte, "annotate": annotate, "initial_commas": ic, "sql_indent": ind})
    return out


def memoise_black():
    """str(node) pretty-prints the pipeline through black (6 ms a call, thousands of calls: every ops_key contains one).
    The formatter is a pure function of its arguments; the harness memoises it.  Nothing else of the code under test is touched."""
    import data_algebra.view_representations as vr
    if getattr(vr.pretty_format_python, "_c04_memo", False):
        return
    orig, memo = vr.pretty_format_python, {}

    def cached(python_str, *, black_mode=None):
        k = (python_str, repr(black_mode))
        if k not in memo:
            memo[k] = orig(python_str, black_mode=black_mode)
        return memo[k]
    cached._c04_memo = True
    vr.pretty_format_python = cached


def mk_options(o):
    from data_algebra.sql_format_options import SQLFormatOptions
    return SQLFormatOptions(use_with=o["use_with"], use_cte_elim=o["use_cte_elim"], annotate=o["annotate"], initial_commas=o["initial_commas"],
                            sql_indent=o["sql_indent"], warn_on_method_support=False, warn_on_novel_methods=False)


def copts(o):
    return "(mk_opts %s %s %s %s %s)" % (lib.cbool(o["use_with"]), lib.cbool(o["use_cte_elim"]), lib.cbool(o["annotate"]), lib.cbool(o["initial_commas"]), cs(o["sql_indent"]))


def cdialect(model):
    import data_algebra
    descr = re.sub(r"\s+", " ", str(model)) + " " + str(data_algebra.__version__)
    return "(mk_dialect %s %s %s %s %s)" % (cs(model.identifier_quote), cs(model.string_quote), cs(descr), lib.cbool(model.supports_with),
                                           lib.cbool(model.supports_cte_elim))


# ------------------------------------------------------------------------------------------------ tokenizer (for the real text)
def tokens(sql):
    """strip `--` comments to the end of the line; split on white space, commas and parentheses; string literals and quoted
    identifiers are kept intact"""
    out, i, n, cur = [], 0, len(sql), []

    def flush():
        if cur:
            out.append("".join(cur)); cur.clear()
    while i < n:
        c = sql[i]
        if c == "-" and sql[i:i + 2] == "--":
            flush()
            while i < n and sql[i] not in "\n\r":
                i += 1
            continue
        if c in "'\"`":
            j = i + 1
            while j < n:
                if sql[j] == c:
                    if j + 1 < n and sql[j + 1] == c:
                        j += 2; continue
                    break
                j += 1
            cur.append(sql[i:j + 1]); i = j + 1
            continue
        if c.isspace():
            flush(); i += 1; continue
        if c in ",()":
            flush(); out.append(c); i += 1; continue
        cur.append(c); i += 1
    flush()
    return out


# ------------------------------------------------------------------------------------------------ generation
class Case:
    def __init__(self, script, tabs, ops, shape):
        self.script, self.tabs, self.ops, self.shape = script, tabs, ops, shape
        self.tables = {t["name"]: t for t in tabs}
        used = pipes.script_tables(script) if script is not None else set(self.tables)
        self.frames = {t["name"]: pipes.table_frame(t) for t in tabs if t["name"] in used}

    def json(self):
        return {"script": pipes.to_json(self.script), "shape": self.shape,
                "tables": [{"name": t["name"], "spec": [list(x) for x in t["spec"]], "rows": t["rows"]} for t in self.tabs if t["name"] in self.frames]}

    def key(self):
        return json.dumps(self.json(), sort_keys=True, default=str)


def build_script(s, tables, memo=None):
    """pipes.build plus two node kinds of this module: {"op": "sqlnode", sql, columns, view, table} (user SQL) and
    {"op": "convert_records", src, kind: unpivot|pivot, row_keys, value_cols} (record transform, names k / v)"""
    memo = {} if memo is None else memo
    key = id(s)
    if key in memo:
        return memo[key]
    if s["op"] == "sqlnode":
        from data_algebra.view_representations import SQLNode
        r = SQLNode(sql=s["sql"], column_names=list(s["columns"]), view_name=s["view"])
    elif s["op"] == "convert_records":
        from data_algebra.cdata import unpivot_specification, pivot_specification
        mk = unpivot_specification if s["kind"] == "unpivot" else pivot_specification
        rm = mk(row_keys=list(s["row_keys"]), col_name_key="k", col_value_key="v", value_cols=list(s["value_cols"]))
        r = build_script(s["src"], tables, memo).convert_records(rm)
    elif s["op"] == "table":
        r = pipes.td_for(tables, s["name"])
    else:
        src = build_script(s["src"], tables, memo)
        r = pipes.apply_step(src, s, lambda b: build_script(b, tables, memo))
    memo[key] = r
    return r


def script_tables(s, acc=None):
    acc = set() if acc is None else acc
    if s["op"] == "table":
        acc.add(s["name"])
    elif s["op"] == "sqlnode":
        acc.add(s["table"])
    else:
        script_tables(s["src"], acc)
        if "b" in s:
            script_tables(s["b"], acc)
    return acc


def case_from_json(j):
    tabs = [{"name": t["name"], "spec": [tuple(x) for x in t["spec"]], "rows": t["rows"]} for t in j["tables"]]
    s = relink(j["script"])
    c = Case.__new__(Case)
    c.script, c.tabs, c.shape = s, tabs, j.get("shape", "replay")
    c.tables = {t["name"]: t for t in tabs}
    c.ops = build_script(s, c.tables)
    c.frames = {t["name"]: pipes.table_frame(t) for t in tabs}
    return c


def relink(s, memo=None):
    """JSON flattens shared sub-scripts; equal sub-scripts are made the same object again (DAG sharing is what C04 is about)"""
    memo = {} if memo is None else memo
    k = json.dumps(s, sort_keys=True)
    if k in memo:
        return memo[k]
    r = dict(s)
    if "src" in r:
        r["src"] = relink(r["src"], memo)
    if "b" in r and isinstance(r["b"], dict):
        r["b"] = relink(r["b"], memo)
    memo[k] = r
    return r


FEATURES = ["extend", "wextend", "project", "select_rows", "select_columns", "drop_columns", "rename_columns", "map_columns", "order_rows",
            "natural_join", "concat_rows"]


def extend_chain(rng, g, s, colty, order):
    """a chain of extend steps over s that the BUILDER keeps apart but the SQL generator may merge: a windowed extend followed by
    plain ones that add columns or overwrite columns the window does not read"""
    nums = pipes.cols_of(colty, "num")
    if not nums:
        return None
    uniq = g.unique_cols(s) or set()
    ob = [c for c in order if c in uniq][:1] or [rng.choice(order)]
    part = [c for c in rng.sample(order, min(len(order), rng.choice([0, 0, 1]))) if c not in ob]
    x = g.newcol(colty)
    fn = rng.choice(["cumsum", "cummax", "_row_number"]) if ob[0] in uniq else rng.choice(["sum", "max", "count"])
    arg = rng.choice([c for c in nums if c not in ob and c not in part] or nums)
    if fn in ("sum", "max", "count"):
        w = {"op": "extend", "src": s, "ops": {x: f"{arg}.{fn}()"}, "partition_by": part or 1}
    else:
        w = {"op": "extend", "src": s, "ops": {x: "_row_number()" if fn == "_row_number" else f"{arg}.{fn}()"}, "partition_by": part, "order_by": ob}
    colty2, order2 = dict(colty), list(order) + [x]
    colty2[x] = "float"
    cur = w
    for _ in range(rng.choice([1, 1, 2])):
        free = [c for c in nums if c not in ob and c not in part and c != arg]
        if free and rng.random() < 0.6:
            k = rng.choice(free)                                     # overwrite a column the window does not read
            e = f"{k} + {rng.choice([1, 2, 10])}"
        else:
            k = g.newcol(colty2)
            e = pipes.gen_num_expr(rng, {c: t for c, t in colty2.items() if c != x}, 1)
            if k not in colty2:
                order2.append(k)
            colty2[k] = "float"
        cur = {"op": "extend", "src": cur, "ops": {k: e}}
    return w, cur, colty2, order2


def narrow(rng, s, colty, order, must=()):
    """a different column demand on the same sub-pipeline"""
    r = rng.random()
    keep = [c for c in order if c in must or rng.random() < 0.6] or list(order[:1])
    if r < 0.4:
        return {"op": "select_columns", "src": s, "columns": keep}, {c: colty[c] for c in keep}, keep
    if r < 0.6 and len(keep) < len(order):
        return {"op": "drop_columns", "src": s, "columns": [c for c in order if c not in keep]}, {c: colty[c] for c in keep}, keep
    if r < 0.8:
        return {"op": "select_rows", "src": s, "expr": pipes.gen_bool_expr(rng, colty, 0)}, colty, order
    return s, colty, order


def gen_case(rng, tier):
    big = tier == "thorough"
    tabs = [pipes.gen_table(rng, f"d{i+1}", null_rate=rng.choice([0.0, 0.15]), types=("int", "float", "str"), unique_col="uid",
                            nrows=rng.choice([1, 2, 3, 4, 5, 6])) for i in range(2)]
    if rng.random() < 0.08:                 # a table that is itself named like a generated view
        tabs[0]["name"] = rng.choice(["extend_1", "select_rows_2", "concat_rows_0", "natural_join_0"])
    g = pipes.Gen(rng, tabs, features=FEATURES)
    shape = rng.choice(["random", "random", "shared_join", "shared_concat", "merged_shared", "merged_shared", "narrowed_merge", "sqlnodes", "records",
                        "window_over_reassigned", "window_over_reassigned", "same_step_two_inputs"])
    try:
        if shape == "random":
            s, colty, order = g.pipeline(rng.randint(1, 6 if big else 4))
            if s["op"] == "table":
                return None
        elif shape in ("shared_join", "shared_concat"):
            base, colty, order = g.pipeline(rng.randint(1, 3))
            if shape == "shared_concat":
                a, ca, oa = base, colty, order
                b = {"op": "select_rows", "src": base, "expr": pipes.gen_bool_expr(rng, colty, 0)} if rng.random() < 0.7 else base
                s = {"op": "concat_rows", "src": a, "b": b, "id_column": rng.choice([None, "src_name"]) if "src_name" not in colty else None, "a_name": "a", "b_name": "b"}
            else:
                a, ca, oa = narrow(rng, base, colty, order, must=order[:1])
                b, cb, ob_ = narrow(rng, base, colty, order, must=order[:1])
                if rng.random() < 0.5:
                    r = g.step(b, cb, ob_)
                    if r is not None and r[0]["op"] in ("extend", "select_rows", "project") and order[0] in r[1]:
                        b, cb, ob_ = r
                s = {"op": "natural_join", "src": a, "b": b, "on": [order[0]], "jointype": rng.choice(["INNER", "LEFT", "LEFT", "FULL", "RIGHT"])}
                for c in oa:
                    if c in cb and ca[c] != cb[c]:
                        return None
            if rng.random() < 0.3:
                s = {"op": "order_rows", "src": s, "columns": [order[0]], "reverse": [], "limit": None}
        elif shape == "merged_shared":
            base, colty, order = g.pipeline(rng.randint(0, 2))
            r = extend_chain(rng, g, base, colty, order)
            if r is None:
                return None
            w, m, cm, om = r
            other = rng.choice([w, w, base, m])                     # the un-merged prefix of the chain, used a second time
            oc = [c for c in om if c in cols_of_script(other, {t["name"]: t for t in tabs})]
            mm = {"op": "select_columns", "src": m, "columns": oc} if set(oc) != set(om) else m
            if rng.random() < 0.6:
                s = {"op": "concat_rows", "src": mm, "b": other if rng.random() < 0.6 else {"op": "select_rows", "src": other, "expr": pipes.gen_bool_expr(rng, {c: cm[c] for c in oc}, 0)},
                     "id_column": None, "a_name": "a", "b_name": "b"}
            else:
                s = {"op": "natural_join", "src": mm, "b": other, "on": [order[0]], "jointype": rng.choice(["INNER", "LEFT", "FULL"])}
        elif shape == "narrowed_merge":
            base, colty, order = g.pipeline(rng.randint(0, 2))
            r = extend_chain(rng, g, base, colty, order)
            if r is None:
                return None
            w, m, cm, om = r
            x = list(w["ops"])[0]
            keep = [c for c in om if c == x or rng.random() < 0.5] or [x]
            wc = cols_of_script(w, {t["name"]: t for t in tabs})
            keep = [c for c in keep if c in wc]
            n1 = {"op": "select_columns", "src": w, "columns": keep} if rng.random() < 0.6 else \
                 {"op": "drop_columns", "src": w, "columns": [c for c in wc if c not in keep]}
            if n1["op"] == "drop_columns" and not n1["columns"]:
                n1 = {"op": "select_columns", "src": w, "columns": keep}
            nums = [c for c in keep if cm.get(c) in ("int", "float")]
            if not nums:
                return None
            s = {"op": "extend", "src": n1, "ops": {g.newcol(cm): f"{rng.choice(nums)} + 1"}}
        elif shape == "window_over_reassigned":
            # a plain extend RE-ASSIGNS (or creates) a column; the windowed extend directly above orders / partitions by it.
            # The two may only be written as one SELECT if the window then still reads the new values: merge on/off must agree
            t = tabs[0]
            nums = [c for c, ty in t["spec"] if ty in ("int", "float") and c != "uid"]
            if not nums:
                return None
            base = {"op": "table", "name": t["name"]}
            colty, order = dict(t["spec"]), [c for c, _ in t["spec"]]
            if rng.random() < 0.3:
                base = {"op": "select_rows", "src": base, "expr": pipes.gen_bool_expr(rng, colty, 0)}
            x = rng.choice(nums)
            new = rng.random() < 0.25
            xn = g.newcol(colty) if new else x
            e = rng.choice([f"{x} * {x}", f"(-{x})", f"{x} * {x} - 3 * {x}", f"({x} - 2) * ({x} - 2)"])
            low = {"op": "extend", "src": base, "ops": {xn: e}}
            others = [c for c in nums if c != xn]
            role = rng.choice(["order", "order", "order_rev", "partition"])
            arg = rng.choice(others) if others and rng.random() < 0.5 else None
            if role == "partition":
                fn = rng.choice(["sum", "max", "count"])
                win = {"op": "extend", "src": low, "ops": {"r": f"{arg or 'uid'}.{fn}()"}, "partition_by": [xn]}
            else:
                part = [c for c in order if colty[c] == "str"][:1] if rng.random() < 0.5 else []
                fn = rng.choice(["_row_number()", "_row_number()", f"{arg or 'uid'}.cumsum()", f"{arg or 'uid'}.cummax()"])
                win = {"op": "extend", "src": low, "ops": {"r": fn}, "partition_by": part, "order_by": [xn, "uid"],
                       "reverse": [xn] if role == "order_rev" else []}
            s = win
            r = rng.random()
            if r < 0.25:                                             # pass-through column selection in between / above
                s = {"op": "select_columns", "src": s, "columns": [c for c in order if c != xn] + [xn, "r"]}
            elif r < 0.4:
                s = {"op": "extend", "src": s, "ops": {"rr": "r + 1"}}
        elif shape == "same_step_two_inputs":
            # textually identical steps over DIFFERENT inputs in the two branches of a concat / join: never one common table expression
            t = tabs[0]
            colty, order = dict(t["spec"]), [c for c, _ in t["spec"]]
            nums = [c for c, ty in t["spec"] if ty in ("int", "float") and c != "uid"]
            if not nums:
                return None
            base = {"op": "table", "name": t["name"]}
            a_in = {"op": "select_rows", "src": base, "expr": "uid <= 1"}
            b_in = {"op": "select_rows", "src": base, "expr": "uid > 1"}
            if rng.random() < 0.4:                                   # ... or two tables with the same columns
                t2 = dict(t, name="d2", rows=[[pipes.gen_value(rng, ty, 0.0) if c != "uid" else 100 + i for c, ty in t["spec"]] for i in range(rng.randint(1, 4))])
                tabs[1] = t2
                a_in, b_in = base, {"op": "table", "name": "d2"}
            x = rng.choice(nums)
            step = rng.choice([{"ops": {"z": f"{x} + 1"}}, {"ops": {x: f"{x} * 2"}},
                               {"ops": {"z": f"{x}.cumsum()"}, "partition_by": [], "order_by": ["uid"]},
                               {"ops": {"z": f"{x}.max()"}, "partition_by": 1}])

            def ap(src):
                cur = dict(step, op="extend", src=src)
                if rng2 < 0.4:
                    cur = {"op": "extend", "src": cur, "ops": {"zz": "uid + 1"}}       # a second step, merged into the first by the SQL generator
                return cur
            rng2 = rng.random()
            a, b = ap(a_in), ap(b_in)
            if rng.random() < 0.6:
                s = {"op": "concat_rows", "src": a, "b": b, "id_column": None, "a_name": "a", "b_name": "b"}
            else:
                s = {"op": "natural_join", "src": a, "b": b, "on": ["uid"], "jointype": rng.choice(["LEFT", "INNER"])}
        elif shape == "records":                                     # record transforms (raw query steps over a sub-query)
            t = tabs[0]
            nums = []
            for ty in ("int", "float"):
                same = [c for c, cty in t["spec"] if cty == ty and c != "uid"]
                if len(same) >= 2:
                    nums = same[:2]
            if not nums:
                t = dict(t, spec=list(t["spec"]) + [("n1", "int"), ("n2", "int")], rows=[list(r) + [i, 2 * i + 1] for i, r in enumerate(t["rows"])])
                tabs[0] = t
                nums = ["n1", "n2"]
            T = {"op": "table", "name": t["name"]}

            def unp(src):
                return {"op": "convert_records", "src": {"op": "select_columns", "src": src, "columns": ["uid"] + nums}, "kind": "unpivot",
                        "row_keys": ["uid"], "value_cols": nums}
            r = rng.random()
            if r < 0.35:
                s = unp(T)
                if rng.random() < 0.5:
                    s = {"op": "extend", "src": s, "ops": {"z": "v + 1"}}
            elif r < 0.7:                                            # the same transform over a sub-pipeline and over a filtered copy of it
                s = {"op": "concat_rows", "src": unp(T), "b": unp({"op": "select_rows", "src": T, "expr": "uid > 0"}), "id_column": None, "a_name": "a", "b_name": "b"}
            else:
                u = unp(T)
                s = {"op": "natural_join", "src": u, "b": {"op": "project", "src": u, "ops": {"m": "v.max()"}, "group_by": ["uid"]}, "on": ["uid"], "jointype": "LEFT"}
        else:                                                        # two pieces of user SQL with the same columns
            t = tabs[0]
            cols = [c for c, _ in t["spec"]]
            nums = [c for c, ty in t["spec"] if ty in ("int", "float") and c != "uid"]
            if len(nums) < 2:
                return None
            a, b = nums[0], nums[1]
            n1 = {"op": "sqlnode", "sql": f'SELECT "{a}" AS "p", "uid" AS "uid" FROM "{t["name"]}"', "columns": ["p", "uid"], "view": "v1", "table": t["name"]}
            n2 = {"op": "sqlnode", "sql": f'SELECT "{b}" AS "p", "uid" AS "uid" FROM "{t["name"]}"', "columns": ["p", "uid"], "view": "v2", "table": t["name"]}
            if rng.random() < 0.5:
                s = {"op": "concat_rows", "src": n1, "b": n2, "id_column": None, "a_name": "a", "b_name": "b"}
            else:
                s = {"op": "natural_join", "src": n1, "b": {"op": "rename_columns", "src": n2, "map": {"q": "p"}}, "on": ["uid"], "jointype": "LEFT"}
            if rng.random() < 0.4:
                s = {"op": "extend", "src": s, "ops": {"z": "p + 1"}}
        ops = build_script(s, {t["name"]: t for t in tabs})
    except Exception:
        return None
    c = Case(None, tabs, ops, shape)
    c.script = s
    used = script_tables(s)
    c.frames = {t["name"]: pipes.table_frame(t) for t in tabs if t["name"] in used}
    return c


def cols_of_script(s, tables):
    return list(build_script(s, tables).column_names)


# ------------------------------------------------------------------------------------------------ oracle
def final_total_order(case, frame):
    s = case.script
    if s["op"] != "order_rows" or frame is None:
        return False
    cols = [c for c in s["columns"] if c in frame.columns]
    if len(cols) != len(s["columns"]):
        return False
    keys = [tuple(pipes.norm_cell(v) for v in r) for r in frame[cols].to_numpy(dtype=object)]
    return all(v is not None for k in keys for v in k) and len(set(keys)) == len(keys)


def run_variants(case, variants=None, opts=None):
    """{(dialect, merges, options-tuple): ("ok", sql, frame) | ("gen-error"|"exec-error", sql|None, text)}"""
    import data_algebra.SQLite
    memoise_black()
    opts = all_options() if opts is None else opts
    res = {}
    h = data_algebra.SQLite.example_handle()
    try:
        for k, v in case.frames.items():
            h.insert_table(v, table_name=k, allow_overwrite=True)
        try:
            import execcorr
            execcorr._pg_shims(h.conn)
        except Exception:
            pass
        done = {}
        for dialect in ("sqlite", "postgres"):
            for merges in (False, True):
                model = make_model(dialect, merges)
                for o in opts:
                    key = vkey(dialect, merges, o)
                    if variants is not None and key not in variants:
                        continue
                    try:
                        sql = model.to_sql(ops_for(case, dialect), sql_format_options=mk_options(o))
                    except Exception as e:          # noqa
                        res[key] = ("gen-error", None, f"{type(e).__name__}: {str(e)[:120]}", o)
                        continue
                    if sql not in done:
                        try:
                            done[sql] = ("ok", sql, h.read_query(sql))
                        except Exception as e:      # noqa
                            done[sql] = ("exec-error", sql, f"{type(e).__name__}: " + str(e).rsplit("': ", 1)[-1][:200])
                    res[key] = done[sql] + (o,)
    finally:
        h.close()
    return res


def without_native_outer_joins(s, memo=None):
    """the same script with RIGHT / FULL joins replaced by INNER / LEFT (sharing of sub-scripts kept).  SQLite 3.40.1 executes the
    PostgreSQL-dialect text here, and its native RIGHT / FULL JOIN is not trustworthy: a WHERE over a UNION ALL of two FULL JOINs
    is not applied (observed; the same text with LEFT JOIN filters correctly).  The SQLite dialect never writes these joins."""
    memo = {} if memo is None else memo
    if id(s) in memo:
        return memo[id(s)]
    r = dict(s)
    memo[id(s)] = r
    if "src" in r:
        r["src"] = without_native_outer_joins(s["src"], memo)
    if "b" in r and isinstance(r["b"], dict):
        r["b"] = without_native_outer_joins(s["b"], memo)
    if r.get("op") == "natural_join" and r.get("jointype") in ("RIGHT", "FULL"):
        r["jointype"] = {"RIGHT": "INNER", "FULL": "LEFT"}[r["jointype"]]
    return r


def ops_for(case, dialect):
    """the pipeline a dialect's variants are generated from"""
    # (since aad03d8 the SQLite dialect writes a native FULL JOIN too when the linked engine has one)
    if not re.search(r'"jointype": "(RIGHT|FULL)"', json.dumps(pipes.to_json(case.script))):
        return case.ops
    if getattr(case, "_pg_ops", None) is None:
        case._pg_ops = build_script(without_native_outer_joins(case.script), case.tables)
    return case._pg_ops


def vkey(dialect, merges, o):
    """a variant: dialect, merge switch, the four format switches (the indent string rides along in the result)"""
    return (dialect, bool(merges), (bool(o["use_with"]), bool(o["use_cte_elim"]), bool(o["annotate"]), bool(o["initial_commas"])))


def key_options(key, res):
    r = res.get(key)
    return r[3] if r is not None and len(r) > 3 else dict(zip(("use_with", "use_cte_elim", "annotate", "initial_commas"), key[2]))


def plain_key(dialect):
    return (dialect, False, (False, False, False, False))


def defines_column_order(case):
    """the order of the result's columns is defined by the pipeline only when it ends in select_columns (DESIGN 3.2); otherwise
    columns are compared by name (an overwriting extend is written after the columns it keeps, merged or not)"""
    return case.script["op"] == "select_columns"


def base_key(dialect, res):
    """the variant every other variant of the dialect is compared with: the one closest to the library's defaults that runs
    (WITH form, no CTE elimination, extend merges on, no annotation, trailing commas)"""
    ok = [k for k, r in res.items() if k[0] == dialect and r[0] == "ok"]
    if not ok:
        return None
    return min(ok, key=lambda k: (not k[2][0], k[2][1], not k[1], k[2][2], k[2][3]))


def oracle(case, res=None):
    """list of failures: {"dialect", "merges", "options", "why", "kind"}"""
    res = run_variants(case) if res is None else res
    fails = []
    for dialect in ("sqlite", "postgres"):
        bk = base_key(dialect, res)
        if bk is None:
            continue                                     # no form of the query runs on this engine: nothing to compare
        base = res[bk]
        ordered = final_total_order(case, base[2])
        for key, r in sorted(res.items()):
            if key[0] != dialect or key == bk:
                continue
            o = r[3]
            if r[0] != "ok":
                fails.append({"dialect": dialect, "merges": key[1], "options": o, "kind": r[0], "why": r[2], "sql": r[1]})
                continue
            why = pipes.frames_equiv(base[2], r[2], check_col_order=defines_column_order(case), check_row_order=ordered)
            if why:
                fails.append({"dialect": dialect, "merges": key[1], "options": o, "kind": "different-table", "why": why, "sql": r[1]})
    return fails


def classify(case, f, res):
    """a narrow description of one failure, for matching against the listed findings"""
    o = f["options"]
    sig = {"dialect": f["dialect"], "kind": f["kind"], "merges": bool(f["merges"]), "use_cte_elim": bool(o["use_cte_elim"] and o["use_with"]), "cause": "unknown"}

    def variant(merges=None, cte=None, use_with=None):
        o2 = dict(o)
        if cte is not None:
            o2["use_cte_elim"] = cte
        if use_with is not None:
            o2["use_with"] = use_with
        return res.get(vkey(f["dialect"], f["merges"] if merges is None else merges, o2))

    def agrees(r):
        base = res[base_key(f["dialect"], res)]
        return r is not None and r[0] == "ok" and pipes.frames_equiv(base[2], r[2], check_col_order=defines_column_order(case), check_row_order=final_total_order(case, base[2])) is None
    if f["kind"] == "gen-error":
        if f["merges"] and "KeyError" in f["why"] and agrees(variant(merges=False)):
            sig["cause"] = "merge_test_keyerror_after_narrowing"
        return sig
    js = json.dumps(pipes.to_json(case.script))
    if not o["use_with"] and '"op": "concat_rows"' in js and ('"op": "order_rows"' in js or '"op": "convert_records"' in js) \
            and agrees(variant(use_with=True, cte=False)):
        # the nested form writes an operand that ends in ORDER BY / LIMIT directly into the UNION ALL
        if f["kind"] == "different-table" or "ORDER BY clause should come after UNION" in f["why"]:
            sig["cause"] = "order_by_inside_union_operand"
            sig["use_with"] = False
            del sig["merges"], sig["kind"]
            return sig
    cte_on = f["dialect"] == "postgres" and o["use_cte_elim"] and o["use_with"]
    if cte_on and agrees(variant(cte=False)):
        nraw = len(re.findall(r'"op": "(sqlnode|convert_records)"', json.dumps(pipes.to_json(case.script))))
        if f["merges"] and agrees(variant(merges=False)):
            sig["cause"] = "cte_reuse_of_merged_extend"
        elif nraw >= 2:
            sig["cause"] = "cte_reuse_under_ops_key_none"
    return sig


def with_rows(case, tabs2):
    c2 = Case.__new__(Case)
    c2.script, c2.tabs, c2.shape, c2.ops = case.script, tabs2, case.shape, case.ops
    c2.tables = {t["name"]: t for t in tabs2}
    c2.frames = {x["name"]: pipes.table_frame(x) for x in tabs2 if x["name"] in case.frames}
    return c2


def with_script(case, s):
    c2 = Case.__new__(Case)
    c2.script, c2.tabs, c2.shape = s, case.tabs, case.shape
    c2.tables = case.tables
    c2.ops = build_script(s, case.tables)
    used = script_tables(s)
    c2.frames = {t["name"]: pipes.table_frame(t) for t in case.tabs if t["name"] in used}
    return c2


def sub_scripts(s, acc=None):
    acc = [] if acc is None else acc
    if s["op"] not in ("table", "sqlnode"):
        sub_scripts(s["src"], acc)
        if "b" in s:
            sub_scripts(s["b"], acc)
        acc.append(s)
    return acc


def still_fails(case, f):
    """the same variant still disagrees with the plainest one (only those two are generated and run)"""
    o = f["options"]
    key = vkey(f["dialect"], f["merges"], o)
    dflt = {"use_with": True, "use_cte_elim": False, "annotate": False, "initial_commas": False, "sql_indent": " "}
    try:
        res = run_variants(case, variants={key, vkey(f["dialect"], True, dflt)}, opts=[o, dflt])
    except Exception:
        return False
    return any(x["kind"] == f["kind"] and vkey(x["dialect"], x["merges"], x["options"]) == key for x in oracle(case, res))


def shrink(case, f, max_scripts=12):
    """a smaller pipeline (a sub-pipeline of it), then fewer rows per table, on which variant f still fails"""
    best = case
    n = 0
    for s in sorted(sub_scripts(case.script), key=pipes.script_depth):
        if s is case.script:
            continue
        n += 1
        if n > max_scripts:
            break
        try:
            c2 = with_script(case, s)
            if still_fails(c2, f):
                best = c2
                break
        except Exception:
            continue
    for t in list(best.tabs):
        if t["name"] not in best.frames:
            continue

        def g(rows, t=t):
            return still_fails(with_rows(best, [dict(x, rows=rows) if x["name"] == t["name"] else x for x in best.tabs]), f)
        rows = lib.shrink_list(t["rows"], g, max_steps=12)
        if len(rows) < len(t["rows"]):
            best = with_rows(best, [dict(x, rows=rows) if x["name"] == t["name"] else x for x in best.tabs])
    return best


def report_failures(chk, c, res, fails, budget):
    """one report per distinct signature of this pipeline; failures that match no listed finding are shrunk first"""
    seen = set()
    for f in fails:
        sig = classify(c, f, res)
        k = json.dumps(sig, sort_keys=True)
        if k in seen:
            continue
        seen.add(k)
        chk.dist("oracle_failure_" + sig["cause"])
        small = c
        known = any(lib.match_sig(kf.get("signature", {}), sig) for kf in chk.known)
        if not known and budget[0] > 0:
            budget[0] -= 1
            try:
                small = shrink(c, f)
            except Exception:
                small = c
        rep = {"kind": "impl-violation", "case": small.json(), "dialect": f["dialect"], "merges": f["merges"], "options": f["options"], "failure": f["kind"],
               "why": f["why"][:400], "sql": f["sql"], "signature": sig, "python": str(small.ops)}
        chk.impl_violation(f"{f['dialect']} dialect, extend merges {'on' if f['merges'] else 'off'}, options {f['options']}: {f['kind']}: {f['why'][:300]}", rep, sig)


# ------------------------------------------------------------------------------------------------ correspondence cases
def erase_ids(t):
    return walk_tree(t, lambda s: ID_RE.sub(lambda m: m.group(1) + "_N", s))


def corr_terms(case, flags, rng, ntexts, stats):
    """Coq case terms for one pipeline (and what each is, for reporting)"""
    terms, meta = [], []
    fl = cflags(flags)
    trees = {}
    # which (dialect, merges, cache) combinations get a CWith case for this pipeline (all eight in the thorough tier)
    with_combos = {("postgres", True, True), ("postgres", False, True), ("postgres", rng.random() < 0.5, False), ("sqlite", True, False)}
    if ntexts > 4 and rng.random() < 0.34:
        with_combos = {(d, m, c) for d in ("sqlite", "postgres") for m in (False, True) for c in (False, True)}
    for dialect in ("sqlite", "postgres"):
        for merges in (False, True):
            model = make_model(dialect, merges)
            try:
                q = near_sql_of(case.ops, model)
            except Exception as e:              # noqa
                trees[(dialect, merges)] = ("raised", f"{type(e).__name__}: {str(e)[:100]}")
                continue
            try:
                it = Interner()
                t = intern_tree(ser(q, {}), it)
            except Unsupported as u:
                stats["unsupported:" + str(u)] = stats.get("unsupported:" + str(u), 0) + 1
                continue
            trees[(dialect, merges)] = ("ok", t, it, model)
            for use_cache in (False, True):
                if (dialect, merges, use_cache) not in with_combos:
                    continue
                try:
                    cache = {} if use_cache else None
                    q2 = near_sql_of(case.ops, model)              # to_with_form does not mutate, but keep the runs independent
                    w = q2.to_with_form(cte_cache=cache)
                    it2 = Interner()
                    t2 = intern_tree(ser(q2, {}), it2)
                    prev = [(nm, intern_tree(ser_container(c, {}), it2)) for nm, c in w.previous_steps]
                    last = intern_tree(ser(w.last_step, {}), it2)
                    ocache = [] if cache is None else [(it2.cte_key(k), v.quoted_query_name) for k, v in cache.items()]
                except Exception as e:          # noqa
                    stats["with_form_raised"] = stats.get("with_form_raised", 0) + 1
                    meta.append({"kind": "CWith", "dialect": dialect, "merges": merges, "cache": use_cache, "raised": f"{type(e).__name__}: {e}"})
                    terms.append("(CText (mk_dialect \"\" \"\" \"\" false false) %s (mk_opts false false false false \" \") (NTable \"real to_with_form raised\" None) \"\")" % fl)
                    continue
                terms.append("(CWith %s %s %s %s %s %s)" % (fl, cnear(t2), lib.cbool(use_cache),
                                                           clist(prev, lambda nc: "(%s, %s)" % (cs(nc[0]), ccont(nc[1]))), cnear(last),
                                                           clist(ocache, lambda kv: "(%s, %s)" % (cs(kv[0]), cs(kv[1])))))
                meta.append({"kind": "CWith", "dialect": dialect, "merges": merges, "cache": use_cache, "steps": len(prev), "cache_size": len(ocache)})
                stats["with_steps_%d" % min(len(prev), 6)] = stats.get("with_steps_%d" % min(len(prev), 6), 0) + 1
                if use_cache and len(ocache) < len([1 for _ in cont_nodes(t2)]):
                    stats["cte_reused"] = stats.get("cte_reused", 0) + 1
                    has_join = '"k": "binary"' in json.dumps(t2) and "JOIN" in json.dumps(t2)
                    SOUND_TERMS.append(("(CSound %s %s)" % (fl, cnear(t2)), {"dialect": dialect, "merges": merges, "has_join": has_join}))
        # merge: off-tree through the model == on-tree
        off, on = trees.get((dialect, False)), trees.get((dialect, True))
        if off and off[0] == "ok" and on:
            if on[0] == "ok":
                t_off, t_on = joint_intern(case, dialect)      # one interner for both graphs: equal ops_keys get equal tokens
                terms.append("(CMerge %s %s (Some %s))" % (fl, cnear(t_off), cnear(t_on)))
                merged = json.dumps(t_off).count('"unary"') - json.dumps(t_on).count('"unary"')
                stats["merge_%s" % ("none" if merged == 0 else "some")] = stats.get("merge_%s" % ("none" if merged == 0 else "some"), 0) + 1
                meta.append({"kind": "CMerge", "dialect": dialect, "merged_steps": merged})
            else:
                t_off, _ = joint_intern(case, dialect, on_raises=True)
                terms.append("(CMerge %s %s None)" % (fl, cnear(t_off)))
                stats["merge_raises"] = stats.get("merge_raises", 0) + 1
                meta.append({"kind": "CMerge", "dialect": dialect, "on_raised": on[1]})
    for tm in deps_terms(case, stats):
        terms.append(tm)
        meta.append({"kind": "CDeps"})
    # text
    keys = [(d, m) for (d, m), v in trees.items() if v[0] == "ok"]
    opts = all_options()
    for _ in range(ntexts):
        if not keys:
            break
        d, m = rng.choice(keys)
        o = rng.choice(opts)
        model = trees[(d, m)][3]
        try:
            sql = model.to_sql(case.ops, sql_format_options=mk_options(o))
        except Exception:                       # noqa
            continue
        it = Interner()
        t = intern_tree(ser(near_sql_of(case.ops, model), {}), it)
        terms.append("(CText %s %s %s %s %s)" % (cdialect(model), fl, copts(o), cnear(t), cs(sql)))
        meta.append({"kind": "CText", "dialect": d, "merges": m, "options": o, "bytes": len(sql)})
    return terms, meta


def extend_nodes(ops, acc=None, seen=None):
    acc, seen = ([] if acc is None else acc), (set() if seen is None else seen)
    if id(ops) in seen:
        return acc
    seen.add(id(ops))
    for s_ in getattr(ops, "sources", []) or []:
        extend_nodes(s_, acc, seen)
    if getattr(ops, "node_name", "") == "ExtendNode":
        acc.append(ops)
    return acc


def deps_terms(case, stats):
    """one CDeps case per extend node: the REAL declared_term_dependencies of the step extend_to_near_sql builds for it"""
    from data_algebra.OrderedSet import OrderedSet
    out = []
    model = make_model("postgres", False)
    for node in extend_nodes(case.ops):
        try:
            q = model.extend_to_near_sql(node, using=None, temp_id_source=[0])
            deps = q.declared_term_dependencies
            if deps is None or not q.mergeable:
                continue
            demand = list(OrderedSet(node.column_names).union(node.partition_by, node.order_by, node.reverse))
            subops = []
            for k, e in node.ops.items():
                cols = set()
                e.get_column_names(cols)
                subops.append((k, sorted(str(c) for c in cols)))
        except Exception:           # noqa
            stats["deps_case_raised"] = stats.get("deps_case_raised", 0) + 1
            continue
        pair = lambda kv: "(%s, %s)" % (cs(kv[0]), clist(kv[1]))
        out.append("(CDeps %s %s %s %s %s)" % (clist(demand), clist(subops, pair), clist(list(node.partition_by)), clist(list(node.order_by)),
                                               clist([(k, sorted(str(x) for x in v)) for k, v in deps.items()], pair)))
        if node.order_by or node.partition_by:
            stats["deps_windowed"] = stats.get("deps_windowed", 0) + 1
    return out


def cont_nodes(t):
    """the non-table sub-query containers of a serialised tree"""
    if isinstance(t, dict):
        for k in ("sub", "s1", "s2"):
            c = t.get(k)
            if isinstance(c, dict) and "q" in c:
                if c["q"]["k"] not in ("table", "cte"):
                    yield c
                yield from cont_nodes(c["q"])


def joint_intern(case, dialect, on_raises=False):
    it = Interner()
    q_off = near_sql_of(case.ops, make_model(dialect, False))
    t_off = intern_tree(ser(q_off, {}), it)
    if on_raises:
        return erase_ids(t_off), None
    q_on = near_sql_of(case.ops, make_model(dialect, True))
    t_on = intern_tree(ser(q_on, {}), it)
    return erase_ids(t_off), erase_ids(t_on)


SOUND_TERMS = []          # (term, info): real graphs on which CTE elimination reused a step; filled by corr_terms


PREAMBLE = ("From Coq Require Import List String Bool.\nImport ListNotations.\n"
            "From DA Require Import Base.PyRT Base.Cases Model.NearSql Model.WithForm Model.SqlMerge Model.Render Model.NearSqlCases.\n"
            "Local Open Scope string_scope.\n")


# ------------------------------------------------------------------------------------------------ run
def run(chk):
    rng = chk.rng
    chk.prove(["G_Quote"], extra_vo=["theories/Model/NearSqlCases.vo"])
    chk.cov["trusted_base"] = [
        "Coq 8.16.1 kernel + vm_compute",
        "hand models Model/NearSql.v, Model/WithForm.v, Model/SqlMerge.v, Model/Render.v of near_sql.py / sql_model.py (to_with_form, to_with_form_stub, cte_cache, "
        "the merge branch of extend_to_near_sql, the *_to_sql_str_list_ family, to_sql) -- modelled, not verified; compared with the real objects and the real text on every run",
        "tools/py2v.py (Gen/G_Quote.v: _clean_annotation, quote_identifier regenerated from sql_model.py)",
        "the SQL engine is abstract in the theorems (any compositional assignment of meanings with `SELECT * FROM name` = name); SQLite 3.40.1 in-process executes "
        "both dialects' text in the oracle (no PostgreSQL server here)",
        "harness/props/C04.py (serialiser of the NearSQL object graph, interning of ops_key strings, erasure of name counters for the merge comparison), harness/pipes.py"]
    chk.assumptions = [
        "theorems guard: `hygienic` (every generated step has its own name, different from every table name; no empty terms dict) -- checked on every real graph",
        "cte_elim theorem guard: `cache_sound` (equal cache keys => same table, same key set below, key not repeated below), or its decidable sufficient form "
        "cache_sound_dec, which is evaluated in Coq on every real graph with reuse (evidence: cache_sound_decided); it was REFUTED for the keys of the code as found "
        "(repaired in /repo by efc7e6f and 0184359)",
        "merge theorem guards: declared dependencies describe each expression; the sub-query is asked for the columns the extend passes through or reads",
        "code flags (which of the four proposed repairs are present) are read off the code's behaviour on three fixed tiny inputs at run time",
        "column and table names in generated pipelines are plain identifiers (py_list_repr models repr() for those)",
        "oracle (both dialects; SQLite's own dialect writes native FULL JOIN since aad03d8): RIGHT / FULL joins of a pipeline are replaced by INNER / LEFT before the variants are generated (SQLite 3.40.1 runs the text; its native "
        "RIGHT / FULL JOIN was observed to lose a WHERE over a UNION ALL of FULL JOINs); the structural and text ties use the pipeline as generated"]
    chk.cov["rule"] = ("pipelines from harness/pipes.py (depth 1..4 quick / 1..6 thorough) and DAG shapes that reuse a sub-pipeline under different column demands: "
                       "join / concat of two narrowings of one prefix, a windowed extend followed by plain extends (merged at SQL level) shared with its own unmerged prefix, "
                       "a narrowed windowed extend under another extend, two pieces of user SQL with equal columns, record transforms (unpivot) alone / concatenated / joined; 2 tables, 1..6 rows; "
                       "2 dialects x merge on/off x 32 option combinations executed; non-trivial = a WITH list with >= 2 steps or a merged extend or CTE reuse; distinct by script+tables")
    flags = probe_flags()
    chk.cov["code_flags"] = {"none_key_uncached": flags[0], "merge_rekeys": flags[1], "merge_skips_missing": flags[2], "union_wraps_ordered": flags[3]}
    cases = []
    for f in sorted(glob.glob(os.path.join(lib.ROOT, "corpus", "C04", "*.json"))):
        try:
            cases.append(case_from_json(json.load(open(f))["case"]))
        except Exception:
            chk.dist("corpus_unreadable")
    n = N[chk.tier]
    tries = 0
    while len(cases) < n and tries < n * 30:
        tries += 1
        c = gen_case(rng, chk.tier)
        if c is not None:
            cases.append(c)
    terms, meta, stats = [], [], {}
    ntok = 0
    del SOUND_TERMS[:]
    shrink_budget = [4]
    t_start = time.time()
    for c in cases:
        chk.dist("shape_" + c.shape)
        res = run_variants(c, opts=all_options(rng))
        nok = sum(1 for r in res.values() if r[0] == "ok")
        chk.dist("variants_executed", nok)
        for d in ("sqlite", "postgres"):
            if base_key(d, res) is None:
                chk.dist(f"no_variant_runs_{d}")
        # token streams of the real text: invariant under annotate / initial_commas / sql_indent
        groups = {}
        for key, r in res.items():
            if r[1] is None:
                continue
            o = r[3]
            groups.setdefault((key[0], key[1], o["use_with"], o["use_cte_elim"]), []).append((o, r[1]))
        for gk, lst in groups.items():
            t0 = tokens(lst[0][1])
            for o, sql in lst[1:]:
                ntok += 1
                if tokens(sql) != t0:
                    chk.impl_violation("the token stream of to_sql() changes with a layout option",
                                       {"kind": "impl-violation", "case": c.json(), "dialect": gk[0], "merges": gk[1], "options_a": lst[0][0], "options_b": o,
                                        "sql_a": lst[0][1], "sql_b": sql}, {"kind": "tokens", "dialect": gk[0]})
                    break
        fails = oracle(c, res)
        t_terms, t_meta = corr_terms(c, flags, rng, TEXTS_PER_CASE[chk.tier], stats)
        nontrivial = any(m.get("steps", 0) >= 2 or m.get("merged_steps", 0) > 0 for m in t_meta)
        chk.count(c.key(), nontrivial=nontrivial)
        if len(chk.cov["samples"]) < 4:
            chk.sample({"shape": c.shape, "script": pipes.to_json(c.script), "variants_executed": nok, "failures": len(fails)})
        for tm, mm in zip(t_terms, t_meta):
            terms.append(tm)
            mm["case"] = len(meta_cases(meta))
            meta.append(dict(mm, case_json=c.json()))
        report_failures(chk, c, res, fails, shrink_budget)
    for k, v in stats.items():
        chk.dist(k, v)
    chk.cov["oracle"] = {"pipelines": len(cases), "token_stream_comparisons": ntok}
    t_oracle = time.time() - t_start
    if os.path.exists(os.path.join(lib.COQ, "theories/Model/NearSqlCases.vo")):
        failing, errors, nchecked = lib.run_case_files("C04", PREAMBLE, terms, "check_cases", per_file=150)
        chk.cov["correspondence"] = {"cases": len(terms), "checked_in_coq": nchecked, "disagreements": len(failing), "errors": errors[:2],
                                     "by_kind": {k: sum(1 for m in meta if m["kind"] == k) for k in ("CWith", "CText", "CMerge", "CDeps")}}
        chk.cov["traces_validated_against_impl"] = nchecked
        if errors:
            chk.corr_break("correspondence case files failed to compile", errors[0])
        for i in failing[:4]:
            m = meta[i]
            chk.corr_break(f"model and implementation disagree ({m['kind']}, {m.get('dialect')}, merges={m.get('merges')})", {k: v for k, v in m.items()})
        # the guard of the CTE elimination theorem, decided (Model/CacheSound.v) on the real graphs where a step was reused
        if SOUND_TERMS:
            nf, nerr, nck = lib.run_case_files("C04s", PREAMBLE, [t for t, _ in SOUND_TERMS], "check_cases", per_file=150)
            nf = [i for i in nf if i < len(SOUND_TERMS)]
            # the graphs that do not pass: is every offending pair a pair of sub-queries that both contain a join?
            nfj, nerrj, _ = lib.run_case_files("C04s", PREAMBLE, [SOUND_TERMS[i][0].replace("(CSound ", "(CSoundJ ", 1) for i in nf], "check_cases", per_file=150) if nf else ([], [], 0)
            chk.cov["cache_sound_decided"] = {"graphs_with_reuse": len(SOUND_TERMS), "checked_in_coq": nck, "established_for_every_engine": nck - len(nf),
                                              "not_established_only_because_of_join_aliases": len(nf) - len(nfj),
                                              "not_established_otherwise_(column_order_of_a_sub_query_differs_between_the_uses)": len(nfj),
                                              "errors": (nerr + nerrj)[:1]}
            if nerr or nerrj:
                chk.corr_break("cache-soundness case files failed to compile", (nerr + nerrj)[0])
            # informational: where the decidable guard fails the two uses of a sub-pipeline differ in operand aliases (joins) or in
            # the ORDER of a column list (Python set iteration in `using`, select_columns reordering terms in place): the invariant
            # then rests on the engine ignoring aliases / sub-query column order, and the oracle above executes those variants
        chk.cov["timing_s"] = {"generation_oracle_serialisation": round(t_oracle, 1), "coq_case_files": round(time.time() - t_start - t_oracle, 1)}
        if (failing or errors or not getattr(chk, "proof_ok", True)) and not any(v[2] for v in chk.violations):
            # something no longer checks and the sampled pipelines all behave: look further for an input on which the
            # implementation itself fails the property
            extra, tries = 0, 0
            while extra < 3 * n and tries < 60 * n and not any(v[2] for v in chk.violations):
                tries += 1
                c = gen_case(rng, "thorough")
                if c is None:
                    continue
                extra += 1
                res = run_variants(c, opts=all_options(rng))
                report_failures(chk, c, res, oracle(c, res), shrink_budget)
            chk.cov["oracle"]["extra_search_pipelines"] = extra
    else:
        chk.corr_break("Model/NearSqlCases.vo not built", "")


def meta_cases(meta):
    return {m["case"] for m in meta if "case" in m}


def replay(path):
    r = json.load(open(path))
    if "case" not in r:
        print(json.dumps(r, indent=1)[:3000]); return 1
    c = case_from_json(r["case"])
    fails = oracle(c)
    for f in fails[:5]:
        print(f["dialect"], "merges=%s" % f["merges"], f["options"], f["kind"], f["why"])
    print("failing variants:", len(fails))
    return 1 if fails else 0
