"""C16 -- natural_join matches SQL join semantics on every backend.
proof:  Props/C16.v.  Model/JoinSpec.v is the standard SQL join written from the standard (cross product, three-valued ON, NULL
        extension of unmatched rows, COALESCE select list); Proofs/JoinP1.v proves the reference semantics of natural_join
        (Model/Sem.v sem_join, null keys never match) EQUAL to it for every join type / key specification / tables; JoinP2.v the
        consequences (rows per partner count, null keys never match, coalescing, Pandas' merge with its null-key marker = the SQL
        join; the plain merge refuted + guarded);
        JoinP3.v / JoinP4.v the executors' emulations (Model/JoinEmul.v): SQLite's RIGHT-as-LEFT rewrite (= the RIGHT join, all key
        specifications) and FULL-as-key-table rewrite, which engines older than SQLite 3.39 still get (refuted with NULL keys,
        proved without); the harness samples it by letting sqlite3 report version 3.38.5 while the SQL is written.
tie:    every backend's real result vs the model of what THAT backend does, inside Coq: Sem.v sem_gen <flavour> for native joins and
        Pandas (execcorr.sem_correspondence), Model/JoinEmulCases.v for the emulations; and JoinSpec.v itself vs the native join.
oracle: (from the property text) for each backend compare natural_join's result with a HAND-WRITTEN native SQL join executed directly
        on SQLite 3.40.1 (which has native RIGHT / FULL JOIN): rows as multisets, 1e-8 float rule, null = NaN.  A backend that raises
        on a join the builder accepted does not "return the rows" either: reported with cause = raises."""
import json, os, glob, sqlite3, math
import lib, pipes, execcorr as X

N = {"quick": 90, "thorough": 1200}
BACKENDS = ("pandas", "sqlite", "pgtext", "polars", "pllazy")
OLD_SQLITE = "sqlite338"          # the SQLite dialect as it writes FULL joins for an engine older than 3.39.0 (the key-table emulation)
JTS = ("INNER", "LEFT", "RIGHT", "FULL", "CROSS")
SQLJT = {"INNER": "SInner", "LEFT": "SLeft", "RIGHT": "SRight", "FULL": "SFull", "CROSS": "SCross"}
MODELLED = ("full_null_key_rows_collapsed",)       # deviations that have a faithful model (JoinEmul.v sqlite_full_emul)


# ------------------------------------------------------------------------------------------------ generation

def gen_col(rng, ty, n, null_rate, domain):
    return [None if rng.random() < null_rate else rng.choice(domain[ty]) for _ in range(n)]


def make_case(rng, big=False):
    """two tables and one natural_join: key specification x join type x duplicate / null keys x shared non-key columns"""
    r = rng.random()
    kind = ("same1" if r < 0.30 else "same2" if r < 0.45 else "diff1" if r < 0.65 else "mixed2" if r < 0.77 else "empty" if r < 0.90 else "overlap")
    # numeric columns are float64 on both sides: an int column with a null becomes float64 in Pandas while its partner stays int64,
    # and Polars (rightly) refuses to join i64 with f64 keys -- a dtype artefact of the generator, not a join question
    kty = rng.choice(["float", "float", "str"])
    domain = {"float": [1.0, 2.0, 3.0] if rng.random() < 0.7 else [1.0, 2.0, 3.0, 4.0, 0.5, 6.0], "str": ["a", "b", "c"]}
    key_null = rng.choice([0.0, 0.15, 0.3, 0.4])
    na = 0 if rng.random() < 0.08 else rng.randint(1, 9 if big else 6)
    nb = 0 if rng.random() < 0.08 else rng.randint(1, 9 if big else 6)
    ca, cb, on = [], [], []                       # [(name, type, null_rate, is_key)]
    if kind in ("same1", "same2"):
        ca.append(("k", kty, key_null, True)); cb.append(("k", kty, key_null, True)); on.append("k")
        if kind == "same2":
            k2 = rng.choice(["float", "str"])
            ca.append(("j", k2, key_null / 2, True)); cb.append(("j", k2, key_null / 2, True)); on.append("j")
    elif kind == "diff1":
        ca.append(("ka", kty, key_null, True)); cb.append(("kb", kty, key_null, True)); on.append(["ka", "kb"])
    elif kind == "mixed2":
        k2 = rng.choice(["float", "str"])
        ca.append(("ka", kty, key_null, True)); cb.append(("kb", kty, key_null, True))
        ca.append(("j", k2, key_null / 2, True)); cb.append(("j", k2, key_null / 2, True))
        on = [["ka", "kb"], "j"] if rng.random() < 0.5 else ["j", ["ka", "kb"]]
    elif kind == "overlap":                        # a key name of one side is also a (non-key) column of the other side
        v = rng.choice(["both", "a_has_kb", "b_has_ka"])
        ca.append(("p", kty, key_null, True)); cb.append(("q", kty, key_null, True)); on.append(["p", "q"])
        if v in ("both", "a_has_kb"):
            ca.append(("q", kty, 0.2, False))
        if v in ("both", "b_has_ka"):
            cb.append(("p", kty, 0.2, False))
    # own columns and shared non-key columns (nulls on the left, so that coalescing shows)
    ca.append(("x", "float", 0.1, False)); cb.append(("y", rng.choice(["float", "str"]), 0.1, False))
    for s in ["s", "t"][:rng.choice([0, 1, 1, 2])]:
        sty = rng.choice(["float", "str"])
        ca.append((s, sty, rng.choice([0.3, 0.6]), False)); cb.append((s, sty, rng.choice([0.0, 0.3]), False))
    if rng.random() < 0.5:
        rng.shuffle(cb)
    if rng.random() < 0.3:
        rng.shuffle(ca)
    dom2 = dict(domain, float=[0.5, 1.0, 2.5, -1.25, 10.0])
    tabs = []
    for name, cs, n in (("a", ca, na), ("b", cb, nb)):
        colvals = [gen_col(rng, ty, n, nr, domain if isk else dom2) for (_, ty, nr, isk) in cs]
        rows = [[col[i] for col in colvals] for i in range(n)]
        if rows and rng.random() < 0.3:
            rows.append(list(rng.choice(rows)))            # a fully duplicated row
        tabs.append({"name": name, "spec": [(c, ty) for (c, ty, _, _) in cs], "rows": rows})
    if kind == "empty":
        jt = rng.choice(["CROSS", "CROSS", "INNER", "LEFT", "RIGHT", "FULL"])
    else:
        jt = rng.choice(["INNER", "LEFT", "RIGHT", "FULL", "FULL", "RIGHT"])
    script = {"op": "natural_join", "src": {"op": "table", "name": "a"}, "b": {"op": "table", "name": "b"}, "on": on, "jointype": jt}
    return mk_case(script, tabs, kind)


def mk_case(script, tabs, kind):
    try:
        ops = pipes.build(script, {t["name"]: t for t in tabs})
    except Exception:
        return None
    c = X.Case(script, tabs, ops)
    c.kind = kind
    c.jt = script["jointype"]
    c.on_a = [x if isinstance(x, str) else x[0] for x in script["on"]]
    c.on_b = [x if isinstance(x, str) else x[1] for x in script["on"]]
    return c


def keyspec_kind(script, tabs):
    on = script["on"]
    if not on:
        return "empty"
    cols = {t["name"]: [c for c, _ in t["spec"]] for t in tabs}
    on_a = [x if isinstance(x, str) else x[0] for x in on]
    on_b = [x if isinstance(x, str) else x[1] for x in on]
    if on_a == on_b:
        return "same1" if len(on) == 1 else "same2"
    for x, y in zip(on_a, on_b):
        if x != y and (x in cols["b"] or y in cols["a"]):
            return "overlap"
    return "diff1" if len(on) == 1 else "mixed2"


# ------------------------------------------------------------------------------------------------ tables as plain rows

def plain(t):
    cols = [c for c, _ in t["spec"]]
    return cols, [tuple(pipes.norm_cell(v) for v in r) for r in t["rows"]]


def frame_rows(df):
    cols, rows = pipes.canon(df, keep_col_order=True)
    return cols, rows


def by_sorted_cols(cols, rows):
    order = sorted(range(len(cols)), key=lambda i: cols[i])
    return [cols[i] for i in order], sorted((tuple(r[i] for i in order) for r in rows), key=pipes.sort_key)


def same_bag(c1, r1, c2, r2):
    """None when equal as (column set, multiset of rows) under the 1e-8 rule, else 'columns' / 'rows'"""
    c1, r1 = by_sorted_cols(c1, r1)
    c2, r2 = by_sorted_cols(c2, r2)
    if c1 != c2:
        return "columns"
    if len(r1) != len(r2):
        return "rows"
    for x, y in zip(r1, r2):
        for u, v in zip(x, y):
            if not pipes.cells_close(u, v):
                return "rows"
    return None


# ------------------------------------------------------------------------------------------------ the oracle: a hand-written native join

def q(c):
    return '"' + c + '"'


def native_sql(case):
    ca = [c for c, _ in case.tables["a"]["spec"]]
    cb = [c for c, _ in case.tables["b"]["spec"]]
    sel = []
    for c in ca:
        sel.append(f"COALESCE(a.{q(c)}, b.{q(c)}) AS {q(c)}" if c in cb else f"a.{q(c)} AS {q(c)}")
    for c in cb:
        if c not in ca:
            sel.append(f"b.{q(c)} AS {q(c)}")
    if case.jt == "CROSS":
        frm = "a CROSS JOIN b"
    else:
        cond = " AND ".join(f"a.{q(x)} = b.{q(y)}" for x, y in zip(case.on_a, case.on_b)) or "1 = 1"
        frm = f"a {case.jt} JOIN b ON {cond}"
    return "SELECT " + ", ".join(sel) + " FROM " + frm


def native_join(case):
    """(columns, rows) of the standard SQL join, computed by SQLite 3.40.1's own INNER / LEFT / RIGHT / FULL / CROSS JOIN"""
    conn = sqlite3.connect(":memory:")
    try:
        for name in ("a", "b"):
            t = case.tables[name]
            decl = ", ".join(f"{q(c)} {'TEXT' if ty == 'str' else 'REAL'}" for c, ty in t["spec"])
            conn.execute(f"CREATE TABLE {name} ({decl})")
            if t["rows"]:
                conn.executemany(f"INSERT INTO {name} VALUES ({', '.join('?' for _ in t['spec'])})",
                                 [[None if v is None else (v if isinstance(v, str) else float(v)) for v in r] for r in t["rows"]])
        cur = conn.execute(native_sql(case))
        cols = [d[0] for d in cur.description]
        rows = [tuple(pipes.norm_cell(v) for v in r) for r in cur.fetchall()]
        return cols, rows
    finally:
        conn.close()


# ------------------------------------------------------------------------------------------------ naming the known deviations exactly

def keyeq(x, y, null_match):
    if x is None or y is None:
        return null_match and x is None and y is None
    return pipes.cells_close(x, y)


def py_join(case, *, null_match=False, polars_full=False):
    """reference join in plain Python, with the two documented library deviations as switches (used only to NAME a deviation)"""
    ca, ra = plain(case.tables["a"])
    cb, rb = plain(case.tables["b"])
    out = ca + [c for c in cb if c not in ca]
    ia = [ca.index(k) for k in case.on_a]
    ib = [cb.index(k) for k in case.on_b]

    def hit(x, y):
        return all(keyeq(x[i], y[j], null_match) for i, j in zip(ia, ib))

    def mk(x, y, blank_keys=False):
        row = []
        for c in out:
            va = x[ca.index(c)] if (x is not None and c in ca) else None
            vb = y[cb.index(c)] if (y is not None and c in cb) else None
            v = vb if va is None else va
            if blank_keys and c in case.on_a:
                v = None
            row.append(v)
        return tuple(row)
    jt = "INNER" if case.jt == "CROSS" else case.jt
    rows = [mk(x, y) for x in ra for y in rb if hit(x, y)]
    if jt in ("LEFT", "FULL"):
        rows += [mk(x, None) for x in ra if not any(hit(x, y) for y in rb)]
    if jt in ("RIGHT", "FULL"):
        rows += [mk(None, y, blank_keys=polars_full) for y in rb if not any(hit(x, y) for x in ra)]
    return out, rows


def py_sqlite_full(case):
    """_emit_full_join_as_complex in plain Python: distinct keys (null = a key value), LEFT JOIN a, LEFT JOIN b (null never matches)"""
    ca, ra = plain(case.tables["a"])
    cb, rb = plain(case.tables["b"])
    J = case.on_a
    keys = []
    for cols, rows in ((ca, ra), (cb, rb)):
        for r in rows:
            k = tuple(r[cols.index(j)] for j in J)
            if not any(all(keyeq(u, v, True) for u, v in zip(k, k2)) for k2 in keys):
                keys.append(k)
    out = ca + [c for c in cb if c not in ca]
    res = []
    for k in keys:
        la = [r for r in ra if all(keyeq(u, r[ca.index(j)], False) for u, j in zip(k, J))] or [None]
        lb = [r for r in rb if all(keyeq(u, r[cb.index(j)], False) for u, j in zip(k, J))] or [None]
        for x in la:
            for y in lb:
                row = []
                for c in out:
                    vk = k[J.index(c)] if c in J else None
                    va = x[ca.index(c)] if (x is not None and c in ca) else None
                    vb = y[cb.index(c)] if (y is not None and c in cb) else None
                    v = vk if vk is not None else (va if va is not None else vb)
                    row.append(v)
                res.append(tuple(row))
    return out, res


def has_null_key(case):
    out = {}
    for name, on in (("a", case.on_a), ("b", case.on_b)):
        cols, rows = plain(case.tables[name])
        out[name] = any(r[cols.index(k)] is None for r in rows for k in on)
    return out


def has_dup_key(case):
    for name, on in (("a", case.on_a), ("b", case.on_b)):
        cols, rows = plain(case.tables[name])
        ks = [tuple(r[cols.index(k)] for k in on) for r in rows]
        if on and len(set(ks)) < len(ks):
            return True
    return False


def sig_backend(b):
    return "polars" if b == "pllazy" else "sqlite<3.39" if b == OLD_SQLITE else b


def backend_result(case, backend):
    """(frame | None, error | None).  OLD_SQLITE: the SQL text SQLiteModel writes when sqlite3 reports a version below 3.39.0
    (natural_join_to_near_sql then emulates FULL JOIN), executed on the real engine"""
    if backend != OLD_SQLITE:
        return case.result(backend)
    if backend not in case._res:
        import sqlite3, data_algebra.SQLite
        real = sqlite3.sqlite_version_info
        try:
            sqlite3.sqlite_version_info = (3, 38, 5)
            try:
                sql = data_algebra.SQLite.SQLiteModel().to_sql(case.ops)
            finally:
                sqlite3.sqlite_version_info = real
            case._res[backend] = (X.eval_sql(case.ops, case.frames, "sqlite", sql=sql), None)
        except Exception as e:            # noqa
            case._res[backend] = (None, f"{type(e).__name__}: {str(e)[:160]}")
    return case._res[backend]


def oracle(case, backend, native=None):
    """None, or (what, cause, extra) when `backend`'s natural_join does not return the rows of the native SQL join"""
    native = native or native_join(case)
    res, err = backend_result(case, backend)
    if res is None:
        cls = (err or "").split(":")[0]
        return (f"{backend}: natural_join(jointype={case.jt!r}, on={case.script['on']!r}) raised {err}", "raises", {"error": cls})
    cols, rows = frame_rows(res)
    d = same_bag(cols, rows, *native)
    if d is None:
        return None
    cause = d
    if d == "rows":
        if backend == "pandas" and same_bag(cols, rows, *py_join(case, null_match=True)) is None:
            cause = "null_keys_matched"
        elif backend in ("sqlite", OLD_SQLITE) and case.jt == "FULL" and case.on_a and case.on_a == case.on_b and same_bag(cols, rows, *py_sqlite_full(case)) is None:
            cause = "full_null_key_rows_collapsed"
        elif backend in ("polars", "pllazy") and case.jt == "FULL" and same_bag(cols, rows, *py_join(case, polars_full=True)) is None:
            cause = "full_right_only_keys_null"
    what = (f"{backend}: natural_join(jointype={case.jt!r}, on={case.script['on']!r}) returned {len(rows)} rows "
            f"{'with columns ' + str(cols) + ' ' if d == 'columns' else ''}that are not the rows of the native SQL join "
            f"({len(native[1])} rows){'' if cause in ('rows', 'columns') else ' [' + cause + ']'}")
    return (what, cause, {})


def signature(case, backend, cause, extra):
    nk = has_null_key(case)
    s = {"backend": sig_backend(backend), "jointype": case.jt, "keyspec": case.kind, "cause": cause,
         "null_key_left": nk["a"], "null_key_right": nk["b"], "has_dup_key": has_dup_key(case),
         "empty_side": not case.tables["a"]["rows"] or not case.tables["b"]["rows"]}
    s.update(extra)
    return s


def shrink(case, backend, cause):
    """fewer rows per table on which the same backend still fails for the same cause"""
    best = case
    for name in ("a", "b"):
        t = best.tables[name]

        def fails(rows, name=name):
            tabs2 = [dict(x, rows=rows) if x["name"] == name else x for x in best.tabs]
            c2 = mk_case(best.script, tabs2, best.kind)
            if c2 is None:
                return False
            o = oracle(c2, backend)
            return o is not None and o[1] == cause
        rows = lib.shrink_list(t["rows"], fails, max_steps=60)
        if len(rows) < len(t["rows"]):
            best = mk_case(best.script, [dict(x, rows=rows) if x["name"] == name else x for x in best.tabs], best.kind)
    return best


# ------------------------------------------------------------------------------------------------ Coq terms for Model/JoinEmulCases.v

def ctable_rows(cols, rows):
    import semconv
    return "(mktable %s %s)" % (semconv.sl(cols), lib.clist([lib.clist([semconv.cval(v) for v in r]) for r in rows]))


def jcase_term(case, kind, obs):
    import semconv
    a = ctable_rows(*plain(case.tables["a"]))
    b = ctable_rows(*plain(case.tables["b"]))
    o = "None" if obs is None else "(Some %s)" % ctable_rows(*obs)
    return "mkjcase %s %s %s %s %s %s" % (kind, semconv.sl(case.on_a), semconv.sl(case.on_b), a, b, o)


JPREAMBLE = ("From Coq Require Import List Bool ZArith QArith String.\nImport ListNotations.\nOpen Scope string_scope.\n"
             "From DA Require Import Base.PyRT Base.Cases Base.Val Model.Sem Model.SemCases Model.JoinSpec Model.JoinEmul Model.JoinEmulCases.\nOpen Scope list_scope.\n")


# ------------------------------------------------------------------------------------------------ run

def load_corpus(chk):
    out = []
    for f in sorted(glob.glob(os.path.join(lib.ROOT, "corpus", "C16", "*.json"))):
        try:
            j = json.load(open(f))
            c = case_of_json(j["case"])
            if c is not None:
                out.append(c)
        except Exception:
            chk.dist("corpus_unreadable")
    return out


def case_of_json(j):
    tabs = [{"name": t["name"], "spec": [tuple(x) for x in t["spec"]], "rows": t["rows"]} for t in j["tables"]]
    return mk_case(j["script"], tabs, keyspec_kind(j["script"], tabs))


def run(chk):
    import time
    rng = chk.rng
    t0 = time.time()
    chk.prove([], extra_vo=["theories/Model/SemCases.vo", "theories/Model/JoinEmulCases.vo"])
    timing = {"prove_s": round(time.time() - t0, 1)}
    t0 = time.time()
    chk.cov["trusted_base"] = [
        "Coq 8.16.1 kernel + vm_compute",
        "Model/JoinSpec.v: the standard SQL join transcribed from the standard by hand -- compared with SQLite 3.40.1's native INNER/LEFT/RIGHT/FULL/CROSS JOIN on every case, every run",
        "Model/Sem.v sem_join (what a native join / pandas.merge backend computes) and Model/JoinEmul.v (SQLite RIGHT/FULL rewrites) -- modelled, not verified; "
        "compared with every backend's real result on every run",
        "SQLite 3.40.1 as the executor of the hand-written native join and of the PostgreSQL-dialect text (no PostgreSQL server here)",
        "harness/semconv.py, harness/pipes.py, harness/execcorr.py"]
    chk.assumptions = ["column ORDER of the result is C08's subject: results are compared as column set + multiset of rows",
                       "key lists have equal length (NaturalJoinNode asserts it); CROSS has an empty key list (NaturalJoinNode raises otherwise)",
                       "PostgreSQL is represented by its dialect's SQL text executed on SQLite 3.40.1"]
    chk.cov["rule"] = ("one natural_join of two tables: join type in INNER/LEFT/RIGHT/FULL/CROSS x key spec in {one same-named key, two keys, differently named key, "
                       "mixed, empty `on`, a key name that is also a non-key column of the other side} x key type int/str/float x key null rate 0..0.4 x 0..6 rows (8% empty, "
                       "small key domain => duplicate keys, 30% a duplicated row) x 0..2 shared non-key columns with nulls on the left x shuffled column order; five backends, and for FULL joins also the SQL the SQLite dialect writes for an engine older than 3.39 (its FULL-join emulation); "
                       "non-trivial = a null or duplicate key, or a shared non-key column; distinct by script + tables")
    cases = load_corpus(chk)
    ncorpus = len(cases)
    n = N[chk.tier]
    tries = 0
    while len(cases) < n + ncorpus and tries < n * 20:
        tries += 1
        c = make_case(rng, chk.tier == "thorough")
        if c is not None:
            cases.append(c)
    std_items, emul_terms, emul_index, skipped = [], [], [], 0
    reported = set()
    oracle_counts = {"compared": 0, "agree": 0, "deviate": 0, "raised": 0}
    for c in cases:
        nk = has_null_key(c)
        shared = [x for x, _ in c.tables["a"]["spec"] if x in [y for y, _ in c.tables["b"]["spec"]] and x not in c.on_a]
        chk.count(c.key(), nontrivial=(nk["a"] or nk["b"] or has_dup_key(c) or bool(shared)))
        chk.dist("jointype_" + c.jt); chk.dist("keyspec_" + c.kind)
        chk.dist("null_keys_" + ("both" if nk["a"] and nk["b"] else "left" if nk["a"] else "right" if nk["b"] else "none"))
        if has_dup_key(c):
            chk.dist("duplicate_keys")
        chk.dist("rows_%d_x_%d" % (min(len(c.tables["a"]["rows"]), 7), min(len(c.tables["b"]["rows"]), 7)) if False else "rows_total_%d" % min(len(c.tables["a"]["rows"]) + len(c.tables["b"]["rows"]), 12))
        if len(chk.cov["samples"]) < 3:
            chk.sample({"case": c.json(), "native_sql": native_sql(c)})
        try:
            native = native_join(c)
        except Exception as e:              # the hand-written statement must always run: a failure here is a harness bug, not a finding
            chk.corr_break("the hand-written native join failed to execute", {"case": c.json(), "sql": native_sql(c), "error": repr(e)})
            continue
        emul_terms.append(jcase_term(c, "(KSpec %s)" % SQLJT[c.jt], native)); emul_index.append((c, "native", native))
        for b in BACKENDS + ((OLD_SQLITE,) if c.jt == "FULL" else ()):
            res, err = backend_result(c, b)
            o = oracle(c, b, native)
            oracle_counts["compared"] += 1
            if res is None:
                oracle_counts["raised"] += 1
                chk.dist(f"raised:{b}:{c.jt}:{c.kind}")
            elif o is None:
                oracle_counts["agree"] += 1
            else:
                oracle_counts["deviate"] += 1
                chk.dist(f"deviates:{b}:{o[1]}")
            if o is not None:
                what, cause, extra = o
                sig = signature(c, b, cause, extra)
                known = any(lib.match_sig(f.get("signature", {}), sig) for f in chk.known)
                dkey = (sig["backend"], sig["jointype"], sig["keyspec"], cause, extra.get("error"))
                if not known and dkey in reported:
                    chk.dist("further_violation_same_signature")         # one (shrunk) failing input per signature is enough
                else:
                    reported.add(dkey)
                    small = c if known else shrink(c, b, cause)
                    o2 = oracle(small, b) or o
                    nat2 = native_join(small)
                    rep = {"kind": "impl-violation", "case": small.json(), "backend": b, "cause": cause, "why": o2[0], "native_sql": native_sql(small),
                           "native_join": {"columns": nat2[0], "rows": [list(r) for r in nat2[1]]},
                           "observed": None if backend_result(small, b)[0] is None else pipes.frame_to_json(backend_result(small, b)[0]), "error": backend_result(small, b)[1],
                           "signature": signature(small, b, cause, extra)}
                    chk.impl_violation(o2[0], rep, sig)
            # ---- correspondence: which model speaks for this backend on this join
            emul = None
            if b == "sqlite" and c.jt == "RIGHT":
                emul = "KSqliteRight"
            elif b == OLD_SQLITE:
                emul = "KSqliteFull"
            if emul is not None:
                if o is not None and o[1] == "columns":
                    skipped += 1
                    continue
                emul_terms.append(jcase_term(c, emul, None if res is None else frame_rows(res))); emul_index.append((c, b, res))
            elif res is not None:
                if o is not None and o[1] not in MODELLED:
                    skipped += 1          # a deviation the oracle has already reported (or matched to a listed finding); no faithful model of it
                    continue
                std_items.append((c, b, res))
    chk.cov["oracle"] = dict(oracle_counts, corpus_cases=ncorpus)
    timing["backends_and_oracle_s"] = round(time.time() - t0, 1)
    t0 = time.time()
    failing, nchecked, errors = X.sem_correspondence(chk, "C16", std_items, per_file=120)
    efail, eerrors, enchecked = lib.run_case_files("C16emul", JPREAMBLE, emul_terms, "check_jcases", per_file=120, timeout=1500) if emul_terms else ([], [], 0)
    chk.cov["correspondence"] = {"native_and_pandas_cases": len(std_items), "checked_in_coq": nchecked, "disagreements": len(failing),
                                 "emulation_and_spec_cases": len(emul_terms), "emulation_checked_in_coq": enchecked, "emulation_disagreements": len(efail),
                                 "not_compared_already_reported_deviation": skipped, "errors": (errors + eerrors)[:2]}
    chk.cov["traces_validated_against_impl"] = nchecked + enchecked
    timing["coq_case_files_s"] = round(time.time() - t0, 1)
    chk.cov["timing"] = timing
    if errors or eerrors:
        chk.corr_break("correspondence case files failed to compile", (errors + eerrors)[0])
    for i in failing:
        c, b, res = std_items[i]
        chk.corr_break(f"Model/Sem.v (flavour {X.FLAVOR[b]}) and the {b} backend disagree on a natural_join", X.describe(c, b, res, None))
    for i in efail:
        if i >= len(emul_index):
            continue
        c, b, res = emul_index[i]
        if b == "native":
            chk.corr_break("Model/JoinSpec.v and SQLite's native join disagree", {"case": c.json(), "sql": native_sql(c), "native": [list(r) for r in res[1]]})
        else:
            chk.corr_break(f"Model/JoinEmul.v and the {b} backend disagree on a {c.jt} natural_join", X.describe(c, b, res, backend_result(c, b)[1]))
    if (getattr(chk, "pending_breaks", None) or not getattr(chk, "proof_ok", True)) and not any(v[2] for v in chk.violations):
        search_failing_input(chk, rng, 400 if chk.tier == "quick" else 3000)


def search_failing_input(chk, rng, n):
    """a correspondence or a proof broke and the oracle found nothing on the run's own cases: look further (oracle only)"""
    found = 0
    for _ in range(n):
        c = make_case(rng, True)
        if c is None:
            continue
        try:
            native = native_join(c)
        except Exception:
            continue
        for b in BACKENDS + ((OLD_SQLITE,) if c.jt == "FULL" else ()):
            o = oracle(c, b, native)
            if o is None:
                continue
            sig = signature(c, b, o[1], o[2])
            if any(lib.match_sig(f.get("signature", {}), sig) for f in chk.known):
                continue
            small = shrink(c, b, o[1])
            o2 = oracle(small, b) or o
            chk.impl_violation(o2[0], {"kind": "impl-violation", "found_by": "search after a break", "case": small.json(), "backend": b, "cause": o[1],
                                       "why": o2[0], "native_sql": native_sql(small), "signature": signature(small, b, o[1], o[2])}, sig)
            found += 1
        if found:
            break
    chk.cov["search_after_break"] = {"cases_tried": n, "found": found}


def replay(path):
    r = json.load(open(path))
    if "case" not in r:
        print(json.dumps(r, indent=1)[:3000]); return 1
    c = case_of_json(r["case"])
    if c is None:
        print("the builder no longer accepts the join"); return 0
    b = r.get("backend", "pandas")
    o = oracle(c, b)
    print("native SQL:", native_sql(c))
    print("native rows:", native_join(c))
    res, err = backend_result(c, b)
    print(f"{b}:", err if res is None else frame_rows(res))
    print(o[0] if o else "ok")
    return 1 if o else 0
