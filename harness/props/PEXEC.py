"""PEXEC -- the Pandas executor, transcribed step by step, refines the reference semantics (pseudo property: deepens C01 C08 C15 C16).
proof:  Props/PEXEC.v.  Model/PandasExec.v transcribes every `_*_step` of data_algebra/pandas_base.py (scratch columns, sub-frames,
        sort / group / transform / sort back, null-key marker column + merge + coalescing loop, empty-input special cases) over hand models of the pandas
        primitives it calls (Model/PdPrim.v).  Theorems: the transcription refines sem_gen fl_pandas (up to column order and row
        order, exactly what holds is stated there), no scratch column survives, the chosen scratch names never capture a user
        column, shared non-key join columns are coalesced left-first.
tie:    (a) whole pipelines: pexec inside Coq vs the REAL ops.eval on Pandas -- same columns in the same order, same rows in the same
            order (as a multiset where pandas' choice is not a function of the arguments: tied single-key sorts, INNER merges);
            declared_cols vs ops.column_names;
        (b) primitives: each modelled pandas call (df[c]=, del, df[cs], mask, rename, sort_values, concat, merge, groupby.agg /
            transform / cumcount / size, isnull, isnull().any(axis=1), .loc[mask, c] = ...) run on random small frames vs Model/PdPrim.v inside Coq;
        (c) syntactic: the scratch-name base strings and the pandas calls of every `_*_step`, extracted from pandas_base.py with
            `ast`, vs the transcription's tables (a new scratch column or a new pandas call in a step = correspondence break);
        (d) quirks read from the source (table_is_keyed_by_columns groups with dropna=True) are passed to the model.
oracle: on the real executor, written from the statements: result columns == declared columns (no scratch column survives);
        renaming a user column to a scratch base name and back does not change the result (no capture); join rows matched through
        unique row ids carry COALESCE(left, right) in every shared non-key column; a windowed extend gives every row (matched by
        uid) the window function over its ordered partition and keeps its other cells; order_rows + limit = prefix of the
        reference sort; a builder-accepted pipeline whose semantics is defined must not make the executor raise."""
import ast, glob, json, math, os, traceback, warnings
import numpy as np
import pandas as pd
import lib, pipes, semconv, execcorr as X
from lib import clist, cstr, cbool

warnings.filterwarnings("ignore")

N_PIPE = {"quick": 150, "thorough": 2400}
N_PRIM = {"quick": 14, "thorough": 160}          # per primitive kind
N_TARGET = {"quick": 30, "thorough": 400}        # per targeted shape

PRE = ("From Coq Require Import List Bool ZArith QArith String.\nImport ListNotations.\nOpen Scope string_scope.\n"
       "From DA Require Import Base.PyRT Base.Cases Base.Val Model.Sem Model.SemCases Model.PdPrim Model.PandasExec Model.PandasExecCases.\n"
       "Open Scope list_scope.\n")

STEPS = ["_table_step", "_extend_step", "_project_step", "_select_rows_step", "_select_columns_step", "_drop_columns_step",
         "_rename_columns_step", "_map_columns_step", "_order_rows_step", "_natural_join_step", "_concat_rows_step",
         "columns_to_frame_", "add_data_frame_columns_to_data_frame_", "table_is_keyed_by_columns"]
# attribute calls that are plain Python / data_algebra bookkeeping, not frame operations
NOT_FRAME_CALLS = {"keys", "items", "values", "append", "add", "union", "intersection", "simplefilter", "catch_warnings",
                   "check_extend_window_fns_", "check_columns_appear_compatible", "lower", "_eval_value_source", "columns_produced",
                   "is_appropriate_data_instance", "difference", "copy", "update", "get", "join", "format"}


# local variables of the steps that hold frames (column assignments `frame[name] = ...` to them are counted)
FRAME_VARS = {"res", "left", "right", "subframe", "row", "transient_new_frame"}


# ------------------------------------------------------------------------------------------------ syntactic tie

def _source():
    return open(os.path.join(lib.REPO, "data_algebra", "pandas_base.py")).read()


def extract_syntax():
    """({step: [scratch base strings]}, {step: [frame calls]}, quirks) from the source text"""
    tree = ast.parse(_source())
    cls = [n for n in tree.body if isinstance(n, ast.ClassDef) and n.name == "PandasModelBase"][0]
    fns = {n.name: n for n in cls.body if isinstance(n, ast.FunctionDef)}
    names, calls = [], []
    for step in STEPS:
        f = fns.get(step)
        if f is None:
            names.append((step, ["<missing>"])); calls.append((step, ["<missing>"])); continue
        ns, cs = [], []
        counts = {"setitem": 0, "delitem": 0}

        def lit(e):
            if isinstance(e, ast.Constant) and isinstance(e.value, str):
                return e.value
            if isinstance(e, ast.BinOp) and isinstance(e.op, ast.Add):          # "base_" + str(n)
                return lit(e.left)
            return None

        class V(ast.NodeVisitor):
            def visit_Raise(self, node):          # error messages are not names
                return

            def visit_Call(self, node):
                fn = node.func
                if isinstance(fn, ast.Name) and fn.id == "_unused_column_name" and node.args:
                    s = lit(node.args[0])
                    ns.append(s if s is not None else "<computed>")
                if isinstance(fn, ast.Attribute) and fn.attr not in NOT_FRAME_CALLS and fn.attr not in cs:
                    cs.append(fn.attr)
                self.generic_visit(node)

            def visit_Assign(self, node):
                for t in node.targets:
                    if isinstance(t, ast.Name) and "suffix" in t.id:
                        s = lit(node.value)
                        if s is not None and s != "_" and s not in ns:
                            ns.append(s)
                    if isinstance(t, ast.Subscript) and isinstance(t.value, ast.Name) and t.value.id in FRAME_VARS:
                        counts["setitem"] += 1                                   # frame[name] = ... : a column assignment
                    if isinstance(t, ast.Subscript) and not isinstance(t.value, ast.Attribute):
                        s = lit(t.slice)
                        if s is not None and s not in ns:                        # frame["literal"] = ... : a hard-wired column name
                            ns.append(s)
                self.generic_visit(node)

            def visit_Delete(self, node):
                for t in node.targets:
                    if isinstance(t, ast.Subscript):
                        counts["delitem"] += 1                                   # del frame[name]
                        s = lit(t.slice)
                        if s is not None and s not in ns:
                            ns.append(s)
                self.generic_visit(node)

            def visit_Subscript(self, node):
                v = node.value
                if isinstance(v, ast.Attribute) and v.attr in ("loc", "iloc", "at", "iat") and v.attr not in cs:
                    cs.append(v.attr)
                self.generic_visit(node)

        for stmt in f.body:
            if isinstance(stmt, ast.Expr) and isinstance(stmt.value, ast.Constant):
                continue                            # docstring
            V().visit(stmt)
        dedup = []
        for s in ns:
            if s not in dedup:
                dedup.append(s)
        names.append((step, dedup)); calls.append((step, cs + ["[]=%d" % counts["setitem"], "del=%d" % counts["delitem"]]))
    names = [(s, v) for s, v in names if v]
    # quirk: does table_is_keyed_by_columns group with dropna=False ?
    keyed_dropna = True
    f = fns.get("table_is_keyed_by_columns")
    if f is not None:
        for n in ast.walk(f):
            if isinstance(n, ast.Call) and isinstance(n.func, ast.Attribute) and n.func.attr == "groupby":
                for kw in n.keywords:
                    if kw.arg == "dropna" and isinstance(kw.value, ast.Constant) and kw.value.value is False:
                        keyed_dropna = False
    return names, calls, {"keyed_dropna": keyed_dropna}


def assoc(xs):
    return clist(["(%s, %s)" % (cstr(k), semconv.sl(v)) for k, v in xs])


# ------------------------------------------------------------------------------------------------ pipeline cases

def multi_gb(sc):
    if sc["op"] == "table":
        return False
    return (sc["op"] == "project" and len(sc.get("group_by") or []) >= 2) or multi_gb(sc["src"]) or ("b" in sc and multi_gb(sc["b"]))


def single_key_ties(ops, frames, memo=None):
    """True when some order_rows node sorts by ONE column whose non-null values repeat on its actual input: numpy's default sort is
    not stable, the order of the tied rows is then undetermined (Model/PdPrim.v), and the case is not compared row for row"""
    memo = {} if memo is None else memo
    if id(ops) in memo:
        return memo[id(ops)]
    r = False
    for s in ops.sources:
        r = r or single_key_ties(s, frames, memo)
    if not r and ops.node_name == "OrderRowsNode" and len(ops.order_columns) == 1:
        try:
            src = ops.sources[0].eval({k: v.copy() for k, v in frames.items()})
            vals = [pipes.norm_cell(v) for v in src[ops.order_columns[0]]]
            vals = [v for v in vals if v is not None]
            r = len(set(vals)) != len(vals)
        except Exception:
            r = False
    memo[id(ops)] = r
    return r


def has_inner_merge(sc):
    """an INNER / CROSS natural_join is present: pandas.merge(how="inner") lists the matching pairs in an order that is not a function of
    its arguments one could rely on (pandas 3 hash join; Model/PdPrim.v pd_merge_with); the theorems hold for every arrangement"""
    if sc["op"] == "table":
        return False
    here = sc["op"] == "natural_join" and str(sc.get("jointype", "INNER")).upper() in ("INNER", "CROSS")
    return bool(here) or has_inner_merge(sc["src"]) or ("b" in sc and has_inner_merge(sc["b"]))


def has_const_window(sc):
    """a windowed extend with a literal first argument, e.g. (1).sum(): transcribed and tied, but outside wf_op_b (not covered by the proof)"""
    import re
    if sc["op"] == "table":
        return False
    here = sc["op"] == "extend" and (sc.get("partition_by") or sc.get("order_by")) and any(re.match(r"^\(?-?[0-9.]+\)?\.", e) for e in sc["ops"].values())
    return bool(here) or has_const_window(sc["src"]) or ("b" in sc and has_const_window(sc["b"]))


def eval_real(ops, frames):
    """(frame | None, error text | None, raised inside scalar-expression evaluation?)"""
    try:
        return ops.eval({k: v.copy() for k, v in frames.items()}), None, False
    except Exception as e:          # noqa
        names = [f.name for f in traceback.extract_tb(e.__traceback__)]
        return None, f"{type(e).__name__}: {str(e)[:160]}", ("act_on_expression" in names)


def dtype_raise(ops, frames, err):
    """the model is untyped; classify a raise of a dtype check:
    'merge_dtype'  pandas.merge refuses key columns of dtype object vs float64 -- arises only when an object-dtype key column (what
                   pipes.make_frame gives a string column) holds nothing but None and a groupby has turned it into float64 NaN; with
                   pandas' own string dtype the same pipeline runs: an artefact of the generated frames, skipped and counted;
    'type_guess'   data_algebra's own check_columns_appear_compatible refuses a column whose values are ALL missing because
                   guess_carried_scalar_type reports the type of the NaN placeholder: a defect (known finding / pending fix), recognised by
                   re-running with that one function repaired;
    None           anything else"""
    if not err:
        return None
    if "You are trying to merge on" in err:
        return "merge_dtype"
    if "incompatible column types" in err:
        import data_algebra.util as U
        orig = U.guess_carried_scalar_type
        def repaired(col):
            try:
                arr = col.to_numpy() if hasattr(col, "to_numpy") else col
                if not isinstance(arr, (str, bytes)) and hasattr(arr, "__len__") and len(arr) > 0 and bool(np.all(pd.isna(arr))):
                    return type(None)
            except Exception:
                pass
            return orig(col)
        U.guess_carried_scalar_type = repaired
        try:
            r2, e2, _ = eval_real(ops, frames)
        finally:
            U.guess_carried_scalar_type = orig
        if r2 is not None or dtype_raise_text(e2) == "merge_dtype":
            return "type_guess"
    return None


def dtype_raise_text(err):
    return "merge_dtype" if err and "You are trying to merge on" in err else None


def pcase_term(ops, frames, res, quirks, script, rows_as_bag=False):
    obs = "None" if res is None else "(Some %s)" % semconv.ctable(res)
    return "mkpcase (mkq %s) %s %s %s %s %s %s" % (cbool(quirks["keyed_dropna"]), semconv.cop(ops), semconv.cenv(frames), obs,
                                                   semconv.sl(list(ops.column_names)), cbool(not multi_gb(script)),
                                                   cbool(not rows_as_bag and not single_key_ties(ops, frames)))


# ---- targeted shapes (the special cases of the steps that random pipelines reach rarely)

def t_spec(rng, names, types=("int", "float", "str")):
    return [(n, rng.choice(types)) for n in names]


def mk_table(rng, name, spec, nrows, null_rate=0.25, uid=None):
    rows = []
    for i in range(nrows):
        if rows and rng.random() < 0.3:
            rows.append(list(rng.choice(rows))[:len(spec)])
        else:
            rows.append([pipes.gen_value(rng, ty, null_rate) for _, ty in spec])
    spec = list(spec)
    if uid:
        perm = list(range(nrows)); rng.shuffle(perm)
        spec.append((uid, "int"))
        rows = [r + [perm[i]] for i, r in enumerate(rows)]
    return {"name": name, "spec": spec, "rows": rows}


_KEYSHAPE_TURN = [0]


def target_case(rng, kind):
    """(script, tables, info) for one targeted shape"""
    T = lambda n: {"op": "table", "name": n}
    if kind == "join":
        # keys with the same or different names, multi-column, shared non-key columns, duplicate and null keys, empty sides, empty `on`
        kt = rng.choice(["int", "str"])
        nk = rng.choice([0, 1, 1, 1, 2])
        same = rng.random() < 0.6
        lk = ["k%d" % i for i in range(nk)]
        rk = lk if same else ["j%d" % i for i in range(nk)]
        shared = [(c, rng.choice(["int", "float", "str"])) for c in rng.sample(["s", "t"], rng.choice([0, 1, 1, 2]))]
        lspec = [(c, kt) for c in lk] + shared + [("a", "float")]
        rspec = [(c, kt) for c in rk] + shared + [("b", "float")]
        rng.shuffle(lspec); rng.shuffle(rspec)
        d1 = mk_table(rng, "d1", lspec, rng.choice([0, 1, 2, 3, 4, 5]), rng.choice([0.0, 0.2, 0.4]), uid="lid")
        d2 = mk_table(rng, "d2", rspec, rng.choice([0, 1, 2, 3, 4, 5]), rng.choice([0.0, 0.2, 0.4]), uid="rid")
        if nk and rng.random() < 0.35:                # a null key on BOTH sides: the null-key marker column path of _natural_join_step
            for d, ks in ((d1, lk), (d2, rk)):
                if not d["rows"]:
                    d["rows"].append([pipes.gen_value(rng, ty, 0.0) for _, ty in d["spec"]])
                names = [c for c, _ in d["spec"]]
                for r in rng.sample(d["rows"], rng.choice([1, min(2, len(d["rows"]))])):
                    r[names.index(rng.choice(ks))] = None
        jt = rng.choice(["INNER", "LEFT", "RIGHT", "FULL"] + (["CROSS"] if nk == 0 else []))
        s = {"op": "natural_join", "src": T("d1"), "b": T("d2"), "on": [[a, b] for a, b in zip(lk, rk)], "jointype": jt}
        return s, [d1, d2], {"kind": "join", "lk": lk, "rk": rk, "shared": [c for c, _ in shared], "jointype": jt}
    if kind == "join_keys":
        # key specifications over names BOTH tables have: crossed (a~b, b~a), chained (a~b, b~c), a renamed pair whose names are also
        # non-key columns of the other side, same-named mixed with renamed pairs, random injective pairings; all four join types, null
        # keys (also on both sides: marker path).  Which suffixed copies merge produces is decided pair by pair (seeded C08-m3)
        kt = rng.choice(["int", "str"])
        shapes = ["crossed", "chained", "overlap", "mixed", "mixed2", "random", "random"]
        _KEYSHAPE_TURN[0] += 1                          # every shape in turn, so that each run has all of them
        shape = shapes[_KEYSHAPE_TURN[0] % len(shapes)]
        pool = ["a", "b", "c"]
        if shape == "crossed":
            pairs, lneed, rneed = [("a", "b"), ("b", "a")], ["a", "b"], ["a", "b"]
        elif shape == "chained":
            pairs, lneed, rneed = [("a", "b"), ("b", "c")], ["a", "b"], ["b", "c"]
        elif shape == "overlap":
            pairs, lneed, rneed = [("a", "b")], ["a", "b"], ["a", "b"]
        elif shape == "mixed":
            pairs, lneed, rneed = [("a", "a"), ("b", "c")], ["a", "b", "c"], ["a", "c", "b"]
        elif shape == "mixed2":
            pairs, lneed, rneed = [("b", "c"), ("a", "a")], ["a", "b"], ["a", "c"]
        else:
            n = rng.choice([1, 2, 2, 3])
            la, ra = rng.sample(pool, n), rng.sample(pool, n)
            pairs, lneed, rneed = list(zip(la, ra)), list(la), list(ra)
        lcols = lneed + [c for c in pool if c not in lneed and rng.random() < 0.6]
        rcols = rneed + [c for c in pool if c not in rneed and rng.random() < 0.6]
        shared = [("s", rng.choice(["int", "float", "str"]))] if rng.random() < 0.4 else []
        lspec = [(c, kt) for c in lcols] + shared + [("x", "float")]
        rspec = [(c, kt) for c in rcols] + shared + [("y", "float")]
        rng.shuffle(lspec); rng.shuffle(rspec)
        d1 = mk_table(rng, "d1", lspec, rng.choice([1, 2, 3, 4]), rng.choice([0.0, 0.2, 0.4]), uid="lid")
        d2 = mk_table(rng, "d2", rspec, rng.choice([1, 2, 3, 4]), rng.choice([0.0, 0.2, 0.4]), uid="rid")
        if rng.random() < 0.5:                        # make matches likely: copy key tuples of the left into the right
            ln, rn = [c for c, _ in d1["spec"]], [c for c, _ in d2["spec"]]
            for r in d2["rows"]:
                if rng.random() < 0.6:
                    src = rng.choice(d1["rows"])
                    for a, b in pairs:
                        r[rn.index(b)] = src[ln.index(a)]
        if rng.random() < 0.3:
            for d, ks in ((d1, [a for a, _ in pairs]), (d2, [b for _, b in pairs])):
                names = [c for c, _ in d["spec"]]
                rng.choice(d["rows"])[names.index(rng.choice(ks))] = None
        jt = rng.choice(["INNER", "LEFT", "RIGHT", "FULL"])
        s = {"op": "natural_join", "src": T("d1"), "b": T("d2"), "on": [[a, b] for a, b in pairs], "jointype": jt}
        return s, [d1, d2], {"kind": "join", "lk": [a for a, _ in pairs], "rk": [b for _, b in pairs],
                             "shared": sorted((set(lcols) & set(rcols)) | {c for c, _ in shared}), "jointype": jt, "keyshape": shape}
    if kind == "join_overlap":
        # a left key name that is also a non-key column of the right table (the former finding C16-pandas-overlap-leftover-column,
        # fixed by /repo 756a9c2): the suffixed copy must be folded back like every other shared column
        d1 = mk_table(rng, "d1", [("p", "int"), ("a", "float")], rng.choice([0, 1, 2, 3]), rng.choice([0.0, 0.3]), uid="lid")
        d2 = mk_table(rng, "d2", [("q", "int"), ("p", "int"), ("b", "float")], rng.choice([0, 1, 2, 3]), rng.choice([0.0, 0.3]), uid="rid")
        jt = rng.choice(["INNER", "LEFT", "RIGHT", "FULL"])
        s = {"op": "natural_join", "src": T("d1"), "b": T("d2"), "on": [["p", "q"]], "jointype": jt}
        return s, [d1, d2], {"kind": "join", "lk": ["p"], "rk": ["q"], "shared": ["p"], "jointype": jt, "overlap": True}
    if kind == "project":
        # null-heavy keys, empty inputs, no ops, constants, ungrouped
        spec = [("g", rng.choice(["int", "str"])), ("h", rng.choice(["int", "str"])), ("x", "float"), ("y", "int")]
        d1 = mk_table(rng, "d1", spec, rng.choice([0, 0, 1, 2, 3, 5, 6]), rng.choice([0.0, 0.3, 0.6]), uid="uid")
        if rng.random() < 0.25:                       # every key of one column null
            j = rng.choice([0, 1])
            for r in d1["rows"]:
                r[j] = None
        gb = rng.sample(["g", "h"], rng.choice([0, 1, 1, 2, 2]))
        ops = {}
        for i in range(rng.choice([0, 1, 2, 3]) if gb else rng.choice([1, 2])):
            fn = rng.choice(pipes.AGGS)
            arg = rng.choice(["x", "y", "x", "1", "2.5"])
            ops["o%d" % i] = "_size()" if fn == "size" else ("(%s).%s()" % (arg, fn))
        s = {"op": "project", "src": T("d1"), "ops": ops, "group_by": gb}
        return s, [d1], {"kind": "project", "group_by": gb}
    if kind == "wextend":
        spec = [("g", rng.choice(["int", "str"])), ("h", "int"), ("x", "float"), ("y", "int")]
        d1 = mk_table(rng, "d1", spec, rng.choice([0, 1, 2, 3, 4, 6, 8]), rng.choice([0.0, 0.2, 0.4]), uid="uid")
        part = rng.sample(["g", "h"], rng.choice([0, 1, 1, 2]))
        ordered = rng.random() < 0.6
        ob, rev = [], []
        if ordered:
            ob = rng.sample([c for c in ["g", "h", "y"] if c not in part], rng.choice([0, 1])) + ["uid"]
            rng.shuffle(ob)
            if ob[-1] != "uid" and rng.random() < 0.5:
                ob = ob[:ob.index("uid") + 1]
            rev = [c for c in ob if rng.random() < 0.35]
        ops = {}
        for i in range(rng.choice([1, 2, 3])):
            k = rng.choice(["w%d" % i, "w%d" % i, "x"]) if i == 0 else "w%d" % i        # sometimes overwrite the value column itself
            if ordered:
                fn = rng.choice(["cumsum", "cummax", "cummin", "shift", "_row_number", "_count", "cumprod", "cumcount", "rank", "first", "last", "ffill", "bfill"])
            else:
                fn = rng.choice(["sum", "mean", "min", "max", "count", "size", "_size", "median", "nunique", "rank"])
            arg = rng.choice(["x", "y", "x", "1", "2"]) if fn not in ("rank", "ffill", "bfill", "cumcount") else rng.choice(["x", "y"])
            if fn in ("_row_number", "_count", "_size"):
                ops[k] = fn + "()"
            elif fn == "shift":
                ops[k] = "%s.shift(%s)" % (rng.choice(["x", "y"]), rng.choice(["", "1", "2", "-1"]))
            else:
                ops[k] = "(%s).%s()" % (arg, fn)
        s = {"op": "extend", "src": T("d1"), "ops": ops, "partition_by": part, "order_by": ob, "reverse": rev}
        if not part and not ob:
            s["partition_by"] = 1
        return s, [d1], {"kind": "wextend", "part": part, "order_by": ob, "reverse": rev}
    if kind == "extend":
        # few-columns frames: both branches of add_data_frame_columns_to_data_frame_ (2 * new > old), overwriting, constants, empty input
        ncol = rng.choice([1, 2, 3, 5])
        spec = [(c, rng.choice(["int", "float"])) for c in ["a", "b", "c", "d", "e"][:ncol]]
        d1 = mk_table(rng, "d1", spec, rng.choice([0, 1, 2, 3]), 0.2)
        ops = {}
        colty = dict(spec)
        for i in range(rng.choice([1, 2, 3, 4])):
            k = rng.choice([c for c, _ in spec] + ["n%d" % i, "n%d" % i])
            e = pipes.gen_num_expr(rng, colty, 1) if rng.random() < 0.8 else str(rng.choice([1, 2, 0.5]))
            import re
            toks = set(re.findall(r"[A-Za-z_][A-Za-z_0-9]*", e))
            if any(k2 in toks for k2 in ops) or any(k in set(re.findall(r"[A-Za-z_][A-Za-z_0-9]*", e2)) for e2 in ops.values()):
                continue
            ops[k] = e
        if not ops:
            ops = {"n": "1"}
        return {"op": "extend", "src": T("d1"), "ops": ops}, [d1], {"kind": "extend"}
    if kind == "concat":
        spec = [("a", "int"), ("b", "str"), ("c", "float")]
        d1 = mk_table(rng, "d1", spec, rng.choice([0, 0, 1, 2, 3]), 0.2)
        spec2 = list(spec); rng.shuffle(spec2)
        d2 = mk_table(rng, "d2", spec2, rng.choice([0, 0, 1, 2, 3]), 0.2)
        s = {"op": "concat_rows", "src": T("d1"), "b": T("d2"), "id_column": rng.choice([None, "src"]), "a_name": "L", "b_name": "R"}
        return s, [d1, d2], {"kind": "concat"}
    if kind == "order":
        spec = [("a", "int"), ("b", "str"), ("c", "float")]
        d1 = mk_table(rng, "d1", spec, rng.choice([0, 1, 2, 4, 6, 9]), 0.25, uid="uid")
        cs = rng.sample(["a", "b", "c"], rng.choice([0, 1, 2])) + ["uid"]
        s = {"op": "order_rows", "src": T("d1"), "columns": cs, "reverse": [c for c in cs if rng.random() < 0.4], "limit": rng.choice([None, 0, 1, 2, 3, 20])}
        return s, [d1], {"kind": "order"}
    raise ValueError(kind)


TARGETS = ["join", "project", "wextend", "extend", "concat", "order"]


class TCase(X.Case):
    pass


def build_case(script, tabs):
    ops = pipes.build(script, {t["name"]: t for t in tabs})
    return X.Case(script, tabs, ops)


# ------------------------------------------------------------------------------------------------ oracles (real code only)

def ncell(v):
    return pipes.norm_cell(v)


def o_columns(case, res):
    """no scratch column survives: the result has exactly the declared columns"""
    if set(res.columns) != set(case.ops.column_names) or len(res.columns) != len(case.ops.column_names):
        return f"result columns {list(res.columns)} are not the declared columns {list(case.ops.column_names)}"
    return None


SCRATCH_USER_NAMES = ["_data_algebra_temp_g", "_data_algebra_orig_index", "data_algebra_extend_temp_col_0", "_data_table_temp_col",
                      "data_algebra_project_temp_col_0", "data_algebra_temp_merge_col", "data_algebra_temp_null_key_col"]
# the scratch names each step kind uses, tried one by one on the targeted shapes of that kind
SCRATCH_BY_KIND = {"wextend": ["_data_algebra_temp_g", "_data_algebra_orig_index", "data_algebra_extend_temp_col_0"],
                   "project": ["_data_table_temp_col", "data_algebra_project_temp_col_0"],
                   "join": ["data_algebra_temp_merge_col", "data_algebra_temp_null_key_col"]}


def rename_script(s, old, new, memo=None):
    memo = {} if memo is None else memo
    if id(s) in memo:
        return memo[id(s)]
    import re

    def rn(x):
        return new if x == old else x

    def rtext(e):
        parts = re.split(r"('[^']*')", e)                 # string literals are not column names
        return "".join(p if p.startswith("'") else re.sub(r"(?<![A-Za-z_0-9.])%s(?![A-Za-z_0-9(])" % re.escape(old), new, p) for p in parts)
    r = {}
    for k, v in s.items():
        if k in ("src", "b"):
            r[k] = rename_script(v, old, new, memo)
        elif k == "ops":
            r[k] = {rn(a): rtext(b) for a, b in v.items()}
        elif k == "expr":
            r[k] = rtext(v)
        elif k in ("columns", "reverse", "order_by", "group_by"):
            r[k] = [rn(c) for c in v]
        elif k == "partition_by":
            r[k] = v if v == 1 else [rn(c) for c in v]
        elif k == "map":
            r[k] = {rn(a): rn(b) for a, b in v.items()}
        elif k == "on":
            r[k] = [[rn(a), rn(b)] if isinstance(c, (list, tuple)) else rn(c) for c in v for a, b in [c if isinstance(c, (list, tuple)) else (c, c)]]
        elif k == "id_column":
            r[k] = rn(v) if v else v
        else:
            r[k] = v
    memo[id(s)] = r
    return r


def capture_try(case, res, old, new):
    """rename the user column `old` to the scratch name `new` everywhere, evaluate, rename back: the result must not change"""
    allcols = sorted({c for t in case.tabs if t["name"] in case.frames for c, _ in t["spec"]})
    if new in allcols or old not in allcols:
        return None
    try:
        s2 = rename_script(case.script, old, new)
        tabs2 = [dict(t, spec=[(new if c == old else c, ty) for c, ty in t["spec"]]) for t in case.tabs]
        c2 = build_case(s2, tabs2)
    except Exception:
        return None
    r2, err, _ = eval_real(c2.ops, c2.frames)
    if r2 is None:
        return f"renaming column {old!r} to the scratch name {new!r} makes the executor raise ({err})"
    back = r2.rename(columns={new: old})
    if set(back.columns) != set(res.columns):
        return f"renaming column {old!r} to the scratch name {new!r} changes the result columns: {list(back.columns)} vs {list(res.columns)}"
    why = pipes.frames_equiv(res, back[list(res.columns)], check_col_order=True, check_row_order=not single_key_ties(case.ops, case.frames) and not has_inner_merge(case.script))
    return None if why is None else f"renaming column {old!r} to the scratch name {new!r} changes the result: {why}"


def o_no_capture(case, res, rng, kind="random"):
    """random pipelines: one random (column, scratch name) pair; targeted shapes: every scratch name of that step kind on the columns
    the step reads (a hard-wired scratch name shows only when the captured column takes part in the step)"""
    allcols = sorted({c for t in case.tabs if t["name"] in case.frames for c, _ in t["spec"]})
    if not allcols:
        return None
    if kind in SCRATCH_BY_KIND:
        import re
        text = json.dumps(case.script)
        used = [c for c in allcols if re.search(r"(?<![A-Za-z_0-9])%s(?![A-Za-z_0-9])" % re.escape(c), text) and c not in ("uid", "lid", "rid")]
        rng.shuffle(used)
        for new in SCRATCH_BY_KIND[kind]:
            for old in used[:2]:
                w = capture_try(case, res, old, new)
                if w:
                    return w
        return None
    old = rng.choice(allcols)
    new = rng.choice(list(SCRATCH_USER_NAMES) + [c + "_tmp_right_col" for c in allcols if c != old])
    return capture_try(case, res, old, new)


def keys_match(a, b, lk, rk):
    """the SQL join condition: equal keys, and a null key matches nothing"""
    ka, kb = [ncell(a[c]) for c in lk], [ncell(b[c]) for c in rk]
    return ka == kb and all(v is not None for v in ka)


def o_join(case, res, info):
    """every result row, identified through lid / rid, carries COALESCE(left, right) in each shared non-key column, the left row's
    own cells elsewhere, and the pair satisfies the join condition (equal keys; a null key matches nothing: /repo af27aca adds a
    null-key marker column to the merge keys so that pandas' "NaN matches NaN" cannot pair two null keys)"""
    L, R = case.frames["d1"], case.frames["d2"]
    lrow = {ncell(r["lid"]): r for _, r in L.iterrows()}
    rrow = {ncell(r["rid"]): r for _, r in R.iterrows()}
    lk, rk, shared, jt = info["lk"], info["rk"], info["shared"], info["jointype"]
    seen = []
    for _, r in res.iterrows():
        li, ri = ncell(r["lid"]), ncell(r["rid"])
        a = lrow.get(li) if li is not None else None
        b = rrow.get(ri) if ri is not None else None
        if (li is not None and a is None) or (ri is not None and b is None) or (a is None and b is None):
            return f"result row with lid={li} rid={ri} corresponds to no pair of input rows"
        seen.append((li, ri))
        if a is not None and b is not None and not keys_match(a, b, lk, rk):
            return f"joined rows lid={li} rid={ri} do not agree on the keys (a null key matches nothing)"
        for c in res.columns:
            if c in ("lid", "rid"):
                continue
            va = ncell(a[c]) if (a is not None and c in L.columns) else None
            vb = ncell(b[c]) if (b is not None and c in R.columns) else None
            want = va if va is not None else vb
            if not pipes.cells_close(ncell(r[c]), want):
                return f"row lid={li} rid={ri}: column {c!r} is {ncell(r[c])!r}, COALESCE(left, right) is {want!r} (left {va!r}, right {vb!r})"
    want_pairs = []
    for li, a in lrow.items():
        ms = [ri for ri, b in rrow.items() if keys_match(a, b, lk, rk)]
        want_pairs += [(li, ri) for ri in ms]
        if not ms and jt in ("LEFT", "FULL"):
            want_pairs.append((li, None))
    if jt in ("RIGHT", "FULL"):
        for ri, b in rrow.items():
            if not any(keys_match(a, b, lk, rk) for a in lrow.values()):
                want_pairs.append((None, ri))
    key = lambda p: tuple((0, 0) if x is None else (1, x) for x in p)
    if sorted(seen, key=key) != sorted(want_pairs, key=key):
        return f"{jt} join returned the row pairs {sorted(seen, key=key)}, expected {sorted(want_pairs, key=key)}"
    return None


def ref_win(fn, extra, vs):
    """pure-Python window function over an ORDERED partition (None = null)"""
    nn = [v for v in vs if v is not None]
    n = len(vs)
    if fn in ("_row_number", "_count"):
        return [float(i + 1) for i in range(n)]
    if fn == "cumcount":
        return [float(i) for i in range(n)]
    if fn in ("size", "_size"):
        return [float(n)] * n
    if fn == "count":
        return [float(len(nn))] * n
    if fn == "sum":
        return [float(sum(nn))] * n
    if fn == "mean":
        return [sum(nn) / len(nn) if nn else None] * n
    if fn == "min":
        return [min(nn) if nn else None] * n
    if fn == "max":
        return [max(nn) if nn else None] * n
    if fn == "nunique":
        return [float(len(set(nn)))] * n
    if fn == "median":
        s = sorted(nn)
        m = None if not s else (s[len(s) // 2] if len(s) % 2 else (s[len(s) // 2 - 1] + s[len(s) // 2]) / 2)
        return [m] * n
    if fn in ("cumsum", "cummax", "cummin", "cumprod"):
        out, acc = [], None
        for v in vs:
            if v is None:
                out.append(None); continue
            acc = v if acc is None else {"cumsum": acc + v, "cummax": max(acc, v), "cummin": min(acc, v), "cumprod": acc * v}[fn]
            out.append(acc)
        return out
    if fn == "shift":
        k = int(extra[0]) if extra else 1
        return [vs[i - k] if 0 <= i - k < n else None for i in range(n)]
    if fn == "rank":
        return [None if v is None else len([x for x in nn if x < v]) + (len([x for x in nn if x == v]) + 1) / 2 for v in vs]
    if fn == "first":
        return [nn[0] if nn else None] * n
    if fn == "last":
        return [nn[-1] if nn else None] * n
    if fn == "ffill":
        out, acc = [], None
        for v in vs:
            acc = acc if v is None else v
            out.append(acc)
        return out
    if fn == "bfill":
        return list(reversed(ref_win("ffill", [], list(reversed(vs)))))
    return None


def o_window(case, res, info):
    """rows matched through uid: the other cells are untouched; each new cell is the window function over the row's partition taken
    in the declared order (the generator makes the order total: uid is among the order columns)"""
    src = case.frames["d1"]
    if len(res) != len(src):
        return f"windowed extend returned {len(res)} rows for {len(src)} input rows"
    if "uid" not in res.columns:
        return None
    ops = case.script["ops"]
    by_uid = {ncell(r["uid"]): r for _, r in res.iterrows()}
    if list(map(ncell, res["uid"])) != list(map(ncell, src["uid"])):
        return "windowed extend changed the order of the rows"
    part, ob, rev = info["part"], info["order_by"], info["reverse"]
    rows = [r for _, r in src.iterrows()]
    import re
    for r in rows:
        out = by_uid[ncell(r["uid"])]
        for c in src.columns:
            if c not in ops and not pipes.cells_close(ncell(out[c]), ncell(r[c])):
                return f"row uid={ncell(r['uid'])}: column {c!r} changed from {ncell(r[c])!r} to {ncell(out[c])!r}"
    groups = {}
    for r in rows:
        groups.setdefault(tuple(ncell(r[c]) for c in part), []).append(r)

    def okey(r):
        k = []
        for c in ob:
            v = ncell(r[c])
            k.append((1, 0) if v is None else (0, -v if c in rev else v))
        return tuple(k)
    for g in groups.values():
        if ob and any(isinstance(ncell(r[c]), str) for r in g for c in ob):
            return None
        g = sorted(g, key=okey) if ob else g
        for k, e in ops.items():
            if e in ("_row_number()", "_count()", "_size()"):
                arg, fn, ex = "", e[:-2], ""
            else:
                m = re.match(r"^\(?([A-Za-z_0-9.]+)\)?\.([a-z_]+)\((-?\d*)\)$", e)
                if not m:
                    continue
                arg, fn, ex = m.group(1), m.group(2), m.group(3)
            if arg == "":
                vs = [1.0] * len(g)
            elif arg in src.columns:
                vs = [ncell(r[arg]) for r in g]
            else:
                vs = [float(arg)] * len(g)
            if any(isinstance(v, str) for v in vs):
                continue
            want = ref_win(fn, [ex] if ex else [], vs)
            if want is None:
                continue
            if not ob and fn not in ("sum", "mean", "min", "max", "count", "size", "_size", "median", "nunique", "rank"):
                continue
            for r, wv in zip(g, want):
                got = ncell(by_uid[ncell(r["uid"])][k])
                if not pipes.cells_close(got, None if wv is None else float(wv)):
                    return f"row uid={ncell(r['uid'])}: {k} = {e} is {got!r}, the window function over its ordered partition gives {wv!r}"
    return None


def o_order(case, res, info):
    """order_rows(+limit) = prefix of the reference sort of the input (uid makes the order total; nulls last in both directions)"""
    src = case.frames["d1"]
    cs, rev, lim = case.script["columns"], case.script["reverse"], case.script["limit"]
    rows = [r for _, r in src.iterrows()]

    def cmp_rows(a, b):
        for c in cs:
            x, y = ncell(a[c]), ncell(b[c])
            if x == y:
                continue
            if x is None:
                return 1
            if y is None:
                return -1
            lt = x < y
            if c in rev:
                lt = not lt
            return -1 if lt else 1
        return 0
    import functools
    want = sorted(rows, key=functools.cmp_to_key(cmp_rows))
    if lim is not None:
        want = want[:lim]
    got = [ncell(v) for v in res["uid"]]
    exp = [ncell(r["uid"]) for r in want]
    if got != exp:
        return f"order_rows({cs}, reverse={rev}, limit={lim}) returned the rows uid={got}, the sorted input" + (f" cut to {lim}" if lim is not None else "") + f" is uid={exp}"
    return None


def o_project(case, res, info):
    src = case.frames["d1"]
    gb = info["group_by"]
    want = 1 if not gb else len({tuple(ncell(v) for v in r) for r in src[gb].to_numpy(dtype=object)})
    if len(res) != want:
        return f"project returned {len(res)} rows, its input has {want} distinct key combination(s)"
    return None


def run_oracles(chk, case, res, err, expr_raise, info, rng):
    """impl_violation for every oracle that fails on this case; returns the list of reasons"""
    whys = []
    kind = (info or {}).get("kind", "random")
    if res is None:
        if not expr_raise and dtype_raise_text(err) is None:
            whys.append(("raises", f"the Pandas executor raises on a pipeline the builder accepted: {err}"))
    else:
        w = o_columns(case, res)
        if w:
            whys.append(("columns", w))
        else:
            if kind in SCRATCH_BY_KIND or rng.random() < 0.5:
                w = o_no_capture(case, res, rng, kind)
                if w:
                    whys.append(("capture", w))
            if kind == "join":
                w = o_join(case, res, info)
                if w:
                    whys.append(("join", w))
            if kind == "wextend":
                w = o_window(case, res, info)
                if w:
                    whys.append(("window", w))
            if kind == "order":
                w = o_order(case, res, info)
                if w:
                    whys.append(("order", w))
            if kind == "project":
                w = o_project(case, res, info)
                if w:
                    whys.append(("project_rows", w))
    return whys


def sig_of(case, cause, err, info):
    kind = (info or {}).get("kind", "random")
    sig = {"cause": cause, "kind": kind}
    if cause == "raises":
        sig["error"] = (err or "").split(":")[0]
        sig["max_of_empty"] = "max() iterable argument is empty" in (err or "")
        sig["root"] = case.script["op"]
        sig["all_missing_type_guess"] = dtype_raise(case.ops, case.frames, err) == "type_guess"
    if (info or {}).get("overlap"):
        sig["keyspec"] = "overlap"
    return sig


def shrink_rows(case, info, fails):
    """fewer rows per table while `fails(case)` holds"""
    best = case
    for t in list(best.tabs):
        if t["name"] not in best.frames:
            continue

        def f(rows, t=t):
            tabs2 = [dict(x, rows=rows) if x["name"] == t["name"] else x for x in best.tabs]
            try:
                return bool(fails(build_case(best.script, tabs2)))
            except Exception:
                return False
        rows = lib.shrink_list(t["rows"], f, max_steps=40)
        if len(rows) < len(t["rows"]):
            best = build_case(best.script, [dict(x, rows=rows) if x["name"] == t["name"] else x for x in best.tabs])
    return best


# ------------------------------------------------------------------------------------------------ primitive cases

def rframe(rng, names=("a", "b", "c", "d"), nrows=None, null_rate=0.25, types=("int", "float", "str")):
    ncol = rng.randint(1, len(names))
    spec = [(n, rng.choice(types)) for n in names[:ncol]]
    t = mk_table(rng, "p", spec, rng.choice([0, 1, 2, 3, 4, 6]) if nrows is None else nrows, null_rate)
    return pipes.table_frame(t), spec


def cv(v):
    return semconv.cval(v.item() if isinstance(v, np.generic) else v)


def cvals(xs):
    return clist([cv(x) for x in xs])


def ptable(df):
    """semconv.ctable, except that a frame without columns keeps its rows (as empty rows)"""
    if len(df.columns) == 0:
        return "(mktable [] %s)" % clist(["[]"] * len(df))
    return semconv.ctable(df)


def otab(f):
    """f() -> '(Some table)' | 'None' when pandas raises"""
    try:
        r = f()
    except Exception:
        return "None"
    return "(Some %s)" % ptable(r)


def prim_cases(rng, n):
    out = []          # (kind, term)
    T = ptable
    for _ in range(n):
        df, spec = rframe(rng)
        cols = [c for c, _ in spec]
        # df[c] = scalar
        c = rng.choice(cols + ["new"]); v = rng.choice([1, 2.5, "z"])
        d = df.copy(); d[c] = v
        out.append(("set_scalar", "PSetScalar %s %s %s %s" % (cstr(c), cv(v), T(df), T(d))))
        # df[c] = values
        k = len(df) if (rng.random() < 0.8 or len(df) == 0) else len(df) + 1      # (a frame without rows GROWS when given a longer list: never done by the executor, not modelled)
        vals = [pipes.gen_value(rng, "float", 0.3) for _ in range(k)]
        c = rng.choice(cols + ["new"])

        def f(df=df, c=c, vals=vals):
            d = df.copy(); d[c] = pd.Series([np.nan if x is None else x for x in vals], dtype="float64").to_numpy() if len(vals) == len(df) else vals
            return d
        out.append(("set_col", "PSetCol %s %s %s %s" % (cstr(c), cvals(vals), T(df), otab(f))))
        # df[cs] / df.loc[:, cs]
        cs = rng.sample(cols, rng.randint(0, len(cols)))
        if rng.random() < 0.15:
            cs = cs + ["zz"]
        out.append(("select", "PSelect %s %s %s" % (semconv.sl(cs), T(df), otab(lambda df=df, cs=cs: df.loc[:, cs] if rng.random() < 0.5 else df[cs]))))
        # del df[c] / drop
        c = rng.choice(cols + ["zz"])

        def f(df=df, c=c):
            d = df.copy()
            if rng.random() < 0.5:
                del d[c]
                return d
            return d.drop(c, axis=1, inplace=False)
        out.append(("del", "PDel %s %s %s" % (cstr(c), T(df), otab(f))))
        # rename
        m = {c: c + "_n" for c in rng.sample(cols, rng.randint(0, len(cols)))}
        if rng.random() < 0.3:
            m["zz"] = "yy"
        out.append(("rename", "PRename %s %s %s" % (clist(["(%s, %s)" % (cstr(a), cstr(b)) for a, b in m.items()]), T(df), T(df.rename(columns=m)))))
        # mask
        mask = [rng.random() < 0.5 for _ in range(len(df))]
        out.append(("mask", "PMask %s %s %s" % (clist(["(VBool %s)" % cbool(b) for b in mask]), T(df), otab(lambda df=df, mask=mask: df.loc[np.array(mask, dtype=bool), :]))))
        # head
        k = rng.choice([0, 1, 2, 5])
        if k <= len(df):
            out.append(("head", "PHead %d %s %s" % (k, T(df), T(df.iloc[range(k), :]))))
        # sort_values
        keys = rng.sample(cols, rng.randint(1, min(3, len(cols))))
        asc = [rng.random() < 0.6 for _ in keys]
        ok = True
        if len(keys) == 1:
            vs = [ncell(x) for x in df[keys[0]]]
            vs = [x for x in vs if x is not None]
            ok = len(set(vs)) == len(vs)            # a single-key sort of tied values is not stable: not compared
        if ok:
            out.append(("sort", "PSort %s %s %s" % (clist(["(%s, %s)" % (cstr(k), cbool(a)) for k, a in zip(keys, asc)]), T(df),
                                                     otab(lambda df=df, keys=keys, asc=asc: df.sort_values(by=keys, ascending=asc)))))
        # concat rows: overlapping columns of equal types
        spec2 = [x for x in spec if rng.random() < 0.8] + ([("e", "int")] if rng.random() < 0.3 else [])
        rng.shuffle(spec2)
        if spec2:
            df2 = pipes.table_frame(mk_table(rng, "q", spec2, rng.choice([0, 1, 2, 3]), 0.2))
            if len(df) and len(df2):
                out.append(("concat_rows", "PConcatRows %s %s %s" % (T(df), T(df2), T(pd.concat([df, df2], axis=0, ignore_index=True, sort=False)))))
        # concat cols
        df3 = pipes.table_frame(mk_table(rng, "q", [("u", "int"), ("v", "str")][:rng.randint(1, 2)], len(df), 0.2))
        out.append(("concat_cols", "PConcatCols %s %s %s" % (T(df), T(df3), otab(lambda df=df, df3=df3: pd.concat([df, df3], axis=1)))))
        # isnull / loc set
        c = rng.choice(cols)
        out.append(("isnull", "PIsnull %s %s (Some %s)" % (cstr(c), T(df), clist([cbool(bool(b)) for b in df[c].isnull()]))))
        cs2 = rng.sample(cols, rng.randint(1, len(cols))) + (["zz"] if rng.random() < 0.1 else [])
        try:
            ia = "(Some %s)" % clist([cbool(bool(b)) for b in df[cs2].isnull().any(axis=1).to_numpy()])
        except Exception:
            ia = "None"
        out.append(("isnull_any", "PIsnullAny %s %s %s" % (semconv.sl(cs2), T(df), ia)))
        same = [x for x, ty in spec if ty == dict(spec)[c] and x != c]
        if same:
            c2 = rng.choice(same)
            isn = df[c].isnull()
            d = df.copy()
            d.loc[isn, c] = d.loc[isn, c2]
            out.append(("loc_set", "PLocSetFrom %s %s %s %s (Some %s)" % (clist([cbool(bool(b)) for b in isn]), cstr(c), cstr(c2), T(df), T(d))))
        # merge
        kt = rng.choice(["int", "str"])
        nk = rng.choice([1, 1, 2])
        same_names = rng.random() < 0.6
        lk = ["k%d" % i for i in range(nk)]
        rk = lk if same_names else ["j%d" % i for i in range(nk)]
        sh = [("s", rng.choice(["int", "float", "str"]))] if rng.random() < 0.5 else []
        ls = [(c, kt) for c in lk] + sh + [("a", "float")]
        rs = [(c, kt) for c in rk] + sh + [("b", "float")]
        if not same_names and rng.random() < 0.3:
            ls = ls + [(rk[0], kt)]                       # the right key's name is also a left non-key column
        rng.shuffle(ls); rng.shuffle(rs)
        L = pipes.table_frame(mk_table(rng, "l", ls, rng.choice([0, 1, 2, 3, 4, 5]), rng.choice([0.0, 0.3])))
        R = pipes.table_frame(mk_table(rng, "r", rs, rng.choice([0, 1, 2, 3, 4, 5]), rng.choice([0.0, 0.3])))
        how = rng.choice(["inner", "left", "right", "outer"])
        if len(L) or len(R):
            out.append(("merge", "PMerge %s %s %s %s %s %s %s" % ({"inner": "HInner", "left": "HLeft", "right": "HRight", "outer": "HOuter"}[how], T(L), T(R),
                                                                   semconv.sl(lk), semconv.sl(rk), cstr("_r"),
                                                                   otab(lambda L=L, R=R, how=how, lk=lk, rk=rk: pd.merge(left=L, right=R, how=how, left_on=lk, right_on=rk, sort=False, suffixes=("", "_r"))))))
        # groupby
        gdf, gspec = rframe(rng, names=("g", "h", "x", "y"), null_rate=rng.choice([0.1, 0.4]), types=("int", "float"))
        gcols = [c for c, _ in gspec]
        if len(gcols) >= 2:
            ks = rng.sample(gcols[:-1], rng.randint(1, min(2, len(gcols) - 1)))
            vc = gcols[-1]
            fn = rng.choice(["sum", "mean", "min", "max", "count", "size"])
            if len(gdf):
                out.append(("group_agg", "PGroupAgg %s %s %s %s %s" % (semconv.sl(ks), cstr(vc), cstr(fn), T(gdf),
                                                                       otab(lambda gdf=gdf, ks=ks, vc=vc, fn=fn: gdf.groupby(ks, observed=True, dropna=False)[vc].agg(fn).reset_index()))))
                for dropna in (True, False):
                    sz = list(gdf.groupby(ks, observed=True, dropna=dropna).size())
                    out.append(("group_sizes", "PGroupSizes %s %s %s %s" % (cbool(dropna), semconv.sl(ks), T(gdf), clist(["%d%%nat" % int(x) for x in sz]))))
                tf = rng.choice(["cumsum", "cummax", "cummin", "cumprod", "cumcount", "shift", "rank", "first", "last", "ffill", "bfill", "median", "nunique", "var",
                                 "sum", "mean", "min", "max", "count", "size"])
                extra = [rng.choice([1, 2, -1])] if tf == "shift" and rng.random() < 0.7 else []
                try:
                    tv = list(gdf.groupby(ks, observed=True, dropna=False)[vc].transform(tf, *extra))
                    out.append(("transform", "PTransform %s %s %s %s %s (Some %s)" % (semconv.sl(ks), cstr(vc), cstr(tf), cvals(extra), T(gdf), cvals(tv))))
                except Exception:
                    pass
                cc = list(gdf.groupby(ks, observed=True, dropna=False).cumcount())
                out.append(("cumcount", "PCumcount %s %s (Some %s)" % (semconv.sl(ks), T(gdf), cvals(cc))))
            vs = [pipes.gen_value(rng, "float", 0.3) for _ in range(rng.choice([0, 1, 3, 5]))]
            fn = rng.choice(["sum", "mean", "min", "max", "count", "size"])
            sv = pd.Series([np.nan if x is None else x for x in vs], dtype="float64").agg(fn)
            out.append(("series_agg", "PSeriesAgg %s %s (Some %s)" % (cstr(fn), cvals(vs), cv(sv))))
    return out



def run_multi(name, terms, checkers, per_file=25, timeout=1500):
    """like lib.run_case_files, but evaluates several checkers on the same case files: {checker: [failing global indices]}, errors, n"""
    import re, subprocess, time
    cdir = os.path.join(lib.COQ, "cases")
    os.makedirs(cdir, exist_ok=True)
    files = []
    for k in range(0, max(1, (len(terms) + per_file - 1) // per_file)):
        chunk = terms[k * per_file:(k + 1) * per_file]
        fn = os.path.join(cdir, f"{name}_p{os.getpid()}_{k}.v")
        with open(fn, "w") as f:
            f.write(PRE + "\nDefinition cases := [\n" + ";\n".join(chunk) + "\n].\n")
            for c in checkers:
                f.write(f"Eval vm_compute in ({c} cases).\n")
            f.write("Eval vm_compute in List.length cases.\n")
        files.append(fn)
    t0 = time.time()
    results = [None] * len(files)
    pending, running = list(range(len(files))), {}
    while pending or running:
        while pending and len(running) < lib.NPROC:
            i = pending.pop(0)
            running[i] = subprocess.Popen(["coqc", "-Q", "theories", "DA", "-Q", "cases", "DAcases", os.path.relpath(files[i], lib.COQ)],
                                          cwd=lib.COQ, stdout=subprocess.PIPE, stderr=subprocess.STDOUT, text=True, env=lib.ENV)
        for i, pr in list(running.items()):
            try:
                out, _ = pr.communicate(timeout=0.2)
                results[i] = (pr.returncode, out)
                del running[i]
            except subprocess.TimeoutExpired:
                if time.time() - t0 > timeout:
                    pr.kill()
                    results[i] = (124, "TIMEOUT")
                    del running[i]
    failing = {c: [] for c in checkers}
    errors, n = [], 0
    for k, (rc, out) in enumerate(results):
        out = "\n".join(l for l in out.splitlines() if "conda" not in l)
        if rc != 0:
            errors.append(f"{os.path.basename(files[k])}: rc={rc}\n{out[-2000:]}")
            continue
        flat = " ".join(out.split())
        lists = re.findall(r"= (\[[^\]]*\]|nil)\s*: list nat", flat)
        m2 = re.search(r"= (\d+)(?:%nat)?\s*: nat", flat)
        if len(lists) != len(checkers) or not m2:
            errors.append(f"{os.path.basename(files[k])}: unparsable output\n{out[-2000:]}")
            continue
        n += int(m2.group(1))
        for c, l in zip(checkers, lists):
            failing[c] += [k * per_file + int(i) for i in re.findall(r"\d+", l)]
    for fn in files:
        for ext in (".v", ".vo", ".vok", ".vos", ".glob"):
            try:
                os.remove(fn[:-2] + ext)
            except OSError:
                pass
        try:
            os.remove(os.path.join(os.path.dirname(fn), "." + os.path.basename(fn)[:-2] + ".aux"))
        except OSError:
            pass
    return failing, errors, n


# ------------------------------------------------------------------------------------------------ run

def run(chk):
    rng = chk.rng
    chk.prove([], extra_vo=["theories/Model/PandasExecCases.vo"])
    chk.cov["trusted_base"] = [
        "Coq 8.16.1 kernel + vm_compute",
        "hand models of the pandas primitives, Model/PdPrim.v (column assignment / deletion / selection, mask, rename, sort_values as ANY sorted "
        "permutation, concat, merge incl. its column order, its row order (left / right / outer; the rows of an INNER merge in ANY order) and NaN-keys-match, groupby agg / transform / cumcount / size with dropna, isnull, isnull().any(axis=1), "
        ".loc assignment): modelled, not verified; each is run against real pandas on random frames on every run",
        "scalar expressions (act_on / impl_map) are NOT transcribed: Sem.eval_expr fl_pandas per row (tied by C01/C05's correspondences); "
        "window and aggregate FUNCTIONS are Sem.win_fn / agg_fn fl_pandas (tied by C27 and by the primitive cases here)",
        "row labels are not represented: every frame between steps has the default RangeIndex (C18: px_default_index)",
        "harness/props/PEXEC.py, harness/semconv.py (term conversion), harness/pipes.py, harness/execcorr.py"]
    chk.assumptions = ["dtype compatibility checks of join / concat pass (typed generation); a raise of pandas.merge's own key-dtype check (object vs float64: "
                       "an object-dtype string column holding only None after a groupby) is skipped and counted; a raise of data_algebra's check on an "
                       "all-missing column is the known finding PEXEC-all-missing-column-guessed-float",
                       "a raise inside scalar-expression evaluation (e.g. if_else(...).coalesce(k) on a numpy array) is outside the transcription and is skipped",
                       "single-key sorts with tied non-null keys are compared as multisets (numpy's default argsort is not stable)",
                       "an INNER pandas.merge lists its rows in an unspecified order (pandas 3 hash join; left-major in all but ~3% of small cases): the "
                       "theorems quantify over every arrangement; a pipeline with an INNER / CROSS join that disagrees row for row is compared as a "
                       "multiset, and is skipped when it also violates the theorems' premises (a later step may then depend on the row order)",
                       "set iteration order is not modelled: a project with >= 2 group columns is compared by column NAME"]
    chk.cov["rule"] = ("random pipelines (harness/pipes.py grammar, depth 1..4, 2 tables, nulls, duplicates, empty tables) + targeted shapes (joins with same / "
                       "different key names, crossed / chained / overlapping / mixed same-named + renamed key pairs over names both tables have, multi-column and empty `on`, CROSS, shared non-key columns, null keys on both sides (marker-column path), a left key that is a right non-key column, empty sides; projects with null-heavy keys, no ops, constants, "
                       "empty input; windowed extends over 0..2 partition columns with total orders and 13 functions incl. constant arguments and self-overwrite; "
                       "extends on narrow frames (both column-copy paths); concat with an empty side / id column; order_rows with limits) + per-primitive cases; "
                       "non-trivial = result has rows or the executor raised; distinct by script + tables")
    # ---- syntactic tie + quirks
    names, calls, quirks = extract_syntax()
    chk.cov["syntactic"] = {"scratch_bases": names, "frame_calls": calls, "quirks": quirks}
    failing, errors, nchk = lib.run_case_files("PEXEC_syntax", PRE, ["(%s, %s)" % (assoc(names), assoc(calls))], "check_syntax", per_file=5)
    if errors:
        chk.corr_break("syntactic tie case file failed to compile", errors[0])
    elif failing:
        chk.corr_break("the scratch-name base strings or the pandas calls of a _*_step in pandas_base.py differ from the transcription's tables "
                       "(Model/PandasExec.v scratch_bases / pandas_calls)", {"scratch_bases": names, "frame_calls": calls})
    # ---- cases: corpus, random pipelines, targeted shapes
    cases = []
    for f in sorted(glob.glob(os.path.join(lib.ROOT, "corpus", "PEXEC", "*.json"))):
        try:
            j = json.load(open(f))
            c = X.case_from_json(j["case"])
            cases.append((c, j.get("info") or {"kind": "random"}))
        except Exception:
            chk.dist("corpus_unreadable")
    n = N_PIPE[chk.tier]
    tries = 0
    while len([1 for _, i in cases if i.get("kind") == "random"]) < n and tries < n * 10:
        tries += 1
        c = X.gen_case(rng, depth=(1, 4) if chk.tier == "quick" else (1, 6), ntables=2, null_rate=rng.choice([0.1, 0.25]))
        if c is not None:
            cases.append((c, {"kind": "random"}))
    for kind in TARGETS + ["join_overlap", "join_keys"]:
        k = 0
        tries = 0
        want = {"join_overlap": max(6, N_TARGET[chk.tier] // 4), "join_keys": max(14, N_TARGET[chk.tier] // 2), "join": max(20, (2 * N_TARGET[chk.tier]) // 3)}.get(kind, N_TARGET[chk.tier])
        while k < want and tries < want * 10:
            tries += 1
            try:
                s, tabs, info = target_case(rng, kind)
                c = build_case(s, tabs)
            except Exception:
                continue
            cases.append((c, info)); k += 1
    terms, tindex = [], []
    n_viol = 0
    for ci, (c, info) in enumerate(cases):
        res, err, expr_raise = eval_real(c.ops, c.frames)
        kind = info.get("kind", "random")
        chk.count(c.key(), nontrivial=(res is None or len(res) > 0))
        chk.dist("case_" + kind)
        for o in set(pipes.script_ops(c.script)):
            chk.dist("op_" + o)
        chk.dist("raised" if res is None else "rows_%d" % min(len(res), 9))
        if kind == "join" and info.get("lk"):
            nullkey = lambda name, ks: any(any(r[[cn for cn, _ in t["spec"]].index(k)] is None for k in ks) for t in c.tabs if t["name"] == name for r in t["rows"])
            if nullkey("d1", info["lk"]) and nullkey("d2", info["rk"]):
                chk.dist("join_null_key_marker_path")
            if info.get("overlap"):
                chk.dist("join_left_key_is_right_non_key")
            if info.get("keyshape"):
                chk.dist("join_keyshape_" + info["keyshape"])
        if len(chk.cov["samples"]) < 4 and kind != "random":
            chk.sample({"case": c.json(), "info": info})
        # oracles on the real code
        for cause, why in run_oracles(chk, c, res, err, expr_raise, info, rng):
            def fails(cc, cause=cause, info=info):
                r2, e2, x2 = eval_real(cc.ops, cc.frames)
                return any(cz == cause for cz, _ in run_oracles(chk, cc, r2, e2, x2, info, lib.random.Random(7)))
            small = c
            if cause != "capture":
                try:
                    small = shrink_rows(c, info, fails)
                except Exception:
                    small = c
            r2, e2, _ = eval_real(small.ops, small.frames)
            rep = {"kind": "impl-violation", "case": small.json(), "info": info, "cause": cause, "why": why,
                   "observed": None if r2 is None else pipes.frame_to_json(r2), "error": e2}
            if chk.impl_violation(why, rep, sig_of(small, cause, e2 if r2 is None else err, info)):
                n_viol += 1
        # correspondence term
        if res is None and expr_raise:
            chk.dist("skipped_expression_raise")
            continue
        if res is None:
            dr = dtype_raise(c.ops, c.frames, err)
            if dr:                      # the transcription is untyped: dtype checks are outside it
                chk.dist("skipped_dtype_check_raise:" + dr)
                continue
        try:
            terms.append(pcase_term(c.ops, c.frames, res, quirks, c.script))
            tindex.append(ci)
        except semconv.Unsupported as u:
            chk.dist("unsupported:" + str(u).split()[0])
    multi, errors, nchk = run_multi("PEXEC_pipe", terms, ["check_pcases", "check_wf", "check_instances", "check_unguarded"])
    failing = multi["check_pcases"]
    # an INNER merge lists its rows in an unspecified order (Model/PdPrim.v): a disagreeing case that contains one is compared again
    # with the rows as a multiset; when its premises hold (PEXEC_refines_sem: true for EVERY arrangement) that comparison must succeed,
    # when they do not, a later step may depend on the row order (e.g. a window without a total order) and the case says nothing
    inner = [k for k in failing if has_inner_merge(cases[tindex[k]][0].script)]
    if inner and not errors:
        terms2 = []
        for k in inner:
            c, _ = cases[tindex[k]]
            r0, _, _ = eval_real(c.ops, c.frames)
            terms2.append(pcase_term(c.ops, c.frames, r0, quirks, c.script, rows_as_bag=True))
        multi2, errors2, _ = run_multi("PEXEC_pipe_bag", terms2, ["check_pcases"])
        errors += errors2
        still = {inner[j] for j in multi2["check_pcases"]}
        unguarded = set(multi["check_unguarded"])
        for k in inner:
            if k not in still:
                chk.dist("inner_merge_row_order_differs_from_left_major")
            elif k in unguarded:
                chk.dist("inner_merge_order_dependent_case_without_premises")
        failing = [k for k in failing if k not in inner or (k in still and k not in unguarded)]
    chk.cov["correspondence"] = {"pipeline_cases": len(terms), "checked_in_coq": nchk, "disagreements": len(failing), "errors": errors[:2],
                                 "premise_wf_op_b_false": len(multi["check_wf"]),
                                 "cases_satisfying_all_premises": nchk - len(multi["check_unguarded"]),
                                 "theorem_instances_failing": len(multi["check_instances"])}
    if errors:
        chk.corr_break("pipeline case files failed to compile", errors[0])
    for k in failing[:8]:
        c, info = cases[tindex[k]]
        res, err, _ = eval_real(c.ops, c.frames)
        chk.corr_break("the transcription of pandas_base.py (Model/PandasExec.v pexec) and the real Pandas executor return different frames",
                       {"case": c.json(), "info": info, "observed": None if res is None else pipes.frame_to_json(res), "error": err})
    for k in multi["check_wf"][:4]:
        c, info = cases[tindex[k]]
        if not has_const_window(c.script):
            chk.corr_break("a pipeline the real builder accepted violates wf_op_b, the well-formedness premise of the theorems (Model/PandasExec.v)",
                           {"case": c.json(), "info": info})
        else:
            chk.dist("wf_false_constant_window_argument")
    for k in multi["check_instances"][:4]:
        c, info = cases[tindex[k]]
        chk.corr_break("an instance of PEXEC_refines_sem_checked fails inside Coq (pexec vs sem_gen fl_pandas under the premises)", {"case": c.json(), "info": info})
    # ---- primitive cases
    prims = prim_cases(rng, N_PRIM[chk.tier])
    for kind, _ in prims:
        chk.dist("prim_" + kind)
    failing, errors, nchk2 = lib.run_case_files("PEXEC_prim", PRE, [t for _, t in prims], "check_prims", per_file=60, timeout=900)
    chk.cov["correspondence"].update({"primitive_cases": len(prims), "primitive_checked_in_coq": nchk2, "primitive_disagreements": len(failing),
                                      "primitive_errors": errors[:2]})
    chk.cov["traces_validated_against_impl"] = nchk + nchk2
    if errors:
        chk.corr_break("primitive case files failed to compile", errors[0])
    for k in failing[:6]:
        chk.corr_break(f"the hand model of a pandas primitive (Model/PdPrim.v, {prims[k][0]}) and pandas disagree", {"primitive": prims[k][0], "term": prims[k][1][:3000]})
    chk.cov["oracle"] = {"cases": len(cases), "violations": n_viol}


def replay(path):
    r = json.load(open(path))
    if "case" not in r or "cause" not in r:
        print(json.dumps(r, indent=1)[:3000]); return 1
    c = X.case_from_json(r["case"])
    info = r.get("info") or {"kind": "random"}
    res, err, xr = eval_real(c.ops, c.frames)

    class Dummy:
        pass
    import random
    for attempt in range(20):
        whys = run_oracles(None, c, res, err, xr, info, random.Random(attempt))
        hit = [w for cz, w in whys if cz == r["cause"]]
        if hit:
            print(hit[0]); return 1
    print("ok")
    return 0
