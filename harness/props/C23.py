"""C23 -- connected_components labels each edge by its component's least vertex.
proof: Props/C23.v about the hand model Model/ConnComp.v (store of aliased Component objects)
tie:   correspondence (same edge lists through the real function and the Gallina model, vm_compute)
oracle: BFS reference on the real function's output"""
import itertools, json, os
import lib
from lib import clist, cz

N = {"quick": 2500, "thorough": 60000}


def ref_labels(f, g):
    adj = {}
    for a, b in zip(f, g):
        adj.setdefault(a, set()).add(b); adj.setdefault(b, set()).add(a)
    for a in list(f) + list(g):
        adj.setdefault(a, set())
    lab = {}
    for v in adj:
        if v in lab:
            continue
        seen, stack = {v}, [v]
        while stack:
            x = stack.pop()
            for y in adj[x]:
                if y not in seen:
                    seen.add(y); stack.append(y)
        m = min(seen)
        for x in seen:
            lab[x] = m
    return [lab[k] for k in f]


def impl(f, g):
    from data_algebra.connected_components import connected_components
    return list(connected_components(f, g))


def gen(rng, big):
    kind = rng.random()
    nv = rng.choice([2, 3, 5, 8, 12] + ([30] if big else []))
    ne = rng.randint(0, 14 if not big else 40)
    if kind < 0.7:
        pool = list(range(-3, nv - 3))
    elif kind < 0.9:
        pool = [c * rng.randint(1, 2) for c in "abcdefghijklmnopqrstuvwxyzABCDEFGH"[:nv]]
    else:
        pool = [round(x * 0.5, 1) for x in range(nv)]
    f = [rng.choice(pool) for _ in range(ne)]
    g = [rng.choice(pool) if rng.random() > 0.1 else f[i] for i in range(ne)]
    return f, g


def encode(f, g):
    vals = sorted(set(f) | set(g))
    rank = {v: i for i, v in enumerate(vals)}
    return [rank[x] for x in f], [rank[x] for x in g], rank


def run(chk):
    rng = chk.rng
    n = N[chk.tier]
    chk.prove([], extra_vo=["theories/Model/ConnCompCases.vo"])
    chk.cov["trusted_base"] = ["Coq 8.16.1 kernel + vm_compute", "hand model Model/ConnComp.v of connected_components.py (Component objects as a store of (id, items) cells addressed by nat; dict/set as duplicate-free lists)",
                               "correspondence harness harness/props/C23.py (vertices are order-isomorphically encoded as integers before they reach Coq)",
                               "use from pipelines (pandas_base impl_map 'connected_components'/'co_equalizer') is covered by the oracle only"]
    chk.assumptions = ["vertex values are hashable and totally ordered (theorem hypothesis total_order leb)", "f and g have the same length (theorem hypothesis; zip truncates otherwise)"]
    chk.cov["rule"] = ("random edge lists (0..14 edges quick / 0..40 thorough over 2..30 vertices: ints, strings, floats; self-loops 10%; repeated edges) "
                       "plus, in the thorough tier, ALL edge lists with <=4 edges over <=4 vertices; non-trivial = at least 2 edges; distinct by content")
    cases = []
    for _ in range(n):
        cases.append(gen(rng, chk.tier == "thorough"))
    if chk.tier == "thorough":
        for ne in range(0, 5):
            for es in itertools.product(itertools.product(range(4), repeat=2), repeat=ne):
                cases.append(([a for a, _ in es], [b for _, b in es]))
        chk.cov["exhaustive_small_scope"] = "all edge lists with <=4 edges over vertices 0..3"
    terms, meta = [], []
    for k, (f, g) in enumerate(cases):
        try:
            obs = impl(f, g)
        except Exception as e:
            obs = ["<error %s>" % type(e).__name__]
        exp = ref_labels(f, g)
        chk.count((tuple(f), tuple(g)), nontrivial=len(f) >= 2)
        chk.dist("edges_%02d" % min(len(f) // 4 * 4, 40))
        if k < 4:
            chk.sample({"f": f, "g": g, "labels": obs})
        if obs != exp:
            def fails(idx):
                ff, gg = [f[i] for i in idx], [g[i] for i in idx]
                try:
                    return impl(ff, gg) != ref_labels(ff, gg)
                except Exception:
                    return True
            idx = lib.shrink_list(list(range(len(f))), fails)
            ff, gg = [f[i] for i in idx], [g[i] for i in idx]
            try:
                o2 = impl(ff, gg)
            except Exception as e:
                o2 = "error " + type(e).__name__
            chk.impl_violation("edge label is not the least vertex of its component", {"kind": "impl-violation", "f": ff, "g": gg, "observed": o2, "expected": ref_labels(ff, gg)}, {"op": "cc"})
            continue
        ef, eg, rank = encode(f, g)
        terms.append("(%s, %s, %s)" % (clist([cz(x) for x in ef]), clist([cz(x) for x in eg]), clist([cz(rank[x]) for x in obs])))
        meta.append({"f": f, "g": g, "observed": obs})
    # use inside pipelines (oracle only)
    try:
        import pandas as pd
        from data_algebra.data_ops import descr
        for _ in range(60 if chk.tier == "quick" else 400):
            f, g = gen(rng, False)
            if not f:
                continue
            d = pd.DataFrame({"f": f, "g": g})              # int, string and float vertices alike
            for text in ("f.co_equalizer(g)", "connected_components(f, g)"):
                r = (descr(d=d).extend({"c": text})).transform(d)
                chk.count(("pipe", text, tuple(f), tuple(g)), nontrivial=len(f) >= 2)
                if list(r["c"]) != ref_labels(f, g):
                    chk.impl_violation(f"{text} in a pipeline differs from the component minimum",
                                       {"kind": "impl-violation", "via": "pipeline", "expr": text, "f": f, "g": g, "observed": list(r["c"]), "expected": ref_labels(f, g)}, {"op": "pipeline"})
    except Exception as e:
        chk.cov["oracle"]["pipeline_use"] = "skipped: %s" % type(e).__name__
    if os.path.exists(os.path.join(lib.COQ, "theories/Model/ConnCompCases.vo")):
        pre = "From Coq Require Import List ZArith Bool.\nImport ListNotations.\nFrom DA Require Import Base.PyRT Base.Cases Model.ConnComp Model.ConnCompCases.\n"
        failing, errors, nchecked = lib.run_case_files("C23", pre, terms, "check_cases", per_file=400)
        chk.cov["correspondence"] = {"cases": len(terms), "checked_in_coq": nchecked, "disagreements": len(failing), "errors": errors[:2]}
        chk.cov["traces_validated_against_impl"] = nchecked
        if errors:
            chk.corr_break("correspondence case files failed to compile", errors[0])
        for i in failing[:3]:
            chk.corr_break("Model/ConnComp.v disagrees with connected_components.py", meta[i])
    else:
        chk.corr_break("Model/ConnCompCases.vo not built", "")


def replay(path):
    r = json.load(open(path))
    if "f" in r:
        obs = impl(r["f"], r["g"])
        print("observed", obs, "expected", ref_labels(r["f"], r["g"]))
        return 0 if obs == ref_labels(r["f"], r["g"]) else 1
    print(json.dumps(r, indent=1)[:3000])
    return 1
