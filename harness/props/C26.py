"""C26 -- the builder rejects ill-formed steps when the pipeline is built.
proof:  Props/C26.v about the hand model Model/Builder.v (validation of every builder step as a function of the prefix's
        declared columns and of the node fields the builder methods look into) and Gen/G_MergeOps.v (regenerated)
tie:    correspondence (real builder vs model: accept/reject and the new column_names, on the prefix as built AND on a
        bare table of the prefix's columns, compared inside Coq); the fn_names_* sets and the operator catalogue are read
        from /repo on every run and handed to the case files; the arguments each builder forwards when it skips a
        trivial node are read from the source text and compared with Builder.forwarded_args
oracle: (1) the real builder accepts a step iff no documented rule is violated (computed here from the declared columns),
        (2) an accepted step does not fail later, at evaluation, with a column/validation error,
        (3) the verdict on the prefix equals the verdict on a bare table description with the prefix's columns"""
import ast, glob, json, os, re, warnings
import lib
from lib import clist, cstr, cbool

warnings.filterwarnings("ignore")
N = {"quick": 2000, "thorough": 12000}

# ------------------------------------------------------------------------------------------ what is read from /repo


def read_tables():
    import data_algebra.expr_rep as er
    import data_algebra.op_catalog as oc
    mt = oc.methods_table
    cls = {}
    for op, c in zip(mt["op"], mt["op_class"]):
        cls.setdefault(c, set()).add(op)
    return {"w": sorted(er.fn_names_that_imply_windowed_situation), "ow": sorted(er.fn_names_that_imply_ordered_windowed_situation),
            "np": sorted(er.fn_names_not_allowed_in_project), "cw": sorted(er.fn_names_that_contradict_windowed_situation),
            "co": sorted(er.fn_names_that_contradict_ordered_windowed_situation),
            "catw": sorted(cls.get("g", set()) | cls.get("w", set()) | cls.get("up", set())),
            "catp": sorted(cls.get("p", set()) | cls.get("up", set()))}


def c_tables(T):
    return "(mkT %s)" % " ".join(clist([cstr(x) for x in T[k]]) for k in ("w", "ow", "np", "cw", "co", "catw", "catp"))


def forwarding_calls():
    """[(method, [argument spellings])] for every `if self.is_trivial_when_intermediate_(): return self.sources[0].m(...)`"""
    src = open(os.path.join(lib.REPO, "data_algebra", "view_representations.py")).read()
    tree = ast.parse(src)
    out = []
    for cl in tree.body:
        if isinstance(cl, ast.ClassDef) and cl.name == "ViewRepresentation":
            for fn in cl.body:
                if not isinstance(fn, ast.FunctionDef):
                    continue
                for node in ast.walk(fn):
                    if not (isinstance(node, ast.If) and isinstance(node.test, ast.Call) and isinstance(node.test.func, ast.Attribute)
                            and node.test.func.attr == "is_trivial_when_intermediate_"):
                        continue
                    for st in node.body:
                        if isinstance(st, ast.Return) and isinstance(st.value, ast.Call) and isinstance(st.value.func, ast.Attribute):
                            call = st.value
                            # positional arguments by position, keyword arguments by keyword: the names of locals do not matter
                            args = ["#%d" % i for i, _ in enumerate(call.args)] + sorted(str(k.arg) for k in call.keywords)
                            out.append((fn.name, call.func.attr, args))
    return out


# ------------------------------------------------------------------------------------------ expressions

def term_ast(t):
    import data_algebra.expr_rep as er
    if isinstance(t, er.ColumnReference):
        return ("col", t.column_name)
    if isinstance(t, er.Value):
        return ("val",)
    if isinstance(t, er.Expression):
        return ("op", t.op, [term_ast(a) for a in t.args])
    return ("coll",)


def parse_universe(text, universe):
    """parse expression text with every candidate name known (the builder will parse it again against the real prefix)"""
    import data_algebra.expr_rep as er
    from data_algebra.parse_by_lark import parse_by_lark
    return parse_by_lark(text, data_def={c: er.ColumnReference(c) for c in universe})


def ast_cols(a, acc=None):
    acc = [] if acc is None else acc
    if a[0] == "col":
        acc.append(a[1])
    elif a[0] == "op":
        for x in a[2]:
            ast_cols(x, acc)
    return acc


def c_expr(a):
    if a[0] == "col":
        return "(ECol %s)" % cstr(a[1])
    if a[0] == "val":
        return "EVal"
    if a[0] == "coll":
        return "EColl"
    return "(EOp %s %s)" % (cstr(a[1]), clist([c_expr(x) for x in a[2]]))


def c_strs(l):
    return clist([cstr(x) for x in l])


def c_ops(ops):
    return clist(["(%s, %s)" % (cstr(k), c_expr(a)) for k, a in ops])


# ------------------------------------------------------------------------------------------ steps
# a candidate step is a JSON-able dict; expressions are kept as text, "ast" holds their parse (filled by finish_step)

def part_spec(p):
    """partition_by argument -> ('one' | list)"""
    if p is None:
        return []
    if p == 1 and not isinstance(p, (list, str)):
        return "one"
    if isinstance(p, str):
        return [p]
    return list(p)


def lst(x):
    if x is None:
        return []
    if isinstance(x, str):
        return [x]
    return list(x)


def on_pairs(on):
    out = []
    for v in lst(on):
        out.append((v, v) if isinstance(v, str) else (v[0], v[1]))
    return out


def finish_step(step, universe):
    """attach the parsed form of every expression"""
    if step["op"] in ("extend", "project"):
        step["ast"] = [[k, term_ast(parse_universe(e, universe))] for k, e in step["ops"]]
    elif step["op"] == "select_rows":
        step["ast"] = term_ast(parse_universe(step["expr"], universe))
    return step


def c_step(step):
    op = step["op"]
    if op == "extend":
        p = part_spec(step.get("partition_by"))
        return "(SExtend %s %s %s %s)" % (c_ops([(k, a) for k, a in step["ast"]]), "POne" if p == "one" else "(PList %s)" % c_strs(p),
                                         c_strs(lst(step.get("order_by"))), c_strs(lst(step.get("reverse"))))
    if op == "project":
        return "(SProject %s %s)" % (c_ops([(k, a) for k, a in step["ast"]]), c_strs(lst(step.get("group_by"))))
    if op == "select_rows":
        return "(SSelectRows %s)" % c_expr(step["ast"])
    if op == "select_columns":
        return "(SSelectCols %s)" % c_strs(step["columns"])
    if op == "drop_columns":
        return "(SDropCols %s)" % c_strs(step["columns"])
    if op == "rename_columns":
        return "(SRename %s)" % clist(["(%s, %s)" % (cstr(k), cstr(v)) for k, v in step["map"]])
    if op == "map_columns":
        return "(SMap %s)" % clist(["(%s, %s)" % (cstr(k), "None" if v is None else "(Some %s)" % cstr(v)) for k, v in step["map"]])
    if op == "order_rows":
        return "(SOrder %s %s %s)" % (c_strs(step["columns"]), c_strs(lst(step.get("reverse"))), "None" if step.get("limit") is None else "(Some %d)" % step["limit"])
    if op == "natural_join":
        return "(SJoin %s %s %s %s)" % (c_strs(step["bcols"]), clist(["(%s, %s)" % (cstr(a), cstr(b)) for a, b in on_pairs(step["on"])]),
                                       cstr(step["jointype"].upper()), cbool(step["check"]))
    if op == "concat_rows":
        return "(SConcat %s %s)" % (c_strs(step["bcols"]), "None" if step["id_column"] is None else "(Some %s)" % cstr(step["id_column"]))
    raise ValueError(op)


def apply_candidate(base, step, b_ops, universe, term_form=False):
    """call the public builder method for `step` on the operator tree `base`"""
    op = step["op"]
    if op in ("extend", "project"):
        items = [(k, (parse_universe(e, universe) if term_form else e)) for k, e in step["ops"]]
        ops = items if step.get("as_pairs") else dict(items)
        if op == "extend":
            return base.extend(ops, partition_by=step.get("partition_by"), order_by=step.get("order_by"), reverse=step.get("reverse"))
        return base.project(ops, group_by=step.get("group_by"))
    if op == "select_rows":
        return base.select_rows(parse_universe(step["expr"], universe) if term_form else step["expr"])
    if op == "select_columns":
        return base.select_columns(list(step["columns"]))
    if op == "drop_columns":
        return base.drop_columns(list(step["columns"]))
    if op == "rename_columns":
        return base.rename_columns(dict(step["map"]))
    if op == "map_columns":
        return base.map_columns(dict(step["map"]))
    if op == "order_rows":
        return base.order_rows(list(step["columns"]), reverse=step.get("reverse"), limit=step.get("limit"))
    if op == "natural_join":
        on = [x if isinstance(x, str) else tuple(x) for x in step["on"]] if step["on"] is not None else None
        return base.natural_join(b_ops, on=on, jointype=step["jointype"], check_all_common_keys_in_equi_spec=bool(step["check"]))
    if op == "concat_rows":
        return base.concat_rows(b_ops, id_column=step["id_column"], a_name="a", b_name="b")
    raise ValueError(op)


# ------------------------------------------------------------------------------------------ the rules, from the property text
# Computed from the DECLARED columns of the prefix and the step's arguments only.
#   listed in the property: unknown_column, change_window_column, use_and_produce, not_aggregating (bare column/constant:
#   `_bare`; an operator that is not an aggregation/window function of the catalogue: `_op`), too_complex, join_missing_key,
#   join_common_nonkey, concat_columns
#   documented, not in the property's list (the real builder rejects them too; kept apart so that they are visible):
#   window_kind (a function that needs / forbids an ordering, or is not allowed in project), duplicate_name,
#   window_spec (reverse column not ordered by; partition and order overlap), alter_group, name_collision,
#   empty_result, empty_step, join_type

def violations(T, cols, step):
    cols = list(cols)
    cs = set(cols)
    v = set()
    op = step["op"]

    def dup(l):
        return len(l) != len(set(l))

    if op in ("extend", "project"):
        ops = [(k, a) for k, a in step["ast"]]
        ks = [k for k, _ in ops]
        if dup(ks):
            v.add("duplicate_name")
        for k, a in ops:
            if any(c not in cs for c in ast_cols(a)):
                v.add("unknown_column")
            if any((c != k and c in ks) for c in ast_cols(a)):
                v.add("use_and_produce")
    if op == "extend":
        if not ops:
            return v                       # nothing is added: the prefix is returned unchanged
        p = part_spec(step.get("partition_by"))
        pl = [] if p == "one" else p
        ob, rv = lst(step.get("order_by")), lst(step.get("reverse"))
        for l in (pl, ob, rv):
            if any(c not in cs for c in l):
                v.add("unknown_column")
            if dup(l):
                v.add("duplicate_name")
        if set(ks) & (set(pl) | set(ob) | set(rv)):
            v.add("change_window_column")
        if set(rv) - set(ob) or set(pl) & set(ob):
            v.add("window_spec")
        windowed = p == "one" or bool(pl) or bool(ob) or any(a[0] == "op" and a[1] in T["w"] for _, a in ops)
        if windowed:
            for k, a in ops:
                if a[0] != "op":
                    v.add("not_aggregating_bare")
                    continue
                if a[1] not in T["catw"]:
                    v.add("not_aggregating_op")
                args = a[2]
                if (args and args[0][0] not in ("col", "val")) or any(x[0] != "val" for x in args[1:]):
                    v.add("too_complex")
                if a[1] in T["cw"] or (ob and a[1] in T["co"]) or (not ob and a[1] in T["ow"]):
                    v.add("window_kind")
    elif op == "project":
        gb = lst(step.get("group_by"))
        if any(c not in cs for c in gb):
            v.add("unknown_column")
        if dup(gb):
            v.add("duplicate_name")
        if not ops and not gb:
            v.add("empty_step")
        if set(ks) & set(gb):
            v.add("alter_group")
        for k, a in ops:
            if a[0] != "op":
                v.add("not_aggregating_bare")
                continue
            if a[1] not in T["catp"]:
                v.add("not_aggregating_op")
            args = a[2]
            if len(args) > 1 or (args and args[0][0] not in ("col", "val")):
                v.add("too_complex")
            if a[1] in T["ow"] or a[1] in T["np"]:
                v.add("window_kind")
    elif op == "select_rows":
        if any(c not in cs for c in ast_cols(step["ast"])):
            v.add("unknown_column")
    elif op == "select_columns":
        c = step["columns"]
        if not c:
            v.add("empty_result")
        if any(x not in cs for x in c):
            v.add("unknown_column")
        if dup(c):
            v.add("duplicate_name")
    elif op == "drop_columns":
        c = step["columns"]
        if any(x not in cs for x in c):
            v.add("unknown_column")
        if c and not [x for x in cols if x not in c]:
            v.add("empty_result")
    elif op == "rename_columns":
        m = step["map"]                      # [new, old]
        if m:
            news, olds = [k for k, _ in m], [o for _, o in m]
            if any(o not in cs for o in olds):
                v.add("unknown_column")
            if any((n in cs and n not in olds) for n in news):
                v.add("name_collision")      # a new name is an existing column that is not itself renamed
    elif op == "map_columns":
        m = step["map"]                      # [old, new|None]
        if m:
            olds, news = [k for k, _ in m], [n for _, n in m if n is not None]
            if any(o not in cs for o in olds):
                v.add("unknown_column")
            if any((n in cs and n not in olds) for n in news):
                v.add("name_collision")
            md = dict(m)
            res = [md.get(c, c) for c in cols if not (c in md and md[c] is None)]
            if all(o in cs for o in olds) and not any((n in cs and n not in olds) for n in news):
                if dup(res):
                    v.add("name_collision")  # two columns would get the same name
                if not res:
                    v.add("empty_result")
    elif op == "order_rows":
        c, rv = step["columns"], lst(step.get("reverse"))
        if c or step.get("limit") is not None:
            if any(x not in cs for x in c) or any(x not in cs for x in rv):
                v.add("unknown_column")
            if set(rv) - set(c):
                v.add("window_spec")
    elif op == "natural_join":
        b = step["bcols"]
        pairs = on_pairs(step["on"])
        oa, obb = [x for x, _ in pairs], [y for _, y in pairs]
        if any(x not in cs for x in oa) or any(y not in b for y in obb):
            v.add("join_missing_key")
        if step["check"] and any((c in b and not (c in oa and c in obb)) for c in cols):
            v.add("join_common_nonkey")
        jt = step["jointype"].upper()
        if jt not in ("INNER", "LEFT", "RIGHT", "OUTER", "FULL", "CROSS") or (jt == "CROSS" and pairs):
            v.add("join_type")
    elif op == "concat_rows":
        if set(step["bcols"]) != cs:
            v.add("concat_columns")
        elif step["id_column"] is not None and step["id_column"] in cs:
            v.add("name_collision")
    return v


CONFORMING_AIMS = ("ok", "common_nonkey_unchecked", "one_sided_key_unchecked")
AIM_RULE = {"join_one_sided_key": "join_common_nonkey"}
LISTED = {"unknown_column", "change_window_column", "use_and_produce", "not_aggregating_bare", "not_aggregating_op", "too_complex",
          "join_missing_key", "join_common_nonkey", "concat_columns"}

# ------------------------------------------------------------------------------------------ candidate step generator

ROWWISE = ["{a} + 1", "{a} * 2", "{a} - {b}", "({a}).abs()", "-{a}", "({a}).maximum({b})", "({a} > 1).if_else({a}, 0)", "({a}).coalesce(0)", "{a} + {b} * 2"]
AGG_BOTH = ["sum", "mean", "min", "max", "count", "median", "nunique", "std", "var", "size"]          # catalogue classes g and p
AGG_UNORDERED_OK_WHEN_ORDERED = ["mean", "median", "nunique", "size"]
ORDERED_WIN = ["cumsum", "cummax", "cummin", "shift", "rank", "cumcount"]


class StepGen:
    def __init__(self, rng, cols, colty, extra_names, win_hint=None, prefer_one=False):
        self.rng, self.cols, self.colty, self.prefer_one = rng, list(cols), colty, prefer_one
        self.nums = [c for c in cols if colty.get(c) in ("int", "float")]
        self.extra = [c for c in extra_names if c not in cols]          # names that exist somewhere upstream but not here
        self.win_hint = win_hint                                          # window of the prefix's top extend (to provoke merges)
        self.universe = sorted(set(cols) | set(self.extra) | {"zz", "nope", "x", "y", "z9", "w", "v", "u"})

    def unknown(self):
        return self.rng.choice(self.extra + ["zz", "zz", "nope"]) if self.extra else self.rng.choice(["zz", "nope"])

    def fresh(self, taken=()):
        for _ in range(50):
            c = self.rng.choice(["x", "y", "z9", "w", "v", "u"])
            if c not in self.cols and c not in taken:
                return c
        return "fresh_%d" % self.rng.randint(0, 999)

    def num(self, avoid=()):
        pool = [c for c in self.nums if c not in avoid] or self.nums
        return self.rng.choice(pool) if pool else None

    def rowwise(self, avoid=()):
        a, b = self.num(avoid), self.num(avoid)
        if a is None:
            return self.rng.choice(["1", "2.5"])
        return self.rng.choice(ROWWISE).format(a=a, b=b)

    def boolean(self):
        a = self.num()
        if a is None:
            return "%s.is_null()" % self.rng.choice(self.cols)
        return self.rng.choice(["{a} > 1", "{a} <= {b}", "({a} > 0) and ({b} < 3)", "{a}.is_null()", "{a} == 2"]).format(a=a, b=self.num())

    # ---- one step of the wanted kind; `want` = "ok" or the rule to violate (best effort; the oracle recomputes the truth)
    def extend(self, want):
        rng, cols = self.rng, self.cols
        st = {"op": "extend", "ops": [], "partition_by": None, "order_by": None, "reverse": None}
        keyspace = [c for c in cols if self.colty.get(c) != "str"] or cols
        flavour = rng.choice(["plain", "plain", "window", "ordered", "one"]) if want in ("ok", "unknown_column", "use_and_produce", "duplicate_name") else None
        if want == "ok" and self.prefer_one and rng.random() < 0.35:
            flavour = "one"          # whole-table window on top of a plain extend: the merge test must keep the two steps apart
        if want in ("change_window_column", "not_aggregating_bare", "not_aggregating_op", "too_complex", "window_spec"):
            flavour = rng.choice(["window", "ordered"])
        if want == "window_kind":
            flavour = rng.choice(["window", "ordered", "plain"])
        part = order = None
        if flavour in ("window", "ordered"):
            if self.win_hint and rng.random() < 0.6:
                part, order, rev = self.win_hint
                part = list(part) if part else None
                order, rev = list(order) or None, list(rev) or None
                if flavour == "ordered" and not order:
                    order = [rng.choice(cols)] if not part or len(cols) > len(part) else None
            else:
                part = rng.sample(cols, rng.randint(1, min(2, len(cols)))) if rng.random() < 0.85 else None
                rest = [c for c in cols if not part or c not in part]
                order = rng.sample(rest, rng.randint(1, min(2, len(rest)))) if (flavour == "ordered" and rest) else None
                rev = [c for c in (order or []) if rng.random() < 0.3] or None
            if flavour == "ordered" and not order:
                flavour = "window"
            if flavour == "window":
                order, rev = None, None
            if flavour == "window" and not part:
                part = 1
            st.update({"partition_by": part if not (isinstance(part, list) and len(part) == 1 and rng.random() < 0.2) else part[0], "order_by": order, "reverse": rev})
        elif flavour == "one":
            st["partition_by"] = 1
        wcols = set(lst(part if part != 1 else None)) | set(lst(order))
        n = rng.randint(1, 2)
        taken = []
        for _ in range(n):
            k = self.fresh(taken) if rng.random() < 0.75 else rng.choice([c for c in keyspace if c not in wcols] or [self.fresh(taken)])
            if k in taken:
                continue
            taken.append(k)
            avoid = set(taken) | wcols
            if flavour in (None, "plain"):
                e = self.rowwise(avoid=set(taken) - {k})
                if rng.random() < 0.15 and self.nums:
                    e = "%s.%s()" % (self.num(set(taken) - {k}), rng.choice(["sum", "mean", "max"]))     # implies a window on its own
                    flavour = "implied"
            elif flavour == "implied":
                e = "%s.%s()" % (self.num(set(taken) - {k}), rng.choice(["sum", "mean", "max"]))
            elif flavour == "ordered":
                r = rng.random()
                a = self.num(avoid)
                if a is None or r < 0.2:
                    e = "_row_number()"
                elif r < 0.75:
                    f = rng.choice(ORDERED_WIN)
                    e = "%s.%s()" % (a, f)
                else:
                    e = "%s.%s()" % (a, rng.choice(AGG_UNORDERED_OK_WHEN_ORDERED))
            else:   # window / one
                r = rng.random()
                a = self.num(avoid)
                if flavour == "one" and self.prefer_one:
                    e = rng.choice(["_size()", "_count()"])          # does not imply a window by itself
                elif a is None or r < (0.5 if flavour == "one" else 0.15):
                    e = rng.choice(["_size()", "_count()", "(1).sum()"])
                else:
                    e = "%s.%s()" % (a, rng.choice(AGG_BOTH + ["any_value", "first", "last"]))
            st["ops"].append([k, e])
        if not st["ops"]:
            st["ops"].append([self.fresh(), self.rowwise()])
        ops = st["ops"]
        if want == "unknown_column":
            where = rng.choice(["expr", "expr", "partition_by", "order_by", "reverse"])
            u = self.unknown()
            if where == "expr":
                ops[0][1] = rng.choice(["%s + 1", "%s.sum()", "%s", "(%s).abs()"]) % u if flavour in (None, "plain", "implied") else "%s.%s()" % (u, "mean")
            elif where == "partition_by":
                st["partition_by"] = lst(st["partition_by"] if st["partition_by"] != 1 else None) + [u]
                ops[0][1] = "%s.mean()" % (self.num() or "(1)") if self.nums else "_size()"
            else:
                ob = lst(st["order_by"]) + [u]
                st["order_by"] = ob
                if where == "reverse":
                    st["reverse"] = [u]
                ops[0][1] = "%s.cumsum()" % self.num() if self.nums else "_row_number()"
        elif want == "change_window_column":
            target = rng.choice(sorted(wcols)) if wcols else None
            if target is not None:
                ops[0][0] = target
        elif want == "use_and_produce":
            if rng.random() < 0.5 and len(self.nums) >= 2:
                a, b = rng.sample(self.nums, 2)
                st["ops"] = [[a, "%s + 1" % b], [self.fresh(), "%s * 2" % a]]        # an existing column, produced and read
            else:
                k = self.fresh()
                st["ops"] = [[k, self.rowwise()], [self.fresh([k]), "%s + 1" % k]]   # a new column read in the same step
            st.update({"partition_by": None, "order_by": None, "reverse": None})
        elif want == "not_aggregating_bare":
            ops[0][1] = rng.choice([self.num() or "1", "1", "2.5"])
        elif want == "not_aggregating_op":
            a = self.num(wcols) or "(1)"
            ops[0][1] = rng.choice(["(%s).abs()", "-%s", "%s + 1", "(%s).coalesce(0)", "(%s).is_null()"]) % a
        elif want == "too_complex":
            a = self.num(wcols) or "(1)"
            ops[0][1] = rng.choice(["(%s + 1).sum()", "(-%s).max()", "%s.sum() + 1", "(%s * 2).mean()", "(%s).maximum(%s)" % ("%s", self.num() or "1")]) % a
        elif want == "window_kind":
            a = self.num(wcols) or "(1)"
            if flavour == "ordered":
                ops[0][1] = "%s.%s()" % (a, rng.choice(["sum", "max", "min", "count", "std", "var"]))
            else:
                ops[0][1] = rng.choice(["%s.cumsum()" % a, "%s.shift()" % a, "_row_number()", "%s.cummax()" % a])
        elif want == "duplicate_name":
            r = rng.random()
            if r < 0.4:
                st["as_pairs"] = True
                ops.append([ops[0][0], self.rowwise(avoid={ops[0][0]}) if flavour in (None, "plain") else ops[0][1]])
            elif r < 0.7 and self.cols:
                c = rng.choice(cols)
                st["partition_by"] = [c, c]
                st["ops"] = [[self.fresh(), "%s.mean()" % self.num([c]) if self.nums else "_size()"]]
                st["order_by"] = st["reverse"] = None
            else:
                c = rng.choice(cols)
                st["order_by"] = [c, c]
                st["ops"] = [[self.fresh(), "%s.cumsum()" % self.num([c]) if self.nums else "_row_number()"]]
                st["partition_by"] = st["reverse"] = None
        elif want == "window_spec":
            if rng.random() < 0.5 or not lst(st["order_by"]):
                other = [c for c in cols if c not in lst(st["order_by"])]
                st["reverse"] = [rng.choice(other)] if other else ["zz"]
                if not lst(st["order_by"]):
                    st["order_by"] = None
            else:
                ob = lst(st["order_by"])
                st["partition_by"] = lst(st["partition_by"] if st["partition_by"] != 1 else None) + [ob[0]]
        return st

    def project(self, want):
        rng, cols = self.rng, self.cols
        gb = rng.sample(cols, rng.randint(0, min(2, len(cols))))
        vals = [c for c in self.nums if c not in gb]
        ops, taken = [], []
        for _ in range(rng.randint(0 if gb else 1, 2)):
            k = self.fresh(taken)
            taken.append(k)
            if not vals or rng.random() < 0.2:
                e = rng.choice(["_size()", "_size()", "(1).sum()"])
            else:
                e = "%s.%s()" % (rng.choice(vals), rng.choice(AGG_BOTH + ["any_value"]))
            ops.append([k, e])
        st = {"op": "project", "ops": ops, "group_by": gb if not (len(gb) == 1 and rng.random() < 0.2) else gb[0]}
        if want != "ok" and not ops:
            ops.append([self.fresh(), "_size()"])
        a = rng.choice(vals) if vals else "(1)"
        if want == "unknown_column":
            u = self.unknown()
            if rng.random() < 0.5:
                ops[0][1] = "%s.sum()" % u
            else:
                st["group_by"] = lst(st["group_by"]) + [u]
        elif want == "alter_group":
            if gb:
                ops[0][0] = rng.choice(gb)
        elif want == "use_and_produce":
            if len(vals) >= 2:
                x, y = rng.sample(vals, 2)
                st["ops"] = [[x, "%s.sum()" % y], [self.fresh(), "%s.max()" % x]]
        elif want == "not_aggregating_bare":
            ops[0][1] = rng.choice([a if a != "(1)" else "1", "1"])
        elif want == "not_aggregating_op":
            ops[0][1] = rng.choice(["(%s).abs()", "-%s", "(%s).is_null()", "%s.rank()", "(%s).coalesce(0)"]) % a
        elif want == "too_complex":
            ops[0][1] = rng.choice(["(%s + 1).sum()", "%s + 1", "(-%s).max()", "%s.sum() + 1"]) % a
        elif want == "window_kind":
            ops[0][1] = rng.choice(["%s.cumsum()" % a, "%s.shift()" % a, "_row_number()", "_ngroup()", "%s.cummax()" % a])
        elif want == "duplicate_name":
            if rng.random() < 0.5 and cols:
                c = rng.choice(cols)
                st["group_by"] = [c, c]
                st["ops"] = [[self.fresh(), "_size()"]]
            else:
                st["as_pairs"] = True
                ops.append([ops[0][0], "_size()"])
        elif want == "empty_step":
            st["ops"], st["group_by"] = [], None
        return st

    def select_rows(self, want):
        e = self.boolean()
        if want == "unknown_column":
            e = self.rng.choice(["%s > 1", "%s.is_null()", "(%s > 0) and (1 == 1)"]) % self.unknown()
        return {"op": "select_rows", "expr": e}

    def select_columns(self, want):
        rng, cols = self.rng, self.cols
        cs = rng.sample(cols, rng.randint(1, len(cols)))
        if want == "unknown_column":
            cs.insert(rng.randint(0, len(cs)), self.unknown())
        elif want == "duplicate_name":
            cs.append(rng.choice(cs))
        elif want == "empty_result":
            cs = []
        return {"op": "select_columns", "columns": cs}

    def drop_columns(self, want):
        rng, cols = self.rng, self.cols
        cs = rng.sample(cols, rng.randint(1, max(1, len(cols) - 1))) if len(cols) > 1 else []
        if want == "unknown_column":
            cs.append(self.unknown())
        elif want == "empty_result":
            cs = list(cols)
            rng.shuffle(cs)
        elif want == "ok" and rng.random() < 0.1 and cs:
            cs.append(cs[0])                    # a repeated name in the list is harmless
        return {"op": "drop_columns", "columns": cs}

    def rename_like(self, want, kind):
        """kind: rename_columns (pairs [new, old]) or map_columns (pairs [old, new|None])"""
        rng, cols = self.rng, self.cols
        olds = rng.sample(cols, rng.randint(1, min(2, len(cols))))
        pairs, taken = [], set(cols)
        for o in olds:
            n = self.fresh(taken)
            taken.add(n)
            pairs.append([o, n])
        if want == "ok":
            r = rng.random()
            if r < 0.2 and len(olds) == 2:
                pairs = [[olds[0], olds[1]], [olds[1], olds[0]]]                       # swap
            elif r < 0.3 and len(cols) >= 2 and len(olds) == 2:
                pairs = [[olds[0], olds[1]], [olds[1], self.fresh(taken)]]               # chain a->b, b->fresh
            elif r < 0.4 and kind == "map_columns" and len(cols) > len(olds):
                pairs[0][1] = None                                                      # delete
            elif r < 0.45:
                pairs = [[olds[0], olds[0]]]                                            # identity
        elif want == "unknown_column":
            pairs[0][0] = self.unknown()
        elif want == "name_collision":
            others = [c for c in cols if c not in olds]
            if others and (rng.random() < 0.6 or kind == "rename_columns" or len(olds) < 2):
                pairs[0][1] = rng.choice(others)                                       # an existing, unrenamed column
            elif len(olds) >= 2 and kind == "map_columns":
                pairs[1][1] = pairs[0][1]                                               # two columns -> one name (a rename dict cannot say this)
        elif want == "empty_result" and kind == "map_columns":
            pairs = [[c, None] for c in cols]
        if kind == "rename_columns":
            return {"op": kind, "map": [[n, o] for o, n in pairs if n is not None]}
        return {"op": kind, "map": pairs}

    def order_rows(self, want):
        rng, cols = self.rng, self.cols
        cs = rng.sample(cols, rng.randint(1, min(3, len(cols))))
        rev = [c for c in cs if rng.random() < 0.3]
        st = {"op": "order_rows", "columns": cs, "reverse": rev or None, "limit": rng.choice([None, None, 1, 3])}
        if want == "unknown_column":
            cs.append(self.unknown())
            if rng.random() < 0.3:
                st["reverse"] = [cs[-1]]
        elif want == "window_spec":
            other = [c for c in cols if c not in cs]
            st["reverse"] = [rng.choice(other)] if other else ["zz"]
        elif want == "ok" and rng.random() < 0.1:
            cs.append(cs[0])                    # a repeated sort key is harmless
        return st

    def natural_join(self, want, btab):
        """btab: (name, [(col, type)]) of the right-hand table; its description is the right operand"""
        rng, cols = self.rng, self.cols
        bname, bspec = btab
        bcols = [c for c, _ in bspec]
        bty = dict(bspec)

        def compat(c, d):
            num = ("int", "float")
            return (self.colty.get(c) in num and bty.get(d) in num) or (self.colty.get(c) == bty.get(d))
        common = [c for c in cols if c in bty]
        same = [c for c in common if compat(c, c)]
        on = []
        if same:
            on = rng.sample(same, rng.randint(1, min(2, len(same))))
        elif self.nums:
            bn = [d for d in bcols if bty[d] in ("int", "float") and d not in cols]
            an = [c for c in self.nums if c not in bcols]
            if bn and an:
                on = [[rng.choice(an), rng.choice(bn)]]
        if on and rng.random() < 0.15:
            bn = [d for d in bcols if bty[d] in ("int", "float") and d not in cols]
            an = [c for c in self.nums if c not in bcols]
            if bn and an:
                on = on + [[rng.choice(an), rng.choice(bn)]]
        st = {"op": "natural_join", "b": bname, "bcols": bcols, "on": on, "jointype": rng.choice(["INNER", "LEFT", "RIGHT", "FULL", "inner", "left", "OUTER"]), "check": False,
              "types_ok": all(compat(c, c) for c in common)}
        if want == "ok":
            r = rng.random()
            if r < 0.3:
                st["check"] = True
                st["on"] = list(common)                                                 # every common column is a key
                st["types_ok"] = st["types_ok"] and bool(common)
            elif r < 0.4:
                st["on"], st["jointype"] = [], "CROSS"
            elif r < 0.45:
                st["on"] = []                                                           # no key: every pair of rows
        elif want == "join_missing_key":
            r = rng.random()
            lonly = [c for c in cols if c not in bcols]
            ronly = [d for d in bcols if d not in cols]
            if r < 0.35 and lonly:
                st["on"] = on + [rng.choice(lonly)]                                     # missing on the right
            elif r < 0.7 and ronly:
                st["on"] = on + [rng.choice(ronly)]                                     # missing on the left
            else:
                st["on"] = on + [self.unknown() if rng.random() < 0.5 or not lonly or not ronly else [rng.choice(ronly), rng.choice(lonly)]]
        elif want == "join_common_nonkey":
            st["check"] = True
            if len(common) >= 2:
                k = rng.sample(common, rng.randint(1, len(common) - 1))
                st["on"] = k
            elif common:
                st["on"] = []
        elif want == "common_nonkey_unchecked":                                         # same shape, check not requested: conforming
            if len(common) >= 2:
                st["on"] = rng.sample(common, rng.randint(1, len(common) - 1))
        elif want in ("join_one_sided_key", "one_sided_key_unchecked"):
            # differently named keys where a column common to both tables is a key on ONE side only: it is not equated with
            # itself, so it is a non-key common column (violation iff the check is requested); every other common column is a proper key
            st["check"] = want == "join_one_sided_key"
            num = ("int", "float")
            lonly = [c for c in self.nums if c not in bcols]
            ronly = [d for d in bcols if bty[d] in num and d not in cols]
            cn = [c for c in common if self.colty.get(c) in num and bty[c] in num]
            pair = None
            if cn and ronly and (rng.random() < 0.5 or not lonly):
                c = rng.choice(cn)
                pair = [c, rng.choice(ronly)]                                           # key on the left only
            elif cn and lonly:
                c = rng.choice(cn)
                pair = [rng.choice(lonly), c]                                           # key on the right only
            if pair is not None:
                rest = [x for x in common if x != c]
                st["on"] = rest + [pair] if rng.random() < 0.7 else [pair] + rest
                if rng.random() < 0.25 and len(cn) >= 2:                                # crossed pairs: each name a key on both sides, never equated with itself
                    c2 = rng.choice([x for x in cn if x != c])
                    st["on"] = [x for x in common if x not in (c, c2)] + [[c, c2], [c2, c]]
        elif want == "join_type":
            if rng.random() < 0.5 and on:
                st["jointype"] = "CROSS"
            else:
                st["jointype"] = rng.choice(["SEMI", "ANTI", "natural"])
        return st

    def concat_rows(self, want):
        rng, cols = self.rng, self.cols
        st = {"op": "concat_rows", "id_column": rng.choice([None, "src_name", "source_name"]), "b_shape": "same", "bcols": list(cols)}
        if st["id_column"] in cols:
            st["id_column"] = None
        if want == "ok":
            r = rng.random()
            if r < 0.35 and len(cols) > 1:
                p = list(cols)
                rng.shuffle(p)
                st["b_shape"], st["bcols"] = "permuted", p
            elif r < 0.6:
                st["b_shape"], st["b_arg"] = "filtered", self.boolean()
        elif want == "concat_columns":
            r = rng.random()
            if r < 0.5 and len(cols) > 1:
                d = rng.choice(cols)
                st["b_shape"], st["b_arg"], st["bcols"] = "dropped", d, [c for c in cols if c != d]
            else:
                k = self.fresh()
                st["b_shape"], st["b_arg"], st["bcols"] = "extended", k, list(cols) + [k]
        elif want == "name_collision":
            st["id_column"] = rng.choice(cols)
        return st


KINDS = {
    "extend": ["ok"] * 7 + ["unknown_column"] * 3 + ["change_window_column", "change_window_column", "use_and_produce", "use_and_produce", "not_aggregating_bare", "not_aggregating_op",
                                                   "too_complex", "too_complex", "window_kind", "window_kind", "duplicate_name", "window_spec"],
    "project": ["ok"] * 5 + ["unknown_column", "unknown_column", "alter_group", "use_and_produce", "not_aggregating_bare", "not_aggregating_op", "too_complex", "too_complex",
                             "window_kind", "duplicate_name", "empty_step"],
    "select_rows": ["ok", "ok", "unknown_column", "unknown_column"],
    "select_columns": ["ok", "ok", "ok", "unknown_column", "unknown_column", "unknown_column", "duplicate_name", "empty_result"],
    "drop_columns": ["ok", "ok", "unknown_column", "unknown_column", "empty_result"],
    "rename_columns": ["ok", "ok", "ok", "unknown_column", "name_collision", "name_collision"],
    "map_columns": ["ok", "ok", "ok", "unknown_column", "name_collision", "name_collision", "empty_result"],
    "order_rows": ["ok", "ok", "unknown_column", "unknown_column", "window_spec"],
    "natural_join": ["ok"] * 4 + ["join_missing_key"] * 3 + ["join_common_nonkey"] * 3 + ["common_nonkey_unchecked"] * 2 + ["join_one_sided_key"] * 3
                    + ["one_sided_key_unchecked"] * 2 + ["join_type"],
    "concat_rows": ["ok", "ok", "ok", "concat_columns", "concat_columns", "concat_columns", "name_collision"],
}
KIND_WEIGHTS = ["extend"] * 6 + ["project"] * 3 + ["select_rows"] * 2 + ["select_columns"] * 3 + ["drop_columns", "rename_columns", "map_columns", "order_rows"] + ["natural_join"] * 4 + ["concat_rows"] * 2

FORMS = ["plain", "random", "random", "order_nolimit", "order_nolimit", "order_nolimit", "order_limit", "select_after_select", "select_after_drop", "ends_in_drop",
         "extend_plain", "extend_plain", "extend_window", "extend_window", "extend_ordered", "order_over_extend", "order_over_select", "order_over_order"]


# ------------------------------------------------------------------------------------------ prefixes

def upstream_names(script, acc=None):
    """every column name that occurs anywhere in the prefix script (candidates for 'known upstream, unknown here')"""
    acc = set() if acc is None else acc
    if script["op"] == "table":
        return acc
    for k in ("columns",):
        acc.update(script.get(k) or [])
    if "map" in script:
        acc.update(script["map"].keys())
        acc.update(v for v in script["map"].values() if v)
    if "ops" in script:
        acc.update(script["ops"].keys())
    upstream_names(script["src"], acc)
    return acc


def gen_prefix(rng, pipes, tables):
    form = rng.choice(FORMS)
    g = pipes.Gen(rng, tables, total_orders=False)
    if form == "plain":
        s, colty, order = g.table("d1")
    else:
        for _ in range(20):
            s, colty, order = g.pipeline(rng.randint(0, 3))
            if s["op"] == "table" or pipes.script_tables(s) >= {"d1"}:
                break
    nums = [c for c in order if colty[c] in ("int", "float")]
    win = None

    def order_nolimit(s):
        cs = rng.sample(order, rng.randint(1, min(2, len(order))))
        return {"op": "order_rows", "src": s, "columns": cs, "reverse": [c for c in cs if rng.random() < 0.3], "limit": None}

    def plain_extend(s, colty, order):
        ops = {}
        for _ in range(rng.randint(1, 2)):
            k = g.newcol({**colty, **ops}) if rng.random() < 0.8 or not nums else rng.choice(nums)
            a = rng.choice(nums) if nums else "1"
            used = set()
            for e in ops.values():
                used.update(re.findall(r"[A-Za-z_]\w*", e))
            if k in used or (a in ops and a != k):
                continue
            tpl = rng.choice(["%s + 1", "%s * 2", "(%s).abs()", "5"])
            ops[k] = tpl % a if "%s" in tpl else tpl
        if not ops:
            ops = {g.newcol(colty): "5"}
        colty2, order2 = dict(colty), list(order)
        for k in ops:
            if k not in colty2:
                order2.append(k)
            colty2[k] = "float"
        return {"op": "extend", "src": s, "ops": ops}, colty2, order2

    def window_extend(s, colty, order, ordered):
        part = rng.sample(order, rng.randint(0, min(2, len(order))))
        rest = [c for c in order if c not in part]
        ob = rng.sample(rest, 1) if ordered and rest else []
        rev = [c for c in ob if rng.random() < 0.3]
        avail = [c for c in nums if c not in part and c not in ob]
        k = g.newcol(colty)
        if ob:
            e = "%s.%s()" % (rng.choice(avail), rng.choice(["cumsum", "cummax", "shift"])) if avail else "_row_number()"
        else:
            e = "%s.%s()" % (rng.choice(avail), rng.choice(["sum", "mean", "max"])) if avail else "_size()"
        st = {"op": "extend", "src": s, "ops": {k: e}, "partition_by": part or (1 if not ob else None), "order_by": ob, "reverse": rev}
        colty2, order2 = dict(colty), list(order) + [k]
        colty2[k] = "float"
        return st, colty2, order2, (part, ob, rev)

    if form == "order_nolimit":
        s = order_nolimit(s)
    elif form == "order_over_order":
        s = order_nolimit(order_nolimit(s))
    elif form == "order_limit":
        s = order_nolimit(s)
        s["limit"] = rng.choice([1, 2, 5])
    elif form in ("select_after_select", "select_after_drop", "ends_in_drop", "order_over_select") and len(order) > 1:
        if form == "select_after_drop":
            d = rng.sample(order, rng.randint(1, len(order) - 1))
            s = {"op": "drop_columns", "src": s, "columns": d}
            order = [c for c in order if c not in d]
        elif form == "ends_in_drop":
            d = rng.sample(order, rng.randint(1, len(order) - 1))
            s = {"op": "drop_columns", "src": s, "columns": d}
            order = [c for c in order if c not in d]
        else:
            k1 = rng.sample(order, rng.randint(1, len(order)))
            s = {"op": "select_columns", "src": s, "columns": k1}
            order = k1
        if form != "ends_in_drop":
            k2 = rng.sample(order, rng.randint(1, len(order)))
            if k2 == order and len(order) > 1:
                k2 = k2[::-1]
            s = {"op": "select_columns", "src": s, "columns": k2}
            order = k2
        colty = {c: colty[c] for c in order}
        if form == "order_over_select":
            s = order_nolimit(s)
    elif form in ("extend_plain", "order_over_extend"):
        s, colty, order = plain_extend(s, colty, order)
        if form == "order_over_extend":
            s = order_nolimit(s)
    elif form in ("extend_window", "extend_ordered"):
        s, colty, order, win = window_extend(s, colty, order, form == "extend_ordered")
    return form, s, colty, order, win


def prefix_term(node):
    n = node.node_name
    if n == "OrderRowsNode":
        return "(POrder %s %s)" % (prefix_term(node.sources[0]), "None" if node.limit is None else "(Some %d)" % int(node.limit))
    if n == "SelectColumnsNode":
        return "(PSelect %s %s)" % (prefix_term(node.sources[0]), c_strs(node.column_selection))
    if n == "DropColumnsNode":
        return "(PDrop %s %s)" % (prefix_term(node.sources[0]), c_strs(node.column_deletions))
    if n == "ExtendNode":
        return "(PExtend %s %s %s %s %s %s)" % (prefix_term(node.sources[0]), c_ops([(k, term_ast(v)) for k, v in node.ops.items()]), c_strs(node.partition_by),
                                             cbool(bool(node.windowed_situation)), c_strs(node.order_by), c_strs(node.reverse))
    return "(PNode %s)" % c_strs(node.column_names)


def prefix_shape(node):
    out = []
    while node.node_name in ("OrderRowsNode", "SelectColumnsNode", "DropColumnsNode", "ExtendNode"):
        out.append(node.node_name[:-4] + ("(limit)" if node.node_name == "OrderRowsNode" and node.limit is not None else ""))
        node = node.sources[0]
    return ">".join(out[:2]) + (">.." if len(out) > 2 else "") or "other"


# ------------------------------------------------------------------------------------------ one probe

# evaluation errors that mean "this step refers to a column that is not there" (a construction rule caught too late);
# operator-implementation errors of an executor (e.g. an aggregation Pandas lacks for ungrouped data) are outside C26
VALIDATION_MSG = re.compile(r"unknown col|asked for unknown|missing required col|not in index|no column|columns? .*not (found|in)|not in source column", re.I)


def outcome(base, step, b_ops, universe, term_form):
    try:
        r = apply_candidate(base, step, b_ops, universe, term_form)
        return ("accept", list(r.column_names), None), r
    except Exception as e:          # any exception raised by the builder is a rejection
        return ("reject", None, type(e).__name__), None


def c_result(o):
    return "Reject" if o[0] == "reject" else "(Accept %s)" % c_strs(o[1])


def b_script_for(step, prefix_script, pipes):
    if step["op"] == "natural_join":
        return {"op": "table", "name": step["b"]}
    sh = step["b_shape"]
    if sh == "same":
        return prefix_script
    if sh == "filtered":
        return {"op": "select_rows", "src": prefix_script, "expr": step["b_arg"]}
    if sh == "permuted":
        return {"op": "select_columns", "src": prefix_script, "columns": step["bcols"]}
    if sh == "dropped":
        return {"op": "drop_columns", "src": prefix_script, "columns": [step["b_arg"]]}
    return {"op": "extend", "src": prefix_script, "ops": {step["b_arg"]: "1"}}


class Probe:
    """one (prefix, step) pair run against the real builder and the three oracles"""

    def __init__(self, pipes, T, tables, prefix_script, step, term_form, meta=None):
        self.pipes, self.T, self.tables, self.ps, self.step, self.term_form = pipes, T, tables, prefix_script, step, term_form
        self.meta = meta or {}
        self.failures = []          # (what, signature)
        self.notes = []

    def run(self, evaluate=True):
        from data_algebra.data_ops import TableDescription
        pipes = self.pipes
        tmap = {t["name"]: t for t in self.tables}
        self.prefix = pipes.build(self.ps, tmap)
        try:
            self.prefix_text = " ".join(self.prefix.to_python(strict=True, pretty=False).split())
        except Exception:
            self.prefix_text = json.dumps(pipes.to_json(self.ps), sort_keys=True)
        cols = list(self.prefix.column_names)
        self.cols = cols
        step = self.step
        universe = sorted(set(cols) | set(self.meta.get("universe", [])) | set(re.findall(r"[A-Za-z_]\w*", json.dumps(step.get("ops", "")) + " " + str(step.get("expr", "")))))
        self.universe = universe
        finish_step(step, universe)
        b_ops = None
        if step["op"] in ("natural_join", "concat_rows"):
            b_ops = pipes.build(b_script_for(step, self.ps, pipes), tmap)
            step["bcols"] = list(b_ops.column_names)
        self.viol = violations(self.T, cols, step)
        bare = TableDescription(table_name="cur", column_names=cols)
        self.on_prefix, node = outcome(self.prefix, step, b_ops, universe, self.term_form)
        self.on_bare, _ = outcome(bare, step, b_ops, universe, self.term_form)
        real_accept = self.on_prefix[0] == "accept"
        sig_base = {"step": step["op"], "violated": "+".join(sorted(self.viol)), "real": self.on_prefix[0]}
        # (1) accepted iff no rule is violated
        if real_accept != (not self.viol):
            what = ("a step that violates a construction rule (%s) is accepted when it is added" % ", ".join(sorted(self.viol))) if real_accept else \
                   "a step that follows every rule is rejected (%s)" % self.on_prefix[2]
            self.failures.append((what, dict(sig_base, oracle="accept_iff_conforming")))
        # (3) independent of how the prefix was simplified
        same = self.on_prefix[0] == self.on_bare[0] and (self.on_prefix[0] == "reject" or sorted(self.on_prefix[1]) == sorted(self.on_bare[1]))
        if not same:
            self.failures.append(("the verdict on the prefix differs from the verdict on a bare table with the prefix's columns", dict(sig_base, oracle="independent_of_simplification", bare=self.on_bare[0])))
        # (2) an accepted step must not fail later with a column/validation error
        self.eval_error = None
        if evaluate and real_accept and node is not None and self.meta.get("evaluable", True):
            frames = {t["name"]: pipes.table_frame(t) for t in self.tables}
            try:
                pipes.eval_pandas(node, frames)
            except Exception as e:
                self.eval_error = "%s: %s" % (type(e).__name__, str(e)[:160])
                # a KeyError naming a column that IS declared is an executor problem, not a construction rule caught too late
                known_names = set(cols) | set(node.column_names)
                is_col = VALIDATION_MSG.search(str(e)) or (isinstance(e, KeyError) and e.args and isinstance(e.args[0], str) and e.args[0] not in known_names)
                if not self.viol and is_col:
                    try:                                   # is it the prefix that fails, not the step?
                        pipes.eval_pandas(self.prefix, frames)
                        prefix_ok = True
                    except Exception:
                        prefix_ok = False
                    if prefix_ok:
                        self.failures.append(("an accepted step fails later, at evaluation, with a validation error: " + self.eval_error, dict(sig_base, oracle="no_late_rejection")))
        return self

    def replay_dict(self, what):
        return {"kind": "impl-violation", "what": what, "tables": self.tables, "prefix_script": self.pipes.to_json(self.ps), "prefix": self.prefix_text,
                "prefix_columns": self.cols, "step": {k: v for k, v in self.step.items() if k != "ast"}, "term_form": self.term_form, "violated_rules": sorted(self.viol),
                "real_builder_on_prefix": list(self.on_prefix), "real_builder_on_bare_table": list(self.on_bare), "evaluation_error": self.eval_error}


def shrink_probe(pr, sig):
    """smaller prefix with the same failure: the bare table first, then ever shorter tails of the prefix script"""
    cand = []
    chain = []
    s = pr.ps
    while s["op"] != "table":
        chain.append(s)
        s = s["src"]
    base = s
    for keep in range(0, len(chain)):
        c = base
        ok = True
        for st in reversed(chain[:keep]):
            c = dict(st, src=c)
        cand.append(c)
    for c in cand:
        try:
            st = json.loads(json.dumps({k: v for k, v in pr.step.items() if k != "ast"}))
            p2 = Probe(pr.pipes, pr.T, pr.tables, c, st, pr.term_form, pr.meta).run()
        except Exception:
            continue
        if any(s2.get("oracle") == sig.get("oracle") for _, s2 in p2.failures):
            return p2
    return pr


def report(chk, pr):
    for what, sig in pr.failures:
        if any(lib.match_sig(f.get("signature", {}), sig) for f in chk.known):
            chk.impl_violation(what, pr.replay_dict(what), sig)          # a listed finding: counted, not shrunk
            continue
        small = shrink_probe(pr, sig)
        w2 = [w for w, s in small.failures if s.get("oracle") == sig.get("oracle")]
        chk.impl_violation(w2[0] if w2 else what, small.replay_dict(w2[0] if w2 else what), sig)


# ------------------------------------------------------------------------------------------ run

PRE = ("From Coq Require Import List Bool String.\nImport ListNotations.\nOpen Scope string_scope.\n"
       "From DA Require Import Base.PyRT Base.Cases Model.Builder Model.BuilderCases.\nOpen Scope list_scope.\n")


def tables_preamble(T):
    """the tables read from /repo, compiled once (cases/C26tables.vo) and imported by every case file"""
    cdir = os.path.join(lib.COQ, "cases")
    os.makedirs(cdir, exist_ok=True)
    base = os.path.join(cdir, "C26tables")
    with open(base + ".v", "w") as f:
        f.write(PRE + "Definition T0 := %s.\n" % c_tables(T))
    rc, out, _ = lib.sh("coqc -Q theories DA -Q cases DAcases cases/C26tables.v", cwd=lib.COQ, timeout=300)

    def cleanup():
        for ext in (".v", ".vo", ".vok", ".vos", ".glob"):
            try:
                os.remove(base + ext)
            except OSError:
                pass
        try:
            os.remove(os.path.join(cdir, ".C26tables.aux"))
        except OSError:
            pass
    if rc != 0:                      # fall back to an inline definition (slower, same meaning)
        return PRE + "Definition T0 := %s.\n" % c_tables(T), cleanup
    return PRE + "From DAcases Require Import C26tables.\n", cleanup


def gen_case(chk, pipes, T):
    rng = chk.rng
    d1 = pipes.gen_table(rng, "d1", ncols=rng.randint(3, 5), nrows=rng.choice([2, 3, 4, 5]), null_rate=0.1)
    # the right-hand table shares some columns (same types) with d1 and has columns of its own
    shared = [cs for cs in d1["spec"] if rng.random() < 0.5]
    own = [(n, rng.choice(["int", "float"])) for n in rng.sample(["p", "q", "r"], rng.randint(1, 2))]
    spec2 = shared + own
    rng.shuffle(spec2)
    d2 = {"name": "d2", "spec": spec2, "rows": [[pipes.gen_value(rng, ty, 0.1) for _, ty in spec2] for _ in range(rng.choice([2, 3, 4]))]}
    tables = [d1, d2]
    form, ps, colty, order, win = gen_prefix(rng, pipes, tables)
    tmap = {t["name"]: t for t in tables}
    try:
        prefix = pipes.build(ps, tmap)
    except Exception as e:
        chk.dist("prefix_rejected:" + type(e).__name__)
        return None
    cols = list(prefix.column_names)
    for c in cols:
        colty.setdefault(c, "float")
    extra = sorted((upstream_names(ps) | {c for c, _ in d1["spec"]} | {c for c, _ in d2["spec"]}) - set(cols))
    sg = StepGen(rng, cols, colty, extra, win_hint=win, prefer_one=form in ("extend_plain", "order_over_extend"))
    kind = rng.choice(KIND_WEIGHTS)
    want = rng.choice(KINDS[kind])
    if kind == "extend":
        step = sg.extend(want)
    elif kind == "project":
        step = sg.project(want)
    elif kind == "select_rows":
        step = sg.select_rows(want)
    elif kind == "select_columns":
        step = sg.select_columns(want)
    elif kind == "drop_columns":
        step = sg.drop_columns(want)
    elif kind in ("rename_columns", "map_columns"):
        step = sg.rename_like(want, kind)
    elif kind == "order_rows":
        step = sg.order_rows(want)
    elif kind == "natural_join":
        step = sg.natural_join(want, ("d2", d2["spec"]))
    else:
        step = sg.concat_rows(want)
    term_form = kind in ("extend", "project", "select_rows") and rng.random() < 0.3
    evaluable = not (kind == "natural_join" and not step.get("types_ok", True))
    return Probe(pipes, T, tables, ps, step, term_form, {"universe": sg.universe, "form": form, "want": want, "evaluable": evaluable})


def run(chk):
    import pipes, time
    n = N[chk.tier]
    t0 = time.time()
    chk.prove(["G_MergeOps"], extra_vo=["theories/Model/BuilderCases.vo"])
    timing = chk.cov.setdefault("timing_s", {})
    timing["prove"] = round(time.time() - t0, 1)
    t0 = time.time()
    chk.cov["trusted_base"] = [
        "Coq 8.16.1 kernel + vm_compute",
        "hand model Model/Builder.v of the validation in view_representations.py (builder methods + node constructors) and expr_parse.parse_assignments_in_context; "
        "fidelity sampled on every run (accept/reject and new column_names on the prefix as built and on a bare table, compared inside Coq)",
        "tools/py2v.py translator (data_ops_utils.try_to_merge_ops -> Gen/G_MergeOps.v, used by the model of extend merging)",
        "the lark parser is used as the source of expression trees (its unknown-symbol test is modelled by the constructors' unknown-column test)",
        "fn_names_* sets and op_catalog classes are inputs read from /repo at run time (theorems hold for every such table)",
        "forwarded arguments of the skip-trivial-node calls are read from the source text with `ast` and compared with Builder.forwarded_args",
        "evaluation oracle: Pandas 3.0.5 on small frames"]
    chk.assumptions = ["the prefix is a valid pipeline: distinct, non-empty declared columns (NoDup cols, cols <> []); the right operand of join/concat likewise",
                       "dictionary arguments have distinct keys (Python dict); an extend has at least one assignment (otherwise the builder returns the prefix unchanged)",
                       "guard of the known finding: in a windowed extend / a project every operator application at the top of an assignment is catalogued as a window / aggregation function "
                       "(the builder has no such table: Props/C26.v C26_rejects_iff_rule_violated_refuted)"]
    chk.cov["rule"] = ("random valid prefixes (pipes.Gen, 0-3 steps over two random tables) forced to end in: a table, a random step, order_rows without/with limit (also doubled, and over "
                       "extend/select), select after select, select after drop, drop, plain extend, windowed extend, ordered-window extend; x one candidate step of every kind "
                       "(extend, project, select_rows, select/drop/rename/map columns, order_rows, natural_join, concat_rows), conforming or aimed at one named rule in one argument position; "
                       "30% of expression steps pass parsed terms instead of text; non-trivial = prefix with >= 1 step or a violating step; distinct by content")
    T = read_tables()
    chk.cov["tables_read_from_repo"] = {k: len(v) for k, v in T.items()}
    fwd = forwarding_calls()
    chk.cov["forwarding_calls"] = [{"method": m, "calls": c, "args": a} for m, c, a in fwd]
    probes = []
    # corpus first
    ncorp = 0
    for f in sorted(glob.glob(os.path.join(lib.ROOT, "corpus", "C26", "*.json"))):
        r = json.load(open(f))
        try:
            pr = Probe(pipes, T, r["tables"], r["prefix_script"], r["step"], r.get("term_form", False), {"form": "corpus", "want": "corpus"}).run()
        except Exception as e:
            chk.corr_break("corpus case %s could not be run: %r" % (os.path.basename(f), e), r)
            continue
        probes.append(pr)
        ncorp += 1
    chk.cov["corpus_cases"] = ncorp
    tries = 0
    while len(probes) < n + ncorp and tries < n * 3:
        tries += 1
        pr = gen_case(chk, pipes, T)
        if pr is None:
            continue
        try:
            pr.run()
        except Exception as e:
            chk.dist("generator_error:" + type(e).__name__)
            continue
        probes.append(pr)
    timing["generate_and_run_real_builder"] = round(time.time() - t0, 1)
    t0 = time.time()
    terms, meta = [], []
    aimed_hit = aimed = 0
    for i, pr in enumerate(probes):
        st = pr.step
        key = (pr.prefix_text, json.dumps({k: v for k, v in st.items() if k != "ast"}, sort_keys=True, default=str), pr.term_form)
        chk.count(key, nontrivial=(pr.ps["op"] != "table" or bool(pr.viol)))
        chk.dist("form:" + pr.meta.get("form", "?"))
        chk.dist("shape:" + prefix_shape(pr.prefix))
        chk.dist("step:%s:%s" % (st["op"], pr.on_prefix[0]))
        for r in (pr.viol or {"conforming"}):
            chk.dist("rule:" + r)
        if pr.on_prefix[0] == "reject":
            chk.dist("exception:" + pr.on_prefix[2])
        if pr.eval_error:
            chk.dist("eval_error:" + pr.eval_error.split(":")[0])
        want = pr.meta.get("want")
        if want not in (None, "corpus"):
            aimed += 1
            aimed_hit += (want in CONFORMING_AIMS) == (not pr.viol) and (want in CONFORMING_AIMS or AIM_RULE.get(want, want) in pr.viol)
        if i < 5:
            chk.sample({"prefix": pr.prefix_text, "step": {k: v for k, v in st.items() if k != "ast"}, "violated": sorted(pr.viol), "builder": pr.on_prefix[0], "columns": pr.on_prefix[1]})
        if pr.failures:
            report(chk, pr)
        d = {"prefix": pr.prefix_text, "prefix_columns": pr.cols, "step": {k: v for k, v in st.items() if k != "ast"}, "term_form": pr.term_form}
        terms.append("(%s, %s, %s, %s)" % (prefix_term(pr.prefix), c_strs(pr.cols), c_step(st), c_result(pr.on_prefix)))
        meta.append(dict(d, on="prefix", observed=list(pr.on_prefix)))
        if pr.prefix.node_name in ("OrderRowsNode", "SelectColumnsNode", "DropColumnsNode", "ExtendNode"):     # otherwise the same case again
            terms.append("(PNode %s, %s, %s, %s)" % (c_strs(pr.cols), c_strs(pr.cols), c_step(st), c_result(pr.on_bare)))
            meta.append(dict(d, on="bare table", observed=list(pr.on_bare)))
    chk.cov["generator_aim"] = {"aimed": aimed, "hit": aimed_hit}
    chk.cov["oracle"] = {"accept_iff_conforming": len(probes), "independent_of_simplification": len(probes),
                         "no_late_rejection_evaluated": sum(1 for p in probes if p.on_prefix[0] == "accept" and p.meta.get("evaluable", True)),
                         "probes_failing_some_oracle": sum(1 for p in probes if p.failures),
                         "conforming_steps": sum(1 for p in probes if not p.viol), "violating_steps": sum(1 for p in probes if p.viol)}
    timing["oracle_reports_and_shrinking"] = round(time.time() - t0, 1)
    t0 = time.time()
    if os.path.exists(os.path.join(lib.COQ, "theories/Model/BuilderCases.vo")):
        pre, cleanup = tables_preamble(T)
        failing, errors, nchecked = lib.run_case_files("C26", pre, terms, "check_cases T0", per_file=400, timeout=900 if chk.tier == "quick" else 3000)
        cleanup()
        chk.cov["correspondence"] = {"what": "apply_step (Model/Builder.v) vs the real builder: accept/reject + column_names, on the prefix as built and on a bare table",
                                     "cases": len(terms), "checked_in_coq": nchecked, "disagreements": len(failing), "errors": errors[:2]}
        chk.cov["traces_validated_against_impl"] = nchecked
        timing["coq_case_files"] = round(time.time() - t0, 1)
        if errors:
            chk.corr_break("correspondence case files failed to compile", errors[0])
        for i in failing[:3]:
            chk.corr_break("Model/Builder.v disagrees with the real builder", meta[i])
        if failing and not chk.violations:
            search_after_break(chk, pipes, T, [meta[i] for i in failing[:10]])
        # forwarded arguments (structural tie)
        fterms = ["(%s, %s)" % (cstr(m), c_strs(a)) for m, c, a in fwd]
        f2, e2, n2 = lib.run_case_files("C26f", PRE, fterms, "check_fwd", per_file=300)
        chk.cov["correspondence_forwarding"] = {"calls_found": len(fterms), "checked_in_coq": n2, "disagreements": len(f2), "errors": e2[:1]}
        if e2:
            chk.corr_break("forwarding case file failed to compile", e2[0])
        elif f2:
            bad = [fwd[i] for i in f2 if i < len(fwd)]
            chk.corr_break("a builder method forwards other arguments than Builder.forwarded_args when it skips a trivial node", {"calls": bad, "missing_method": len(bad) < len(f2)})
            if not chk.violations:
                search_after_break(chk, pipes, T, [])
    else:
        chk.corr_break("Model/BuilderCases.vo not built", "")
    if not getattr(chk, "proof_ok", True) and not chk.violations:
        search_after_break(chk, pipes, T, [])


def search_after_break(chk, pipes, T, disagreeing):
    """a proof or correspondence broke: look for a concrete failing input of the property (the oracles above already ran on
    every generated case, including the disagreeing ones); a larger fresh search"""
    for _ in range(4000 if chk.tier == "quick" else 20000):
        pr = gen_case(chk, pipes, T)
        if pr is None:
            continue
        try:
            pr.run(evaluate=False)
        except Exception:
            continue
        if pr.failures:
            before = len(chk.violations)
            report(chk, pr)
            if len(chk.violations) > before:
                return


def replay(path):
    import pipes
    r = json.load(open(path))
    if "prefix_script" in r and "step" in r:
        T = read_tables()
        pr = Probe(pipes, T, r["tables"], r["prefix_script"], r["step"], r.get("term_form", False)).run()
        print("prefix:", pr.prefix_text)
        print("declared columns:", pr.cols)
        print("step:", {k: v for k, v in pr.step.items() if k != "ast"})
        print("rules violated (from the declared columns):", sorted(pr.viol))
        print("real builder on the prefix:", pr.on_prefix, " on a bare table:", pr.on_bare, " evaluation error:", pr.eval_error)
        for w, s in pr.failures:
            print("FAILS:", w)
        return 1 if pr.failures else 0
    print(json.dumps(r, indent=1)[:3000])
    return 1
