"""C22 -- schema-check decorators raise exactly on schema violations.
proof: Props/C22.v about the hand model Model/Schema.v (abstract universe of types)
tie:   correspondence: random specifications x calls on the real decorator and on the model (vm_compute)
oracle: an independent Python reading of the property text"""
import json, os, warnings
import lib
from lib import clist, cstr, cbool, copt

warnings.filterwarnings("ignore")
N = {"quick": 2500, "thorough": 50000}
TYPES = [int, float, str, bool]
EXAMPLES = {0: [1, -3, 0], 1: [2.5, -1.0], 2: ["a", "", "xy"], 3: [True, False]}


def tid(v):
    return {bool: 3, int: 0, float: 1, str: 2}[type(v)]


# ---- generation: raw specs as tagged trees ("none" | ("type", t) | ("ex", value) | ("set", [...]) | ("frame", {col: colspec}))
def gen_col(rng, allow_set=True):
    r = rng.random()
    if r < 0.15:
        return ("none",)
    if r < 0.5:
        return ("type", rng.randrange(4))
    if r < 0.7:
        t = rng.randrange(4)
        return ("ex", rng.choice(EXAMPLES[t]))
    if not allow_set:
        return ("type", rng.randrange(4))
    elems = []
    for _ in range(rng.randint(1, 3)):
        q = rng.random()
        if q < 0.15:
            elems.append(("none",))
        elif q < 0.6:
            elems.append(("type", rng.randrange(4)))
        else:
            t = rng.randrange(4)
            elems.append(("ex", rng.choice(EXAMPLES[t])))
    return ("set", norm_set(elems))


def norm_set(elems):
    """a Python set keeps one of several equal elements (False == 0, True == 1, 1 == 1.0): keep the first, as
    the set comprehension in to_py does, so the tagged tree describes the specification the decorator really gets"""
    kept, seen = [], set()
    for e in elems:
        v = to_py(e)
        if v in seen:
            continue
        seen.add(v)
        kept.append(e)
    return kept


def gen_spec(rng):
    if rng.random() < 0.3:
        return ("frame", {c: gen_col(rng) for c in rng.sample(["x", "y", "z"], rng.randint(1, 2))})
    return gen_col(rng)


def to_py(s):
    if s[0] == "none":
        return None
    if s[0] == "type":
        return TYPES[s[1]]
    if s[0] == "ex":
        return s[1]
    if s[0] == "set":
        return {to_py(e) for e in s[1]}
    return {c: to_py(v) for c, v in s[1].items()}


def gen_value(rng):
    r = rng.random()
    if r < 0.12:
        return ("none",)
    if r < 0.6:
        t = rng.randrange(4)
        return ("atom", rng.choice(EXAMPLES[t]))
    cols = {}
    nrows = rng.choice([0, 1, 2, 3])
    for c in rng.sample(["x", "y", "z", "w"], rng.randint(1, 3)):
        t = rng.randrange(4)
        if nrows >= 2 and rng.random() < 0.35:
            # cells that are == to each other but of DIFFERENT types (1 == 1.0 == True, 0 == 0.0 == False): every cell must be
            # checked on its own type, an earlier equal cell of a declared type excuses nothing
            pool = rng.choice([[1, 1.0, True], [0, 0.0, False], [1, 1.0, True, 2, 2.0]])
            cols[c] = [rng.choice(pool) for _ in range(nrows)]
            continue
        cols[c] = [None if rng.random() < 0.2 else rng.choice(EXAMPLES[t if rng.random() < 0.8 else rng.randrange(4)]) for _ in range(nrows)]
    # how a missing cell is represented in the frame: every one of these is a null cell (pd.isnull), never a value of a wrong type
    return ("frame", cols, rng.choice(["None", "None", "nan", "NA", "NaT"]))


NULL_OBJECTS = {"None": lambda: None, "nan": lambda: float("nan"), "NA": lambda: __import__("pandas").NA, "NaT": lambda: __import__("pandas").NaT}


def val_py(v):
    import pandas as pd
    if v[0] == "none":
        return None
    if v[0] == "atom":
        return v[1]
    null = NULL_OBJECTS[v[2] if len(v) > 2 else "None"]
    return pd.DataFrame({c: pd.Series([null() if x is None else x for x in cells], dtype=object) for c, cells in v[1].items()})


def run_impl(switch, arg_specs, ret_spec, pos, kw):
    from data_algebra.data_schema import SchemaRaises, SchemaCheckSwitch
    sw = SchemaCheckSwitch()
    try:
        deco = SchemaRaises(None if arg_specs is None else {k: to_py(s) for k, s in arg_specs.items()},
                            return_spec=None if ret_spec is None else to_py(ret_spec))

        @deco
        def fn(a=None, b=None, c=None, r=None):
            return r
        (sw.on if switch else sw.off)()
        try:
            res = fn(*[val_py(v) for v in pos], **{k: val_py(v) for k, v in kw.items()})
            expected_r = val_py(pos[3]) if len(pos) > 3 else (val_py(kw["r"]) if "r" in kw else None)
            same = (res is None and expected_r is None) or (res is not None and expected_r is not None and
                                                            (res.equals(expected_r) if hasattr(res, "equals") else res == expected_r))
            return 0 if same else 3
        except TypeError:
            return 1
        except Exception:
            return 2
    finally:
        sw.on()


# ---- independent oracle from the property text
def isinst(v, t):
    return isinstance(v, TYPES[t])


def col_types(s):
    """declared types of a column/plain spec; None = unconstrained"""
    if s[0] == "none":
        return None
    if s[0] == "type":
        return {s[1]}
    if s[0] == "ex":
        return {tid(s[1])}
    out = set()
    for e in s[1]:
        if e[0] == "type":
            out.add(e[1])
        elif e[0] == "ex":
            out.add(tid(e[1]))
    return out


def violates(s, v, null_arg_is_violation):
    if s[0] == "frame":
        if v[0] != "frame":
            return True
        for c, cs in s[1].items():
            if c not in v[1]:
                return True
            ts = col_types(cs)
            if ts is None:
                continue
            for cell in v[1][c]:
                if cell is not None and not any(isinst(cell, t) for t in ts):
                    return True
        return False
    ts = col_types(s)
    if ts is None:
        return False
    if v[0] == "atom":
        return not any(isinst(v[1], t) for t in ts)
    if v[0] == "none":
        return null_arg_is_violation
    return True


def expected(switch, arg_specs, ret_spec, pos, kw, null_arg_is_violation):
    if not switch:
        return 0
    names = ["a", "b", "c", "r"]
    given = dict(zip(names, pos))
    given.update(kw)
    for k, s in (arg_specs or {}).items():
        if k not in given or violates(s, given[k], null_arg_is_violation):
            return 1
    if ret_spec is not None:
        r = given.get("r", ("none",))
        if violates(ret_spec, r, null_arg_is_violation):
            return 1
    return 0


# ---- Coq terms
def c_elem(e):
    return "ENone" if e[0] == "none" else ("EType %d" % e[1] if e[0] == "type" else "EExample %d" % tid(e[1]))


def c_col(s):
    if s[0] == "none":
        return "RNone"
    if s[0] == "type":
        return "(RType %d)" % s[1]
    if s[0] == "ex":
        return "(RExample %d)" % tid(s[1])
    return "(RSet %s)" % clist([c_elem(e) for e in s[1]])


def c_spec(s):
    if s[0] == "frame":
        return "(RFrame %s)" % clist(["(%s, %s)" % (cstr(c), c_col(v)) for c, v in s[1].items()])
    return "(RPlain %s)" % c_col(s)


def c_val(v):
    if v[0] == "none":
        return "VNone"
    if v[0] == "atom":
        return "(VAtom %d)" % tid(v[1])
    return "(VFrame %s)" % clist(["(%s, %s)" % (cstr(c), clist(["None" if x is None else "(Some %d)" % tid(x) for x in cells])) for c, cells in v[1].items()])


def fixed_cases():
    """run on every run: a column declared with ONE type whose first cell has it and whose later cell is ==-equal but of another type
    (1 / 1.0 / True, 0 / 0.0 / False), in argument and in return position, every representation of a missing cell in between; and the
    same cells in the conforming order of types (set specifications).  Each cell is to be judged on its own type."""
    out = []
    I, F, S, B = 0, 1, 2, 3
    cols = [(I, [1, 1.0]), (I, [0, None, 0.0]), (I, [2, 3, 2.0]), (F, [1.0, 1]), (F, [0.0, False]), (F, [2.5, 2.0, None, 2]),
            (B, [True, 1]), (B, [False, 0.0]), (B, [True, None, 1.0]), (S, ["a", "a", 1])]
    for k, (t, cells) in enumerate(cols):
        nullkind = ["None", "nan", "NA", "NaT"][k % 4]
        frame = ("frame", {"x": list(cells)}, nullkind)
        spec = ("frame", {"x": ("type", t)})
        out.append((True, {"a": spec}, None, [frame], {}))                       # argument, positional
        out.append((True, {"a": spec}, None, [], {"a": frame}))                  # argument, keyword
        out.append((True, {}, spec, [], {"r": frame}))                           # return value
        both = ("frame", {"x": ("set", norm_set([("type", t), ("type", tid(cells[-1]) if cells[-1] is not None else t)]))})
        out.append((True, {"a": both}, None, [frame], {}))                       # both types declared: conforming
        out.append((False, {"a": spec}, None, [frame], {}))                      # switch off: returns
    # conforming columns with a missing cell in each representation (None, NaN, pd.NA, pd.NaT): a missing cell is never a type error
    for t, cells in ((I, [1, None, 2]), (S, ["a", None]), (F, [None, 2.5]), (B, [True, None, False])):
        for nullkind in ("None", "nan", "NA", "NaT"):
            frame = ("frame", {"x": list(cells)}, nullkind)
            out.append((True, {"a": ("frame", {"x": ("type", t)})}, None, [frame], {}))
            out.append((True, {}, ("frame", {"x": ("type", t)}), [], {"r": frame}))
    return out


def run(chk):
    rng = chk.rng
    n = N[chk.tier]
    chk.prove([], extra_vo=["theories/Model/SchemaCases.vo"])
    chk.cov["trusted_base"] = ["Coq 8.16.1 kernel + vm_compute", "hand model Model/Schema.v of data_schema.py (_prep_schema_specification, _check_spec, _check_data_frame_matches_schema, check_args, check_return, switch)",
                               "isinstance over the universe {int, float, str, bool} (bool a subclass of int); pandas iteration yields Python scalars; pd.isnull for cells (missing cells are generated as None, float NaN, pd.NA and pd.NaT)",
                               "correspondence harness harness/props/C22.py (frames built with dtype=object so cells keep their Python types)"]
    chk.assumptions = ["specifications contain types, example values, None, one level of sets, and one level of column dicts (as the module asserts)",
                       "calls pass at most as many positional arguments as the function has parameters, and no argument both positionally and by keyword"]
    chk.cov["rule"] = ("random decorator specifications (per argument: none/type/example/set of those/column dict; optional return spec; 10% no arg specs) x random calls "
                       "(0-3 positional + keyword arguments incl. missing ones, values None/scalar/frame with nulls, empty frames) x switch on/off (15% off); "
                       "non-trivial = at least one constrained argument; distinct by content")
    terms, meta = [], []
    fixed = fixed_cases()
    for i in range(n + len(fixed)):
        if i < len(fixed):
            switch, arg_specs, ret_spec, pos, kw = fixed[i]
        else:
            switch = rng.random() > 0.15
            arg_specs = None if rng.random() < 0.1 else {k: gen_spec(rng) for k in rng.sample(["a", "b", "c"], rng.randint(0, 3))}
            ret_spec = gen_spec(rng) if rng.random() < 0.4 else None
            npos = rng.randint(0, 3)
            pos = [gen_value(rng) for _ in range(npos)]
            kw = {}
            for k in ["a", "b", "c", "r"][npos:]:
                if rng.random() < 0.75:
                    kw[k] = gen_value(rng)
        # bias towards conforming calls: half of the time re-draw values to fit the declared types
        if i >= len(fixed) and rng.random() < 0.5 and arg_specs:
            names = ["a", "b", "c", "r"]
            for k, s in arg_specs.items():
                ts = col_types(s) if s[0] != "frame" else None
                if s[0] != "frame" and ts:
                    v = ("atom", rng.choice(EXAMPLES[rng.choice(sorted(ts))]))
                    idx = names.index(k)
                    if idx < npos:
                        pos[idx] = v
                    else:
                        kw[k] = v
        obs = run_impl(switch, arg_specs, ret_spec, pos, kw)
        case = {"switch": switch, "arg_specs": arg_specs, "return_spec": ret_spec, "positional": pos, "keywords": kw, "observed": ["returned", "TypeError", "other exception", "returned a different value"][obs]}
        chk.count(json.dumps(case, sort_keys=True, default=str), nontrivial=bool(arg_specs) or ret_spec is not None)
        chk.dist("outcome:" + case["observed"] + (":off" if not switch else ""))
        if i < 3:
            chk.sample(case)
        e_strict = expected(switch, arg_specs, ret_spec, pos, kw, False)      # letter of the property: only non-null values can violate
        e_null = expected(switch, arg_specs, ret_spec, pos, kw, True)        # None for a typed argument counted as a violation
        if obs != e_strict:
            if obs == e_null and obs == 1:
                chk.impl_violation("TypeError for a None argument of a typed parameter", {"kind": "impl-violation", **case, "expected": "returned"}, {"cause": "null_argument_of_typed_parameter"})
            else:
                chk.impl_violation("wrapper outcome differs from the schema reading of the call", {"kind": "impl-violation", **case, "expected": ["returned", "TypeError"][e_strict]}, {"cause": "other"})
        terms.append("mkcase %s %s %s %s %s %d" % (
            cbool(switch), "None" if arg_specs is None else "(Some %s)" % clist(["(%s, %s)" % (cstr(k), c_spec(s)) for k, s in arg_specs.items()]),
            "None" if ret_spec is None else "(Some %s)" % c_spec(ret_spec), clist([c_val(v) for v in pos]),
            clist(["(%s, %s)" % (cstr(k), c_val(v)) for k, v in kw.items()]), min(obs, 2)))
        meta.append(case)
    if os.path.exists(os.path.join(lib.COQ, "theories/Model/SchemaCases.vo")):
        pre = ("From Coq Require Import List Bool String.\nImport ListNotations.\nOpen Scope string_scope.\n"
               "From DA Require Import Base.PyRT Base.Cases Model.Schema Model.SchemaCases.\nOpen Scope list_scope.\n")
        failing, errors, nchecked = lib.run_case_files("C22", pre, terms, "check_cases", per_file=400)
        chk.cov["correspondence"] = {"cases": len(terms), "checked_in_coq": nchecked, "disagreements": len(failing), "errors": errors[:2]}
        chk.cov["traces_validated_against_impl"] = nchecked
        if errors:
            chk.corr_break("correspondence case files failed to compile", errors[0])
        for i in failing[:3]:
            chk.corr_break("Model/Schema.v disagrees with data_schema.py", meta[i])
    else:
        chk.corr_break("Model/SchemaCases.vo not built", "")


def replay(path):
    r = json.load(open(path))
    if "arg_specs" in r:
        def tup(x):
            if isinstance(x, list) and x and isinstance(x[0], str) and x[0] in ("none", "type", "ex", "set", "frame", "atom"):
                if x[0] == "set":
                    return ("set", norm_set([tup(e) for e in x[1]]))
                if x[0] == "frame" and isinstance(x[1], dict):
                    return ("frame", {c: (tup(v) if (isinstance(v, list) and v and v[0] in ("none", "type", "ex", "set")) else v) for c, v in x[1].items()}) + tuple(x[2:])
                return tuple(x)
            return x
        specs = None if r["arg_specs"] is None else {k: tup(v) for k, v in r["arg_specs"].items()}
        ret = None if r["return_spec"] is None else tup(r["return_spec"])
        pos = [tup(v) for v in r["positional"]]
        kw = {k: tup(v) for k, v in r["keywords"].items()}
        obs = run_impl(r["switch"], specs, ret, pos, kw)
        exp = expected(r["switch"], specs, ret, pos, kw, False)
        print("observed", obs, "expected", exp)
        return 0 if obs == exp else 1
    print(json.dumps(r, indent=1)[:3000])
    return 1
