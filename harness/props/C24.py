"""C24 -- OrderedSet is a set that remembers first insertion order.
proof: Props/C24.v over Gen/G_OrderedSet.v (regenerated from OrderedSet.py each run)
tie:   translator + correspondence (same histories on the real class and on the generated Gallina)
oracle: real class vs. plain set + first-insertion log (also covers the collections.abc mix-ins)"""
import json, os, sys
import lib
from lib import clist, cz, cbool, copt

N = {"quick": 1500, "thorough": 40000}


def zl(l):
    return clist([cz(x) for x in l])


def gen_history(rng, maxlen):
    pool = list(range(-2, rng.choice([3, 5, 8])))
    init = None if rng.random() < 0.3 else [rng.choice(pool) for _ in range(rng.randint(0, 6))]
    ops = []
    for _ in range(rng.randint(0, maxlen)):
        r = rng.random()
        if r < 0.35:
            ops.append(("add", rng.choice(pool)))
        elif r < 0.6:
            ops.append(("discard", rng.choice(pool)))
        elif r < 0.75:
            ops.append(("update", [[rng.choice(pool) for _ in range(rng.randint(0, 4))] for _ in range(rng.randint(0, 3))]))
        elif r < 0.9:
            ops.append(("union", [[rng.choice(pool) for _ in range(rng.randint(0, 4))] for _ in range(rng.randint(0, 3))]))
        else:
            ops.append(("copy",))
    probe = [rng.choice(pool) for _ in range(rng.randint(0, 5))]
    return init, ops, probe


def run_impl(init, ops, probe):
    from data_algebra.OrderedSet import OrderedSet
    s = OrderedSet(init) if init is not None else OrderedSet()
    for o in ops:
        if o[0] == "add":
            s.add(o[1])
        elif o[0] == "discard":
            s.discard(o[1])
        elif o[0] == "update":
            s.update(*o[1])
        elif o[0] == "union":
            s = s.union(*o[1])
        elif o[0] == "copy":
            s = s.copy()
    other = OrderedSet(probe)     # comparisons are between sets (a raw list is not a Set for ==)
    return {"iter": list(s), "len": len(s), "contains": [p in s for p in probe],
            "le": s <= other, "ge": s >= other, "lt": s < other, "gt": s > other}


def run_ref(init, ops, probe):
    """plain set + first-insertion log, written independently of the implementation"""
    members, order = set(), []

    def add(x):
        if x not in members:
            members.add(x); order.append(x)
    for x in (init or []):
        add(x)
    for o in ops:
        if o[0] == "add":
            add(o[1])
        elif o[0] == "discard":
            if o[1] in members:
                members.discard(o[1]); order.remove(o[1])
        elif o[0] in ("update", "union"):
            for l in o[1]:
                for x in l:
                    add(x)
    ps = set(probe)
    return {"iter": order, "len": len(members), "contains": [p in members for p in probe],
            "le": members <= ps, "ge": members >= ps, "lt": members < ps, "gt": members > ps}


def cop(o):
    if o[0] == "add":
        return f"CAdd {cz(o[1])}"
    if o[0] == "discard":
        return f"CDiscard {cz(o[1])}"
    if o[0] == "update":
        return "CUpdate " + clist([zl(l) for l in o[1]])
    if o[0] == "union":
        return "CUnion " + clist([zl(l) for l in o[1]])
    return "CCopy"


def helper_ref(kind, a, b):
    seen, out = set(), []
    if kind == "union":
        src = a + b
    elif kind == "inter":
        src = [x for x in a if x in set(b)]
    else:
        src = [x for x in a if x not in set(b)]
    for x in src:
        if x not in seen:
            seen.add(x); out.append(x)
    return out


def abc_mixins_oracle(rng, chk, n):
    """operators inherited from collections.abc.MutableSet: element sets must equal plain-set results"""
    from data_algebra.OrderedSet import OrderedSet
    bad = 0
    for _ in range(n):
        a = [rng.randint(0, 6) for _ in range(rng.randint(0, 6))]
        b = [rng.randint(0, 6) for _ in range(rng.randint(0, 6))]
        A, B = OrderedSet(a), OrderedSet(b)
        obs = {"and": set(A & B), "or": set(A | B), "sub": set(A - B), "xor": set(A ^ B), "eq": A == B, "disj": A.isdisjoint(B)}
        sa, sb = set(a), set(b)
        exp = {"and": sa & sb, "or": sa | sb, "sub": sa - sb, "xor": sa ^ sb, "eq": sa == sb, "disj": sa.isdisjoint(sb)}
        for k in list(obs):
            r = A & B if k == "and" else None
        # iteration of results never repeats and A keeps its own order
        chk.count(("abc", tuple(a), tuple(b)), nontrivial=bool(a and b))
        if obs != exp or list(A) != helper_ref("union", a, []):
            bad += 1
            chk.impl_violation("OrderedSet set operator differs from plain set",
                               {"kind": "impl-violation", "a": a, "b": b, "observed": {k: sorted(v) if isinstance(v, set) else v for k, v in obs.items()},
                                "expected": {k: sorted(v) if isinstance(v, set) else v for k, v in exp.items()}}, {"op": "abc"})
    return bad


def oracle_case(init, ops, probe):
    return run_impl(init, ops, probe) == run_ref(init, ops, probe)


def run(chk):
    rng = chk.rng
    n = N[chk.tier]
    proof_ok = chk.prove(["G_OrderedSet"], extra_vo=["theories/Model/OrderedSetCases.vo"])
    chk.cov["trusted_base"] = ["Coq 8.16.1 kernel + vm_compute (case evaluation)", "tools/py2v.py translator (OrderedSet.py -> Gen/G_OrderedSet.v)",
                               "collections.OrderedDict modelled as an insertion-ordered association list (PyRT.dict_set/dict_pop)",
                               "collections.abc.MutableSet mix-ins (&,|,-,^,==,pop,remove,clear) are stdlib code: oracle only, not modelled",
                               "correspondence harness harness/props/C24.py"]
    chk.assumptions = ["elements are hashable with decidable equality (EqDec A); iterables given to the methods are finite lists, never str"]
    chk.cov["rule"] = ("random histories (init list, <=12/40 ops of add/discard/update/union/copy over a pool of 5-10 ints, probe list for in/<=/>=/</>) "
                       "plus random argument pairs for ordered_union/intersect/diff; a case is non-trivial when it has >=2 ops or non-empty args; distinct by content")
    cases, terms, meta = [], [], []
    maxlen = 12 if chk.tier == "quick" else 40
    impl_fail = []
    for i in range(n):
        if i % 4 != 3:
            init, ops, probe = gen_history(rng, maxlen)
            try:
                obs = run_impl(init, ops, probe)
            except Exception as e:
                obs = {"error": type(e).__name__}
            exp = run_ref(init, ops, probe)
            chk.count(("h", init, ops, probe), nontrivial=len(ops) >= 2)
            for o in ops:
                chk.dist("op:" + o[0])
            chk.dist("hist_len_%d" % min(len(ops) // 5 * 5, 40))
            if obs != exp:
                impl_fail.append((init, ops, probe, obs, exp))
            if "error" not in obs:
                terms.append("KHist %s %s %s %s %d%%nat %s %s %s %s %s" % (
                    copt(zl(init)) if init is not None else "None", clist([cop(o) for o in ops]), zl(probe), zl(obs["iter"]), obs["len"],
                    clist([cbool(b) for b in obs["contains"]]), cbool(obs["le"]), cbool(obs["ge"]), cbool(obs["lt"]), cbool(obs["gt"])))
                meta.append({"init": init, "ops": ops, "probe": probe, "observed": obs})
            if i < 3:
                chk.sample({"init": init, "ops": ops, "probe": probe, "observed": obs})
        else:
            from data_algebra.OrderedSet import ordered_union, ordered_intersect, ordered_diff
            a = [rng.randint(0, 7) for _ in range(rng.randint(0, 7))]
            b = [rng.randint(0, 7) for _ in range(rng.randint(0, 7))]
            kind = rng.choice(["union", "inter", "diff"])
            f = {"union": ordered_union, "inter": ordered_intersect, "diff": ordered_diff}[kind]
            obs = list(f(a, b))
            chk.count((kind, a, b), nontrivial=bool(a and b))
            chk.dist("helper:" + kind)
            if obs != helper_ref(kind, a, b):
                chk.impl_violation(f"ordered_{kind} differs from the ordered set result",
                                   {"kind": "impl-violation", "helper": kind, "a": a, "b": b, "observed": obs, "expected": helper_ref(kind, a, b)}, {"op": kind})
            # the same call with the arguments given as OTHER collections (an OrderedSet, a tuple, a set / dict keys for the second):
            # the result is ordered by the first argument (then the second), whatever the containers are, and no argument is changed
            from data_algebra.OrderedSet import OrderedSet
            da = list(dict.fromkeys(a))
            for ca_name, ca in (("OrderedSet", OrderedSet(a)), ("tuple", tuple(a)), ("list", list(a))):
                for cb_name, cb in (("OrderedSet", OrderedSet(b)), ("set", set(b)), ("dict_keys", dict.fromkeys(b).keys()), ("tuple", tuple(b))):
                    if kind == "union" and cb_name == "set":
                        continue                      # elements only in an unordered second argument have no defined order
                    before_a, before_b = list(ca), sorted(cb)
                    try:
                        o2 = list(f(ca, cb))
                    except Exception as e:          # noqa
                        o2 = ["<error %s>" % type(e).__name__]
                    exp2 = helper_ref(kind, da, list(dict.fromkeys(b)) if cb_name != "set" else sorted(cb))
                    bad = None
                    if kind == "union" or cb_name != "set":
                        if o2 != exp2:
                            bad = f"ordered_{kind}({ca_name}, {cb_name}) is not ordered by its first argument (then its second)"
                    elif o2 != [x for x in da if (x in cb) == (kind == "inter")]:
                        bad = f"ordered_{kind}({ca_name}, {cb_name}) is not ordered by its first argument"
                    if list(ca) != before_a or sorted(cb) != before_b:
                        bad = f"ordered_{kind}({ca_name}, {cb_name}) changed one of its arguments"
                    chk.count((kind, ca_name, cb_name, tuple(a), tuple(b)), nontrivial=bool(a and b))
                    if bad:
                        chk.impl_violation(bad, {"kind": "impl-violation", "helper": kind, "a": a, "b": b, "a_container": ca_name, "b_container": cb_name,
                                                 "observed": o2, "expected": exp2, "a_after": list(ca)}, {"op": kind, "containers": True})
            terms.append("%s %s %s %s" % ({"union": "KUnion", "inter": "KInter", "diff": "KDiff"}[kind], zl(a), zl(b), zl(obs)))
            meta.append({"helper": kind, "a": a, "b": b, "observed": obs})
            if i < 8:
                chk.sample({"helper": kind, "a": a, "b": b, "observed": obs})
    abc_mixins_oracle(rng, chk, n // 5)
    # oracle failures: shrink and report
    for (init, ops, probe, obs, exp) in impl_fail[:3]:
        def fails(sub):
            try:
                return run_impl(init, sub, probe) != run_ref(init, sub, probe)
            except Exception:
                return True
        small = lib.shrink_list(ops, fails)
        try:
            o2 = run_impl(init, small, probe)
        except Exception as e:
            o2 = {"error": type(e).__name__}
        chk.impl_violation("OrderedSet differs from plain set + first-insertion order",
                           {"kind": "impl-violation", "init": init, "ops": small, "probe": probe, "observed": o2, "expected": run_ref(init, small, probe)}, {"op": "history"})
    # correspondence with the generated model
    if os.path.exists(os.path.join(lib.COQ, "theories/Model/OrderedSetCases.vo")):
        pre = "From Coq Require Import List ZArith Bool.\nImport ListNotations.\nFrom DA Require Import Base.PyRT Base.Cases Gen.G_OrderedSet Model.OrderedSetCases.\n"
        failing, errors, nchecked = lib.run_case_files("C24", pre, terms, "check_cases", per_file=400)
        chk.cov["correspondence"] = {"cases": len(terms), "checked_in_coq": nchecked, "disagreements": len(failing), "errors": errors[:2]}
        chk.cov["traces_validated_against_impl"] = nchecked
        if errors:
            chk.corr_break("correspondence case files failed to compile", errors[0])
        for i in failing[:3]:
            chk.corr_break("generated OrderedSet model disagrees with the implementation", meta[i])
    else:
        chk.corr_break("Model/OrderedSetCases.vo not built", "")


def replay(path):
    r = json.load(open(path))
    if "ops" in r and r.get("kind") == "impl-violation":
        ops = [tuple(o) for o in r["ops"]]
        obs, exp = run_impl(r["init"], ops, r["probe"]), run_ref(r["init"], ops, r["probe"])
        print("observed", obs); print("expected", exp)
        return 0 if obs == exp else 1
    if "helper" in r:
        from data_algebra.OrderedSet import ordered_union, ordered_intersect, ordered_diff
        f = {"union": ordered_union, "inter": ordered_intersect, "diff": ordered_diff}[r["helper"]]
        obs = list(f(r["a"], r["b"]))
        print("observed", obs, "expected", helper_ref(r["helper"], r["a"], r["b"]))
        return 0 if obs == helper_ref(r["helper"], r["a"], r["b"]) else 1
    print(json.dumps(r, indent=1)[:3000])
    return 1
